/-
  Model of gobgp's routing-policy evaluation (internal/pkg/table/policy.go, path.go).

  Two independent formulations:

  * `eval…`  mirrors the Go control flow, loop for loop and flag for flag:
      RoutingPolicy.ApplyPolicy -> applyPolicy      Policy.Apply      -> policyApply
      Statement.Apply           -> stmtApply        Statement.Evaluate-> stmtEvaluate
      <X>Condition.Evaluate     -> evalPrefix / evalNeighbor / evalNextHop / evalAsPath /
                                   evalComm / evalExt / evalLarge / cmpOp / …
      <X>Action.Apply + Path.Set* / PrependAsn / SetNexthop / SetMed -> applyAct
  * `spec…`  is the plain interpreter written from docs/sources/policy.md ("Policy Structure",
      "Execution condition of Action", "4. Attaching policy"): a statement applies when ALL its
      conditions hold; `any` = some member of the set matches, `all` = every member matches,
      `invert` = no member matches; the action(s) of an applying statement are executed;
      route-disposition stops the evaluation; otherwise the default policy decides.

  Abstractions (stated in props/C10.json):
   - a community / ext-community / large-community *pattern* is an exact value (`^AS:LOCAL$`);
     how gobgp compiles and matches general regular expressions is property C13's model.
   - AS_PATH regular expressions are restricted to literal forms decided on the rendered string
     (`^lit$` and unanchored `lit`); the four single-AS forms are modelled exactly.
   - addresses are (family, natural number) pairs; a path's next hop is what Path.GetNexthop returns.
  Core-only (no Mathlib).
-/
namespace Policy

/-! ## data -/

/-- netip.Addr (valid): family bit and the address as a natural number. -/
structure Addr where
  v6  : Bool
  val : Nat
deriving Repr, DecidableEq, Inhabited

/-- netip.Prefix / net.IPNet -/
structure Pfx where
  v6   : Bool
  addr : Nat
  len  : Nat
deriving Repr, DecidableEq, Inhabited

/-- table.Prefix: prefix plus mask-length range -/
structure PfxEntry where
  p  : Pfx
  lo : Nat
  hi : Nat
deriving Repr, DecidableEq, Inhabited

/-- AS_PATH segment: `typ` 1 = SET, 2 = SEQ, 3 = CONFED_SEQ, 4 = CONFED_SET. -/
structure Seg where
  typ : Nat
  as  : List Nat
deriving Repr, DecidableEq, Inhabited

/-- an extended community as far as the policy code looks at it.
    `trans` = isTransitiveType, `kind` 0 = *bgp.TwoOctetAsSpecificExtended, other = any other Go type
    (the generator uses 1 = IPv4-address specific), `sub` = sub-type octet. -/
structure Ext where
  trans : Bool
  kind  : Nat
  sub   : Nat
  as    : Nat
  la    : Nat
deriving Repr, DecidableEq, Inhabited

/-- exact ext-community pattern `<subtype>:^AS:LOCAL$` -/
structure ExtPat where
  sub : Nat
  as  : Nat
  la  : Nat
deriving Repr, DecidableEq, Inhabited

structure Large where
  a : Nat
  b : Nat
  c : Nat
deriving Repr, DecidableEq, Inhabited

/-- what the policy code reads from / writes to a `Path`. Attribute lists are the values the
    getters return (an absent attribute and an empty one are the same list). -/
structure Route where
  withdraw   : Bool
  v6         : Bool             -- family: false = ipv4-unicast, true = ipv6-unicast
  nlri       : Pfx
  srcAddr    : Option Addr      -- GetSource().Address, none = invalid (local route)
  srcAS      : Nat
  srcLocalAS : Nat
  origin     : Option Nat
  asPath     : List Seg
  nh         : Option Addr      -- GetNexthop(), none = no NEXT_HOP and no MP_REACH
  med        : Option Nat
  lp         : Option Nat
  comms      : List Nat
  exts       : List Ext
  larges     : List Large
deriving Repr, DecidableEq, Inhabited

/-- PolicyOptions as read by conditions and actions (nil options = all none/false). -/
structure Opts where
  infoAddr   : Option Addr      -- Info != nil && Info.Address.IsValid()
  infoLocal  : Option Addr      -- Info != nil && Info.LocalAddress.IsValid()
  infoConfed : Bool             -- Info != nil && Info.Confederation
  oldNh      : Option Addr      -- OldNextHop.IsValid()
  rpki       : Option Nat       -- Validate != nil → status (1 valid, 2 not-found, 3 invalid)
deriving Repr, DecidableEq, Inhabited

inductive MatchOpt | any | all | invert
deriving Repr, DecidableEq, Inhabited

/-- singleAsPathMatch: mode 0 INCLUDE `_N_`, 1 LEFT_MOST `^N_`, 2 ORIGIN `_N$`, 3 ONLY `^N$` -/
structure AsSingle where
  mode : Nat
  asn  : Nat
deriving Repr, DecidableEq, Inhabited

/-- the literal regular-expression forms of an as-path-set member this model decides -/
inductive AsRe
  | exact (s : String)     -- `^s$`
  | sub (s : String)       -- `s`
deriving Repr, DecidableEq, Inhabited

inductive Cond
  | prefix (fam : Option Bool) (entries : List PfxEntry) (opt : MatchOpt)
  | neighbor (nets : List Pfx) (opt : MatchOpt)
  | commCount (op val : Nat)
  | asPathLen (op val : Nat)
  | rpki (status : Nat)
  | routeType (t : Nat)          -- 1 internal, 2 external, 3 local
  | origin (v : Nat)
  | asPath (singles : List AsSingle) (res : List AsRe) (opt : MatchOpt)
  | comm (pats : List Nat) (opt : MatchOpt)
  | ext (pats : List ExtPat) (opt : MatchOpt)
  | large (pats : List Large) (opt : MatchOpt)
  | nextHop (nets : List Pfx)
  | afiSafi (fams : List Nat)    -- 0 ipv4-unicast, 1 ipv6-unicast, ≥2 other families
  | lpEq (v : Nat)
  | medEq (v : Nat)
deriving Repr, Inhabited

inductive Act
  | comm (op : Nat) (vals : List Nat)                      -- op 0 add, 1 remove (vals = patterns), 2 replace
  | ext (op : Nat) (vals : List Ext) (pats : List ExtPat)
  | large (op : Nat) (vals : List Large)
  | med (replace : Bool) (v : Int)
  | lp (v : Nat)
  | prepend (useLast : Bool) (asn : Nat) (rep : Nat)
  | nextHop (kind : Nat) (a : Addr)                        -- 0 address, 1 self, 2 peer-address, 3 unchanged
  | origin (v : Nat)
deriving Repr, Inhabited

structure Stmt where
  conds : List Cond
  route : Option Bool          -- RouteAction: none, some true = accept, some false = reject
  mods  : List Act
deriving Repr, Inhabited

structure Pol where
  stmts : List Stmt
deriving Repr, Inhabited

/-- RouteType -/
inductive RT | none | accept | reject
deriving Repr, DecidableEq, Inhabited

/-! ## shared primitives (used by both formulations) -/

def bits (v6 : Bool) : Nat := if v6 then 128 else 32

/-- netip.Prefix.Contains / net.IPNet.Contains (no IPv4-mapped IPv6 addresses are generated) -/
def Pfx.contains (p : Pfx) (a : Addr) : Bool :=
  p.v6 == a.v6 && (a.val >>> (bits p.v6 - p.len)) == (p.addr >>> (bits p.v6 - p.len))

/-- bart Table.Supernets(r) yields exactly the stored prefixes that cover `r` -/
def Pfx.covers (p r : Pfx) : Bool :=
  p.v6 == r.v6 && p.len ≤ r.len && (r.addr >>> (bits p.v6 - p.len)) == (p.addr >>> (bits p.v6 - p.len))

/-- r.Masked().Addr() -/
def Pfx.maskedAddr (r : Pfx) : Addr :=
  ⟨r.v6, (r.addr >>> (bits r.v6 - r.len)) <<< (bits r.v6 - r.len)⟩

/-- (*As4PathParam).ASLen -/
def Seg.asLen (s : Seg) : Nat :=
  if s.typ = 2 then s.as.length else if s.typ = 1 then 1 else 0

/-- Path.GetAsPathLen -/
def asPathLen (r : Route) : Nat := (r.asPath.map Seg.asLen).sum

/-- Path.GetAsSeqList = getAsListOfSpecificType(true,false): SEQ segments contribute their ASes,
    every other segment a single 0. -/
def asSeqList : List Seg → List Nat
  | [] => []
  | s :: rest => (if s.typ = 2 then s.as else [0]) ++ asSeqList rest

def renderSeg (s : Seg) : String :=
  if s.typ = 3 then "(" ++ " ".intercalate (s.as.map toString) ++ ")"
  else if s.typ = 4 then "[" ++ ",".intercalate (s.as.map toString) ++ "]"
  else if s.typ = 1 then "{" ++ ",".intercalate (s.as.map toString) ++ "}"
  else " ".intercalate (s.as.map toString)

/-- bgp.AsPathString -/
def renderAsPath (segs : List Seg) : String := " ".intercalate (segs.map renderSeg)

/-- singleAsPathMatch.Match -/
def AsSingle.matches (m : AsSingle) (aspath : List Nat) : Bool :=
  match aspath with
  | [] => false
  | first :: _ =>
    if m.mode = 0 then aspath.contains m.asn
    else if m.mode = 1 then m.asn == first
    else if m.mode = 2 then m.asn == aspath.getLast!
    else if m.mode = 3 then aspath.length == 1 && m.asn == first
    else false

/-- regexp.MatchString on the rendered AS path for the literal forms -/
def AsRe.matches (re : AsRe) (s : String) : Bool :=
  match re with
  | .exact lit => s == lit
  | .sub lit => (s.splitOn lit).length > 1

/-- the exact-pattern matcher on a two-octet-AS-specific extended community
    (extCommMatchExact, and `^AS:LOCAL$` on `comm.String()` in RegexpRemoveExtCommunities) -/
def ExtPat.matches (p : ExtPat) (x : Ext) : Bool :=
  x.kind == 0 && x.sub == p.sub && x.as == p.as && x.la == p.la

/-- AttributeComparison: 0 EQ, 1 GE, 2 LE -/
def cmpOp (op x v : Nat) : Bool :=
  if op = 0 then x == v else if op = 1 then x ≥ v else if op = 2 then x ≤ v else false

/-- the address a neighbour condition looks at: `options.Info.Address` when valid, else the source of the path -/
def neighborAddr (r : Route) (o : Opts) : Option Addr :=
  match o.infoAddr with
  | some a => some a
  | none => r.srcAddr

/-- the address a next-hop condition looks at: the "original" next hop `options.OldNextHop` when it is
    valid, specified and different, else the path's next hop -/
def conditionNextHop (r : Route) (o : Opts) : Option Addr :=
  match o.oldNh with
  | some old => if old.val != 0 && some old != r.nh then some old else r.nh
  | none => r.nh

def Route.isLocal (r : Route) : Bool := r.srcAddr.isNone
/-- Path.IsIBGP -/
def Route.isIBGP (r : Route) : Bool := r.srcAS == r.srcLocalAS && r.srcAS != 0

/-! ## `eval`: conditions, mirroring the Go loops -/

/-- inner loops of PrefixCondition.Evaluate over the Supernets: first entry whose range holds -/
def prefixLoop (r : Pfx) : List PfxEntry → Bool
  | [] => false
  | e :: rest =>
    if e.lo ≤ r.len && r.len ≤ e.hi && e.p.contains r.maskedAddr then true else prefixLoop r rest

/-- PrefixCondition.Evaluate -/
def evalPrefix (fam : Option Bool) (entries : List PfxEntry) (opt : MatchOpt) (r : Route) : Bool :=
  if fam != some r.v6 then false        -- AFI of the set ≠ AFI of the path (an empty set has AFI 0)
  else
    let result := prefixLoop r.nlri (entries.filter (fun e => e.p.covers r.nlri))
    if opt == .invert then !result else result

def netLoop (a : Addr) : List Pfx → Bool
  | [] => false
  | n :: rest => if n.contains a then true else netLoop a rest

/-- NeighborCondition.Evaluate -/
def evalNeighbor (nets : List Pfx) (opt : MatchOpt) (r : Route) (o : Opts) : Bool :=
  if nets.isEmpty then true
  else
    match neighborAddr r o with
    | none => false
    | some a =>
      let result := netLoop a nets
      if opt == .invert then !result else result

/-- NextHopCondition.Evaluate -/
def evalNextHop (nets : List Pfx) (r : Route) (o : Opts) : Bool :=
  if nets.isEmpty then true
  else
    match conditionNextHop r o with
    | none => false
    | some a => netLoop a nets

/-- first loop of AsPathCondition.Evaluate; `none` = fell through -/
def asSingleLoop (opt : MatchOpt) (aspath : List Nat) : List AsSingle → Option Bool
  | [] => none
  | m :: rest =>
    let result := m.matches aspath
    if opt == .all && !result then some false
    else if opt == .any && result then some true
    else if opt == .invert && result then some false
    else asSingleLoop opt aspath rest

def asReLoop (opt : MatchOpt) (s : String) : List AsRe → Option Bool
  | [] => none
  | re :: rest =>
    let result := re.matches s
    if opt == .all && !result then some false
    else if opt == .any && result then some true
    else if opt == .invert && result then some false
    else asReLoop opt s rest

/-- AsPathCondition.Evaluate -/
def evalAsPath (singles : List AsSingle) (res : List AsRe) (opt : MatchOpt) (r : Route) : Bool :=
  match asSingleLoop opt (asSeqList r.asPath) singles with
  | some b => b
  | none =>
    match asReLoop opt (renderAsPath r.asPath) res with
    | some b => b
    | none => if opt == .any then false else true

/-- the general path shared by Community/ExtCommunity/LargeCommunity conditions:
    `for m in matchers { result = exists y matching; break on ALL&&!result / (ANY|INVERT)&&result }` -/
def generalLoop {α : Type} (hit : α → Bool) (opt : MatchOpt) : List α → Bool → Bool
  | [], result => result
  | m :: rest, _ =>
    let result := hit m
    if opt == .all && !result then result
    else if (opt == .any || opt == .invert) && result then result
    else generalLoop hit opt rest result

/-- communityAnyIndex.matchesAny for exact patterns: some community of the path is indexed -/
def commIndexAny (pats : List Nat) : List Nat → Bool
  | [] => false
  | c :: rest => if pats.contains c then true else commIndexAny pats rest

/-- CommunityCondition.Evaluate -/
def evalComm (pats : List Nat) (opt : MatchOpt) (r : Route) : Bool :=
  if (opt == .any || opt == .invert) && !pats.isEmpty then
    let found := commIndexAny pats r.comms
    if opt == .invert then !found else found
  else
    let result := generalLoop (fun p => r.comms.any (fun y => y == p)) opt pats false
    if opt == .invert then !result else result

/-- fast path of ExtCommunityCondition.Evaluate -/
def extIndexAny (pats : List ExtPat) : List Ext → Bool
  | [] => false
  | x :: rest =>
    if !x.trans then extIndexAny pats rest
    else if x.kind != 0 then extIndexAny pats rest
    else if pats.any (fun p => p.matches x) then true
    else extIndexAny pats rest

/-- ExtCommunityCondition.Evaluate -/
def evalExt (pats : List ExtPat) (opt : MatchOpt) (r : Route) : Bool :=
  if (opt == .any || opt == .invert) && !pats.isEmpty then
    let found := extIndexAny pats r.exts
    if opt == .invert then !found else found
  else
    let result := generalLoop (fun p => r.exts.any (fun x => x.trans && p.matches x)) opt pats false
    if opt == .invert then !result else result

/-- LargeCommunityCondition.Evaluate -/
def evalLarge (pats : List Large) (opt : MatchOpt) (r : Route) : Bool :=
  let result := generalLoop (fun p => r.larges.any (fun y => y == p)) opt pats false
  if opt == .invert then !result else result

/-- RouteTypeCondition.Evaluate -/
def evalRouteType (t : Nat) (r : Route) : Bool :=
  if t = 3 then r.isLocal
  else if t = 1 then !r.isLocal && r.isIBGP
  else if t = 2 then !r.isLocal && !r.isIBGP
  else false

/-- Condition.Evaluate -/
def evalCond (c : Cond) (r : Route) (o : Opts) : Bool :=
  match c with
  | .prefix fam es opt => evalPrefix fam es opt r
  | .neighbor nets opt => evalNeighbor nets opt r o
  | .commCount op v => cmpOp op r.comms.length v
  | .asPathLen op v => cmpOp op (asPathLen r) v
  | .rpki st => match o.rpki with
    | some s => st == s
    | none => false
  | .routeType t => evalRouteType t r
  | .origin v => match r.origin with
    | some x => x == v
    | none => false
  | .asPath ss res opt => evalAsPath ss res opt r
  | .comm ps opt => evalComm ps opt r
  | .ext ps opt => evalExt ps opt r
  | .large ps opt => evalLarge ps opt r
  | .nextHop nets => evalNextHop nets r o
  | .afiSafi fams => fams.contains (if r.v6 then 1 else 0)
  | .lpEq v => r.lp.getD 100 == v
  | .medEq v => match r.med with
    | some m => v == m
    | none => false

/-- Statement.Evaluate -/
def stmtEvaluate : List Cond → Route → Opts → Bool
  | [], _, _ => true
  | c :: rest, r, o => if !evalCond c r o then false else stmtEvaluate rest r o

/-! ## `eval`: actions -/

/-- Path.SetNexthop as seen through GetNexthop -/
def setNexthop (r : Route) (a : Addr) : Route :=
  if !r.v6 && a.v6 then { r with nh := some a }      -- NEXT_HOP deleted, MP_REACH created
  else match r.nh with
    | some _ => { r with nh := some a }
    | none => r

/-- Path.PrependAsn (with the slice bookkeeping of `asns`) -/
def prependAsn (segs : List Seg) (asn rep : Nat) (confed : Bool) : List Seg :=
  let segType := if confed then 3 else 2
  match segs with
  | first :: rest =>
    if first.typ = segType then
      let rep' := if rep + first.as.length > 255 then 255 - first.as.length else rep
      let merged : Seg := ⟨segType, List.replicate rep' asn ++ first.as⟩
      let left := rep - rep'
      if left > 0 then ⟨segType, List.replicate left asn⟩ :: merged :: rest else merged :: rest
    else
      if rep > 0 then ⟨segType, List.replicate rep asn⟩ :: segs else segs
  | [] => if rep > 0 then [⟨segType, List.replicate rep asn⟩] else []

/-- Action.Apply on the (already cloned) path -/
def applyAct (a : Act) (r : Route) (o : Opts) : Route :=
  match a with
  | .comm op vals =>
    if op = 0 then { r with comms := r.comms ++ vals }
    else if op = 1 then { r with comms := r.comms.filter (fun c => !vals.contains c) }
    else { r with comms := vals }
  | .ext op vals pats =>
    if op = 0 then (if vals.isEmpty then r else { r with exts := r.exts ++ vals })
    else if op = 1 then
      -- RegexpRemoveExtCommunities: a non-transitive community is never a candidate
      { r with exts := r.exts.filter (fun x => !(x.trans && pats.any (fun p => p.matches x))) }
    else { r with exts := vals }
  | .large op vals =>
    if op = 0 then { r with larges := r.larges ++ vals }
    else if op = 1 then { r with larges := r.larges.filter (fun c => !vals.contains c) }
    else { r with larges := vals }
  | .med replace v =>
    if replace then { r with med := some (v.toNat % 4294967296) }
    else
      let nv : Int := Int.ofNat (r.med.getD 0) + v
      if nv < 0 then r else if nv > 4294967295 then r else { r with med := some nv.toNat }
  | .lp v => { r with lp := some v }
  | .prepend useLast asn rep =>
    if useLast then
      match asSeqList r.asPath with
      | [] => r
      | first :: _ =>
        if first = 0 then r else { r with asPath := prependAsn r.asPath first rep o.infoConfed }
    else { r with asPath := prependAsn r.asPath asn rep o.infoConfed }
  | .nextHop kind addr =>
    if kind = 1 then (match o.infoLocal with | some a => setNexthop r a | none => r)
    else if kind = 2 then (match o.infoAddr with | some a => setNexthop r a | none => r)
    else if kind = 3 then (match o.oldNh with | some a => setNexthop r a | none => r)
    else setNexthop r addr
  | .origin v => { r with origin := some v }

/-- the ModActions loop of Statement.Apply -/
def applyMods : List Act → Route → Opts → Route
  | [], r, _ => r
  | a :: rest, r, o => applyMods rest (applyAct a r o) o

/-! ## `eval`: statements, policies, assignment -/

/-- Statement.Apply -/
def stmtApply (s : Stmt) (r : Route) (o : Opts) : RT × Route :=
  if stmtEvaluate s.conds r o then
    let r' := if s.mods.isEmpty then r else applyMods s.mods r o
    match s.route with
    | none => (.none, r')
    | some true => (.accept, r')
    | some false => (.reject, r')
  else (.none, r)

/-- Policy.Apply -/
def policyApply : List Stmt → Route → Opts → RT × Route
  | [], r, _ => (.none, r)
  | s :: rest, r, o =>
    let res := stmtApply s r o
    if res.1 != .none then res else policyApply rest res.2 o

/-- the policy loop of RoutingPolicy.ApplyPolicy -/
def policiesApply : List Pol → Route → Opts → RT × Route
  | [], r, _ => (.none, r)
  | p :: rest, r, o =>
    let res := policyApply p.stmts r o
    if res.1 != .none then res else policiesApply rest res.2 o

/-- RoutingPolicy.ApplyPolicy for the assignment (policies, default). `dflt = .none` is the
    answer of getDefaultPolicy for an id without assignment. `none` = nil (filtered). -/
def applyPolicy (pols : List Pol) (dflt : RT) (r : Route) (o : Opts) : Option Route :=
  if r.withdraw then some r
  else
    let res := policiesApply pols r o
    let result := if res.1 == .none then dflt else res.1
    match result with
    | .accept => some res.2
    | _ => none

/-! ## `spec`: the documented model, written as a plain interpreter -/

/-- "any: match is true if given value matches any member of the defined set;
     all: … matches all members; invert: … does not match any member" -/
def specSet {α : Type} (opt : MatchOpt) (members : List α) (memberMatches : α → Bool) : Bool :=
  match opt with
  | .any => members.any memberMatches
  | .all => members.all memberMatches
  | .invert => !members.any memberMatches

/-- a prefix-list entry matches a route when the route's prefix lies inside the entry's prefix and
    its length is within the mask-length range -/
def specPrefixMember (r : Pfx) (e : PfxEntry) : Bool :=
  e.p.covers r && e.lo ≤ r.len && r.len ≤ e.hi

def specCond (c : Cond) (r : Route) (o : Opts) : Bool :=
  match c with
  | .prefix fam es opt =>
    -- "prefix-sets has either v4 or v6 addresses": a set only speaks about routes of its family
    fam == some r.v6 && specSet opt es (specPrefixMember r.nlri)
  | .neighbor nets opt =>
    -- "an empty neighbor-set will match against ANYTHING and not invert based on the match option"
    nets.isEmpty ||
      (match neighborAddr r o with
       | some a => specSet opt nets (fun n => n.contains a)
       | none => false)
  | .commCount op v => cmpOp op r.comms.length v
  | .asPathLen op v => cmpOp op (asPathLen r) v
  | .rpki st => o.rpki == some st
  | .routeType t =>
    (t == 3 && r.isLocal) || (t == 1 && !r.isLocal && r.isIBGP) || (t == 2 && !r.isLocal && !r.isIBGP)
  | .origin v => r.origin == some v
  | .asPath ss res opt =>
    match opt with
    | .any => ss.any (fun m => m.matches (asSeqList r.asPath)) || res.any (fun re => re.matches (renderAsPath r.asPath))
    | .all => ss.all (fun m => m.matches (asSeqList r.asPath)) && res.all (fun re => re.matches (renderAsPath r.asPath))
    | .invert => !(ss.any (fun m => m.matches (asSeqList r.asPath)) || res.any (fun re => re.matches (renderAsPath r.asPath)))
  | .comm ps opt => specSet opt ps (fun p => r.comms.contains p)
  | .ext ps opt => specSet opt ps (fun p => r.exts.any (fun x => x.trans && p.matches x))
  | .large ps opt => specSet opt ps (fun p => r.larges.contains p)
  | .nextHop nets =>
    nets.isEmpty ||
      (match conditionNextHop r o with
       | some a => nets.any (fun n => n.contains a)
       | none => false)
  | .afiSafi fams => fams.contains (if r.v6 then 1 else 0)
  | .lpEq v => r.lp.getD 100 == v
  | .medEq v => r.med == some v

/-- "When ALL conditions in the statement are true, the action(s) in the statement are executed." -/
def specMatches (s : Stmt) (r : Route) (o : Opts) : Bool := s.conds.all (fun c => specCond c r o)

/-- documented effect of one modification action -/
def specAct (a : Act) (r : Route) (o : Opts) : Route :=
  match a with
  | .comm 0 vals => { r with comms := r.comms ++ vals }
  | .comm 1 vals => { r with comms := r.comms.filter (fun c => !vals.contains c) }
  | .comm _ vals => { r with comms := vals }
  | .ext 0 vals _ => { r with exts := r.exts ++ vals }
  | .ext 1 _ pats =>
    -- as in the condition, only transitive communities are compared with the patterns (RFC 7153)
    { r with exts := r.exts.filter (fun x => !(x.trans && pats.any (fun p => p.matches x))) }
  | .ext _ vals _ => { r with exts := vals }
  | .large 0 vals => { r with larges := r.larges ++ vals }
  | .large 1 vals => { r with larges := r.larges.filter (fun c => !vals.contains c) }
  | .large _ vals => { r with larges := vals }
  | .med true v => { r with med := some (v.toNat % 4294967296) }
  | .med false v =>
    -- "adding or subtracting the med value of route"; a result outside 0..2^32-1 leaves it alone
    let nv : Int := Int.ofNat (r.med.getD 0) + v
    if 0 ≤ nv ∧ nv ≤ 4294967295 then { r with med := some nv.toNat } else r
  | .lp v => { r with lp := some v }
  | .prepend useLast asn rep =>
    let confed := o.infoConfed
    let which : Option Nat :=
      if useLast then (match asSeqList r.asPath with
        | [] => none
        | first :: _ => if first = 0 then none else some first)
      else some asn
    match which with
    | none => r
    | some n => { r with asPath := prependAsn r.asPath n rep confed }
  | .nextHop kind addr =>
    let target : Option Addr :=
      if kind = 1 then o.infoLocal else if kind = 2 then o.infoAddr
      else if kind = 3 then o.oldNh else some addr
    match target with
    | none => r
    | some a => setNexthop r a
  | .origin v => { r with origin := some v }

def specMods (mods : List Act) (r : Route) (o : Opts) : Route :=
  mods.foldl (fun acc a => specAct a acc o) r

/-- statements of all attached policies, in order: modifications of applying statements accumulate,
    the first route-disposition decides ("stop following policy/statement evaluation") -/
def specRun : List Stmt → Route → Opts → Option Bool × Route
  | [], r, _ => (none, r)
  | s :: rest, r, o =>
    if specMatches s r o then
      match s.route with
      | some d => (some d, specMods s.mods r o)
      | none => specRun rest (specMods s.mods r o) o
    else specRun rest r o

/-- the documented model: withdrawals pass; otherwise the first decision, else the default
    ("action when the route doesn't match any policy or none of the matched policy specifies
    route-disposition"). `dflt = .none` (no assignment at all) filters the route. -/
def spec (pols : List Pol) (dflt : RT) (r : Route) (o : Opts) : Option Route :=
  if r.withdraw then some r
  else
    match specRun (pols.flatMap (·.stmts)) r o with
    | (some true, r') => some r'
    | (some false, _) => none
    | (none, r') => if dflt == .accept then some r' else none

end Policy
