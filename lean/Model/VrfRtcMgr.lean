/-
  C17 — the RT-membership routes the speaker itself originates for its VRFs.

  Mirrors:
    table_manager.go AddVrf  (one local RT-membership path per import target)      -> addVrfRtm
    table_manager.go DeleteVrf + table.go deleteRTCPathsByVrf + vrf.go
      isLastTargetUser (withdraw the local membership of a target no remaining VRF
      imports)                                                                      -> delVrfRtm
-/
import Model.VrfRtc
namespace VrfRtc

/-- AddVrf: the RT keys announced (in the order of the import list as configured) -/
def addVrfRtm (v : Vrf) : List Nat := v.imports

/-- vrf.go isLastTargetUser over the VRFs that remain -/
def isLastTargetUser (rest : List Vrf) (k : Nat) : Bool := rest.all (fun w => !w.imports.contains k)

/-- DeleteVrf: the RT keys whose local membership is withdrawn (`rest` = the other VRFs). The Go
    code ranges over the import MAP, so each key is considered once -/
def delVrfRtm (v : Vrf) (rest : List Vrf) : List Nat :=
  (v.imports.eraseDups).filter (isLastTargetUser rest)

end VrfRtc
