/-
  C17 — the RT-membership routes the speaker itself originates for its VRFs.

  Mirrors:
    table_manager.go AddVrf  (one local RT-membership path per import target)      -> addVrfRtm
    table_manager.go DeleteVrf + table.go deleteRTCPathsByVrf + vrf.go
      isLastTargetUser (withdraw the local membership of a target no remaining VRF
      imports)                                                                      -> delVrfRtm
    destination.go Calculate on an RT-membership destination (comparator reduced to
      LOCAL_PREF, then "locally originated first")                                  -> rUpdate
    table.go deleteRTCPathsByVrf, inner loop: the FIRST LOCAL path of the destination,
      non-local paths before it are skipped                                         -> scanLocal
    server.go AddVrf / DeleteVrf (TableManager call + propagateUpdate of the returned
      membership paths), received memberships of neighbours with the same origin AS  -> Mgr.addVrf / delVrf / recv
-/
import Model.VrfRtc
namespace VrfRtc

/-- AddVrf: the RT keys announced (in the order of the import list as configured) -/
def addVrfRtm (v : Vrf) : List Nat := v.imports

/-- vrf.go isLastTargetUser over the VRFs that remain -/
def isLastTargetUser (rest : List Vrf) (k : Nat) : Bool := rest.all (fun w => !w.imports.contains k)

/-- DeleteVrf: the RT keys whose local membership is withdrawn (`rest` = the other VRFs). The Go
    code ranges over the import MAP, so each key is considered once -/
def delVrfRtm (v : Vrf) (rest : List Vrf) : List Nat :=
  (v.imports.eraseDups).filter (isLastTargetUser rest)

/-! ## the RT-membership destinations this speaker originates into -/

/-- one path of an RT-membership destination `(local AS, RT)`: `src = 0` is this speaker, any other
    value an iBGP neighbour announcing the identical NLRI -/
structure RPath where
  src  : Nat
  pref : Nat
deriving DecidableEq, Repr, Inhabited

/-- LOCAL_PREF first, then locally originated before received -/
def rkey (p : RPath) : Nat := p.pref * 2 + (if p.src == 0 then 1 else 0)

/-- implicit / explicit withdraw of the path of that source (at most one per source) -/
def rRemove (l : List RPath) (src : Nat) : List RPath := l.filter (fun q => q.src != src)

def rInsert : List RPath → RPath → List RPath
  | [], p => [p]
  | q :: r, p => if rkey q < rkey p then p :: q :: r else q :: rInsert r p

/-- destination.Calculate -/
def rUpdate (l : List RPath) (p : RPath) (wd : Bool) : List RPath :=
  if wd then rRemove l p.src else rInsert (rRemove l p.src) p

/-- deleteRTCPathsByVrf: `for _, p := range dest.knownPathList { if p.IsLocal() { collect; return } }` -/
def scanLocal : List RPath → Bool
  | [] => false
  | p :: r => if p.src == 0 then true else scanLocal r

/-- the VRF table and the RT-membership destinations keyed by RT (origin AS = local AS) -/
structure Mgr where
  vrfs : List Vrf
  rtc  : Nat → List RPath

def Mgr.empty : Mgr := ⟨[], fun _ => []⟩

/-- propagateUpdate of locally originated membership paths (LOCAL_PREF absent = 100) -/
def localUpdate (rtc : Nat → List RPath) (ks : List Nat) (wd : Bool) : Nat → List RPath :=
  ks.foldl (fun t k => fun x => if x = k then rUpdate (t k) ⟨0, 100⟩ wd else t x) rtc

/-- AddVrf (an existing name is an error and changes nothing) -/
def Mgr.addVrf (m : Mgr) (v : Vrf) : Mgr :=
  if m.vrfs.any (fun w => w.name == v.name) then m
  else ⟨v :: m.vrfs, localUpdate m.rtc (addVrfRtm v) false⟩

/-- DeleteVrf: new state and the RT keys whose local membership is withdrawn -/
def Mgr.delVrf (m : Mgr) (name : Nat) : Mgr × List Nat :=
  match m.vrfs.find? (fun w => w.name == name) with
  | none => (m, [])
  | some v =>
    let rest := m.vrfs.filter (fun w => w.name != name)
    let ws := (delVrfRtm v rest).filter (fun k => scanLocal (m.rtc k))
    (⟨rest, localUpdate m.rtc ws true⟩, ws)

/-- a neighbour's membership for the same NLRI announced / withdrawn -/
def Mgr.recv (m : Mgr) (k : Nat) (p : RPath) (wd : Bool) : Mgr :=
  ⟨m.vrfs, fun x => if x = k then rUpdate (m.rtc k) p wd else m.rtc x⟩

inductive MOp where
  | add (v : Vrf)
  | del (name : Nat)
  | recv (k : Nat) (p : RPath) (wd : Bool)
deriving Repr

def Mgr.step (m : Mgr) : MOp → Mgr
  | .add v => m.addVrf v
  | .del n => (m.delVrf n).1
  | .recv k p wd => m.recv k p wd

def Mgr.run (ops : List MOp) : Mgr := ops.foldl Mgr.step Mgr.empty

end VrfRtc
