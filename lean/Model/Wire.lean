/-
  Model of the core of gobgp's BGP wire codec (pkg/packet/bgp/bgp.go, validate.go).
  Byte strings are `List Nat` (every element < 256 for real inputs; the drivers only ever
  feed octets).  Every definition names the Go function it mirrors.  Core-only Lean.

  Modelled exactly:  BGPHeader, BGPMessage.Serialize (length cap), ParseBGPMessage/parseBody,
  KEEPALIVE, NOTIFICATION, ROUTE-REFRESH, BGPUpdate (withdrawn / attributes / NLRI framing, IPv4
  prefixes with and without ADD-PATH ids), PathAttribute header (extended-length rule),
  validatePathAttributeFlags + PathAttrFlags, ORIGIN, AS_PATH (2/4 octet), NEXT_HOP, MED,
  LOCAL_PREF, ATOMIC_AGGREGATE, AGGREGATOR, COMMUNITIES, ORIGINATOR_ID, CLUSTER_LIST, AS4_PATH,
  AS4_AGGREGATOR, LARGE_COMMUNITY, unknown attributes, and the attribute constructors New….
  NOT modelled: OPEN bodies, MP_REACH/MP_UNREACH and every other known attribute type
  (`decAttr` answers `unmodelled` for them; the harness never asks about such inputs).
-/
namespace Wire

abbrev Bytes := List Nat

/-- binary.BigEndian.PutUint16 (value taken mod 2^16 like the Go conversion `uint16(x)`) -/
def be16 (n : Nat) : Bytes := [n / 256 % 256, n % 256]
/-- binary.BigEndian.PutUint32 -/
def be32 (n : Nat) : Bytes := [n / 16777216 % 256, n / 65536 % 256, n / 256 % 256, n % 256]
/-- binary.BigEndian.Uint16 of the first two octets -/
def rd16 : Bytes → Nat
  | a :: b :: _ => a * 256 + b
  | _ => 0
/-- binary.BigEndian.Uint32 of the first four octets -/
def rd32 : Bytes → Nat
  | a :: b :: c :: d :: _ => ((a * 256 + b) * 256 + c) * 256 + d
  | _ => 0

/-- MarshallingOption as far as the modelled grammar depends on it.
    apRx / apTx : AddPath[RF_IPv4_UC] has the RECEIVE / SEND bit (IsAddPathEnabled(decode=true/false)). -/
structure Opts where
  apRx : Bool
  apTx : Bool
  use2 : Bool
  ext  : Bool
deriving Repr, DecidableEq

/-! ## NLRI: IPAddrPrefix (IPv4) and PathNLRI -/

/-- IPAddrPrefix: netip.Prefix with a 4-octet address -/
structure Prefix where
  bits : Nat
  addr : Bytes
deriving Repr, DecidableEq

def byteLen (bits : Nat) : Nat := (bits + 7) / 8

/-- the `b[bytelen-1] &= byte(0xff00 >> rem)` step of IPAddrPrefixDefault.decodePrefix -/
def maskLast (bits : Nat) (b : Bytes) : Bytes :=
  if bits % 8 = 0 then b
  else b.take (byteLen bits - 1) ++
       [Nat.land (b.getD (byteLen bits - 1) 0) ((0xff00 >>> (bits % 8)) % 256)] ++
       b.drop (byteLen bits)

/-- IPAddrPrefixDefault.decodePrefix(data, bitlen, addrlen = 4) -/
def decodePrefix (data : Bytes) (bitlen : Nat) : Option Prefix :=
  if data.length < byteLen bitlen then none
  else if bitlen > 32 then none
  else
    let b := data.take (byteLen bitlen) ++ List.replicate (4 - byteLen bitlen) 0
    some ⟨bitlen, maskLast bitlen b⟩

/-- IPAddrPrefix.decodeFromBytes -/
def decPrefix (data : Bytes) : Option Prefix :=
  match data with
  | [] => none
  | l :: rest => decodePrefix rest l

/-- IPAddrPrefix.Serialize -/
def encPrefix (p : Prefix) : Bytes := (p.bits % 256) :: p.addr.take (byteLen p.bits)

/-- IPAddrPrefix.Len -/
def prefixLen (p : Prefix) : Nat := 1 + byteLen p.bits

/-- NewIPAddrPrefix output is masked: decoding the serialised octets gives the address back -/
def Prefix.wf (p : Prefix) : Bool :=
  p.bits ≤ 32 && p.addr.length == 4 &&
  decide (maskLast p.bits (p.addr.take (byteLen p.bits) ++ List.replicate (4 - byteLen p.bits) 0) = p.addr)

structure PathNLRI where
  id  : Nat
  pfx : Prefix
deriving Repr, DecidableEq

/-- PathNLRI.toSlice -/
def encNlri (ap : Bool) (n : PathNLRI) : Bytes :=
  (if ap then be32 n.id else []) ++ encPrefix n.pfx

def encNlris (ap : Bool) : List PathNLRI → Bytes
  | [] => []
  | n :: ns => encNlri ap n ++ encNlris ap ns

/-- the optional 4-octet path identifier read in front of a prefix when `addpathLen != 0` -/
def rdPathId (ap : Bool) (data : Bytes) : Option (Nat × Bytes) :=
  if ap then (if data.length < 4 then none else some (rd32 data, data.drop 4))
  else some (0, data)

/-- the withdrawn-routes loop of BGPUpdate.DecodeFromBytes (`routelen` counter + `data` slice).
    `fuel` bounds the iterations (each consumes ≥ 1 of routelen). -/
def decWithdrawn (ap : Bool) : Nat → Nat → Bytes → Option (List PathNLRI × Bytes)
  | 0, routelen, data => if routelen = 0 then some ([], data) else none
  | fuel + 1, routelen, data =>
    if routelen = 0 then some ([], data)
    else
      match rdPathId ap data with
      | none => none
      | some (id, data1) =>
        match decPrefix data1 with
        | none => none
        | some w =>
          let wLen := prefixLen w + (if ap then 4 else 0)   -- uint16(..): ≤ 9, no wrap
          if wLen > routelen then none
          else if data1.length < prefixLen w then none
          else
            match decWithdrawn ap fuel (routelen - wLen) (data1.drop (prefixLen w)) with
            | none => none
            | some (ws, rest) => some (⟨id, w⟩ :: ws, rest)

/-- the NLRI loop at the tail of BGPUpdate.DecodeFromBytes (`restlen` counter; signed in Go) -/
def decNlriTail (ap : Bool) : Nat → Bytes → Option (List PathNLRI)
  | 0, data => if data.length = 0 then some [] else none
  | fuel + 1, data =>
    if data.length = 0 then some []
    else
      match rdPathId ap data with
      | none => none
      | some (id, data1) =>
        match decPrefix data1 with
        | none => none
        | some n =>
          if data1.length < prefixLen n then none
          else if prefixLen n > 32 then none
          else
            match decNlriTail ap fuel (data1.drop (prefixLen n)) with
            | none => none
            | some ns => some (⟨id, n⟩ :: ns)

/-! ## Path attributes -/

/-- AsPathParam (w4 = false) / As4PathParam (w4 = true) -/
structure Seg where
  w4  : Bool
  typ : Nat
  num : Nat
  as  : List Nat
deriving Repr, DecidableEq

def encAs (w4 : Bool) (a : Nat) : Bytes := if w4 then be32 a else be16 a

def encAsList (w4 : Bool) : List Nat → Bytes
  | [] => []
  | a :: as => encAs w4 a ++ encAsList w4 as

/-- AsPathParam.Serialize / As4PathParam.Serialize -/
def encSeg (s : Seg) : Bytes := (s.typ % 256) :: (s.num % 256) :: encAsList s.w4 s.as

def encSegs : List Seg → Bytes
  | [] => []
  | s :: ss => encSeg s ++ encSegs ss

/-- AsPathParam.Len / As4PathParam.Len -/
def segLen (s : Seg) : Nat := 2 + s.as.length * (if s.w4 then 4 else 2)

def segsLen : List Seg → Nat
  | [] => 0
  | s :: ss => segLen s + segsLen ss

/-- validateAsPathValueBytes, the loop (the parity test is in `validateAsPath`) -/
def validateAsLoop (w4 : Bool) : Nat → Bytes → Bool
  | 0, d => d.length = 0
  | fuel + 1, d =>
    if d.length = 0 then true
    else if d.length < 2 then false
    else
      let segType := d.getD 0 0
      let asNum := d.getD 1 0
      if segType = 0 || segType > 4 then false
      else if asNum = 0 then false
      else
        let segLength := asNum * (if w4 then 4 else 2)
        if segLength > (d.drop 2).length then false
        else validateAsLoop w4 fuel ((d.drop 2).drop segLength)

/-- validateAsPathValueBytes: `some use4ByteAS` or `none` on error -/
def validateAsPath (use2 : Bool) (data : Bytes) : Option Bool :=
  if data.length % 2 ≠ 0 then none
  else if validateAsLoop (!use2) data.length data then some (!use2) else none

/-- the `for range a.Num { append(Uint16/32(data)); data = data[w:] }` loop -/
def rdAsList (w4 : Bool) : Nat → Bytes → List Nat
  | 0, _ => []
  | n + 1, d => (if w4 then rd32 d else rd16 d) :: rdAsList w4 n (d.drop (if w4 then 4 else 2))

/-- AsPathParam.DecodeFromBytes / As4PathParam.DecodeFromBytes -/
def decSeg (w4 : Bool) (data : Bytes) : Option Seg :=
  if data.length < 2 then none
  else
    let typ := data.getD 0 0
    let num := data.getD 1 0
    if (data.drop 2).length < num * (if w4 then 4 else 2) then none
    else some ⟨w4, typ, num, rdAsList w4 num (data.drop 2)⟩

/-- the `for len(value) > 0 { tuple.DecodeFromBytes(value); value = value[tuple.Len():] }` loop -/
def decSegs (w4 : Bool) : Nat → Bytes → Option (List Seg)
  | 0, v => if v.length = 0 then some [] else none
  | fuel + 1, v =>
    if v.length = 0 then some []
    else
      match decSeg w4 v with
      | none => none
      | some s =>
        if v.length < segLen s then none
        else
          match decSegs w4 fuel (v.drop (segLen s)) with
          | none => none
          | some ss => some (s :: ss)

inductive AttrVal where
  | origin (v : Nat)
  | asPath (segs : List Seg)
  | nextHop (addr : Bytes)
  | med (v : Nat)
  | localPref (v : Nat)
  | atomicAgg
  | aggregator (as4 : Bool) (as : Nat) (addr : Nat)
  | communities (vs : List Nat)
  | originatorId (addr : Nat)
  | clusterList (ids : List Nat)
  | as4Path (segs : List Seg)
  | as4Aggregator (as : Nat) (addr : Nat)
  | largeComm (vs : List (Nat × Nat × Nat))
  | unknown (value : Bytes)
deriving Repr, DecidableEq

/-- PathAttribute{Flags,Type,Length} + the typed value -/
structure Attr where
  flags  : Nat
  typ    : Nat
  length : Nat
  val    : AttrVal
deriving Repr, DecidableEq

def FLAG_EXT : Nat := 16
def FLAG_PARTIAL : Nat := 32
def FLAG_TRANS : Nat := 64
def FLAG_OPT : Nat := 128

/-- bit test `flags & bit != 0` for a single-bit mask -/
def hasBit (flags bit : Nat) : Bool := flags / bit % 2 = 1

/-- the map literal PathAttrFlags -/
def pathAttrFlags (t : Nat) : Option Nat :=
  if t = 1 || t = 2 || t = 3 || t = 5 || t = 6 then some 64
  else if t = 4 || t = 9 || t = 10 || t = 14 || t = 15 || t = 26 || t = 29 then some 128
  else if t = 7 || t = 8 || t = 16 || t = 17 || t = 18 || t = 22 || t = 23 || t = 25 || t = 32 || t = 40 then some 192
  else none

/-- getPathAttrFlags -/
def getPathAttrFlags (t l : Nat) : Nat :=
  (pathAttrFlags t).getD 0 + (if l > 255 then FLAG_EXT else 0)

/-- validatePathAttributeFlags: true = "" (no error) -/
def validateFlags (t flags : Nat) : Bool :=
  if !hasBit flags FLAG_OPT && !hasBit flags FLAG_TRANS then false
  else if !hasBit flags FLAG_OPT && hasBit flags FLAG_PARTIAL then false
  else if hasBit flags FLAG_OPT && !hasBit flags FLAG_TRANS && hasBit flags FLAG_PARTIAL then false
  else
    match pathAttrFlags t with
    | some f =>
      -- f != flags &^ EXTENDED_LENGTH &^ PARTIAL
      f = flags - (if hasBit flags FLAG_EXT then FLAG_EXT else 0) - (if hasBit flags FLAG_PARTIAL then FLAG_PARTIAL else 0)
    | none => true

def encU32s : List Nat → Bytes
  | [] => []
  | v :: vs => be32 v ++ encU32s vs

def encLarge : List (Nat × Nat × Nat) → Bytes
  | [] => []
  | (a, b, c) :: vs => be32 a ++ be32 b ++ be32 c ++ encLarge vs

/-- the value octets each PathAttributeX.Serialize hands to PathAttribute.Serialize -/
def encVal : AttrVal → Bytes
  | .origin v => [v % 256]
  | .asPath segs => encSegs segs
  | .nextHop addr => addr
  | .med v => be32 v
  | .localPref v => be32 v
  | .atomicAgg => []
  | .aggregator as4 as addr => (if as4 then be32 as else be16 as) ++ be32 addr
  | .communities vs => encU32s vs
  | .originatorId a => be32 a
  | .clusterList ids => encU32s ids
  | .as4Path segs => encSegs segs
  | .as4Aggregator as addr => be32 as ++ be32 addr
  | .largeComm vs => encLarge vs
  | .unknown v => v

/-- PathAttribute.Serialize(value): the extended-length flag is chosen here -/
def encAttrHdr (flags typ : Nat) (value : Bytes) : Bytes :=
  let length := value.length % 65536
  let flags' := if !hasBit flags FLAG_EXT && length > 255 then flags + FLAG_EXT else flags
  if hasBit flags' FLAG_EXT then (flags' % 256) :: (typ % 256) :: (be16 length ++ value)
  else (flags' % 256) :: (typ % 256) :: (length % 256) :: value

/-- PathAttributeX.Serialize -/
def encAttr (a : Attr) : Bytes := encAttrHdr a.flags a.typ (encVal a.val)

def encAttrs : List Attr → Bytes
  | [] => []
  | a :: as => encAttr a ++ encAttrs as

/-- PathAttribute.Len: derived from the cached Flags/Length -/
def attrLen (a : Attr) : Nat := (if hasBit a.flags FLAG_EXT then 4 else 3) + a.length

def rdU32s : Nat → Bytes → List Nat
  | 0, _ => []
  | n + 1, d => rd32 d :: rdU32s n (d.drop 4)

def rdLarge : Nat → Bytes → List (Nat × Nat × Nat)
  | 0, _ => []
  | n + 1, d => (rd32 d, rd32 (d.drop 4), rd32 (d.drop 8)) :: rdLarge n (d.drop 12)

inductive DecAttr where
  | ok (a : Attr)
  | err
  | unmodelled
deriving Repr, DecidableEq

/-- PathAttribute.DecodeFromBytes: (flags, type, length, value) -/
def decAttrHdr (data : Bytes) : Option (Nat × Nat × Nat × Bytes) :=
  if data.length < 2 then none
  else
    let flags := data.getD 0 0
    let typ := data.getD 1 0
    let r : Option (Nat × Bytes) :=
      if hasBit flags FLAG_EXT then
        (if data.length < 4 then none else some (rd16 (data.drop 2), data.drop 4))
      else
        (if data.length < 3 then none else some (data.getD 2 0, data.drop 3))
    match r with
    | none => none
    | some (length, rest) =>
      if rest.length < length then none
      else if !validateFlags typ flags then none
      else some (flags, typ, length, rest.take length)

/-- the typed part of each PathAttributeX.DecodeFromBytes, given the decoded header -/
def decVal (o : Opts) (typ length : Nat) (value : Bytes) : Option (Option AttrVal) :=
  -- outer none = unmodelled type; inner none = error
  if typ = 1 then some (if length ≠ 1 then none else some (.origin (value.getD 0 0)))
  else if typ = 2 then
    some (if length = 0 then some (.asPath [])
          else match validateAsPath o.use2 value with
            | none => none
            | some w4 => (decSegs w4 value.length value).map .asPath)
  else if typ = 3 then some (if length ≠ 4 && length ≠ 16 then none else some (.nextHop value))
  else if typ = 4 then some (if length ≠ 4 then none else some (.med (rd32 value)))
  else if typ = 5 then some (if length ≠ 4 then none else some (.localPref (rd32 value)))
  else if typ = 6 then some (if length ≠ 0 then none else some .atomicAgg)
  else if typ = 7 then
    some (if length = 6 then some (.aggregator false (rd16 value) (rd32 (value.drop 2)))
          else if length = 8 then some (.aggregator true (rd32 value) (rd32 (value.drop 4)))
          else none)
  else if typ = 8 then some (if length % 4 ≠ 0 then none else some (.communities (rdU32s (length / 4) value)))
  else if typ = 9 then some (if length ≠ 4 then none else some (.originatorId (rd32 value)))
  else if typ = 10 then some (if length % 4 ≠ 0 then none else some (.clusterList (rdU32s (length / 4) value)))
  else if typ = 17 then
    some (if length = 0 then some (.as4Path [])
          else match validateAsPath false value with
            | none => none
            | some w4 => if !w4 then none else (decSegs true value.length value).map .as4Path)
  else if typ = 18 then some (if length ≠ 8 then none else some (.as4Aggregator (rd32 value) (rd32 (value.drop 4))))
  else if typ = 32 then some (if length % 12 ≠ 0 then none else some (.largeComm (rdLarge (length / 12) value)))
  else if (pathAttrFlags typ).isSome then none
  else some (some (.unknown value))

/-- GetPathAttribute + p.DecodeFromBytes -/
def decAttr (o : Opts) (data : Bytes) : DecAttr :=
  match decAttrHdr data with
  | none => .err
  | some (flags, typ, length, value) =>
    match decVal o typ length value with
    | none => .unmodelled
    | some none => .err
    | some (some v) => .ok ⟨flags, typ, length, v⟩

inductive Res (α : Type) where
  | ok (a : α)
  | reject
  | unmodelled
deriving Repr, DecidableEq

/-- the path-attribute loop of BGPUpdate.DecodeFromBytes (`pathlen` counter + `data` slice).
    Any recorded error makes the final result non-nil, so the model rejects at the first one. -/
def decAttrs (o : Opts) : Nat → Nat → Bytes → Res (List Attr × Bytes)
  | 0, pathlen, data => if pathlen = 0 then .ok ([], data) else .reject
  | fuel + 1, pathlen, data =>
    if pathlen = 0 then .ok ([], data)
    else if pathlen < 3 then .reject
    else if data.length < 2 then .reject
    else
      match decAttr o data with
      | .err => .reject
      | .unmodelled => .unmodelled
      | .ok a =>
        let pLen := attrLen a % 65536
        if pLen > pathlen then .reject
        else if data.length < attrLen a then .reject
        else
          match decAttrs o fuel (pathlen - pLen) (data.drop (attrLen a)) with
          | .ok (as, rest) => .ok (a :: as, rest)
          | .reject => .reject
          | .unmodelled => .unmodelled

/-! ## Messages -/

/-- BGPUpdate with its cached length fields -/
structure Update where
  wlen      : Nat
  withdrawn : List PathNLRI
  palen     : Nat
  attrs     : List Attr
  nlri      : List PathNLRI
deriving Repr, DecidableEq

/-- BGPUpdate.Serialize (the cached fields are overwritten, see `normUpdate`) -/
def encUpdate (o : Opts) (u : Update) : Bytes :=
  be16 (encNlris o.apTx u.withdrawn).length ++ encNlris o.apTx u.withdrawn ++
  (be16 (encAttrs u.attrs).length ++ encAttrs u.attrs) ++ encNlris o.apTx u.nlri

/-- what BGPUpdate.Serialize leaves in the object: WithdrawnRoutesLen / TotalPathAttributeLen set -/
def normUpdate (o : Opts) (u : Update) : Update :=
  { u with wlen := (encNlris o.apTx u.withdrawn).length % 65536,
           palen := (encAttrs u.attrs).length % 65536 }

/-- BGPUpdate.DecodeFromBytes -/
def decUpdate (o : Opts) (data : Bytes) : Res Update :=
  if data.length < 2 then .reject
  else
    let wlen := rd16 data
    let data1 := data.drop 2
    if data1.length < wlen then .reject
    else
      match decWithdrawn o.apRx wlen wlen data1 with
      | none => .reject
      | some (ws, data2) =>
        if data2.length < 2 then .reject
        else
          let palen := rd16 data2
          let data3 := data2.drop 2
          if data3.length < palen then .reject
          else
            match decAttrs o palen palen data3 with
            | .reject => .reject
            | .unmodelled => .unmodelled
            | .ok (as, data4) =>
              match decNlriTail o.apRx data4.length data4 with
              | none => .reject
              | some ns => .ok ⟨wlen, ws, palen, as, ns⟩

inductive Body where
  | update (u : Update)
  | notification (code sub : Nat) (data : Bytes)
  | keepalive
  | routeRefresh (afi demarc safi : Nat)
  | openRaw (raw : Bytes)          -- OPEN is outside the model; carried opaquely, never produced by `decBody`
deriving Repr, DecidableEq

/-- BGPMessage: Header{Len,Type} + Body (the marker is not state: Serialize always writes ones) -/
structure Msg where
  hlen : Nat
  typ  : Nat
  body : Body
deriving Repr, DecidableEq

/-- Body.Serialize -/
def encBody (o : Opts) : Body → Bytes
  | .update u => encUpdate o u
  | .notification c s d => (c % 256) :: (s % 256) :: d
  | .keepalive => []
  | .routeRefresh afi d s => be16 afi ++ [d % 256, s % 256]
  | .openRaw raw => raw

def normBody (o : Opts) : Body → Body
  | .update u => .update (normUpdate o u)
  | b => b

def marker : Bytes := List.replicate 16 255

/-- BGPHeader.Serialize -/
def encHeader (len typ : Nat) : Bytes := marker ++ be16 len ++ [typ % 256]

/-- the per-type cap of BGPMessage.Serialize -/
def maxLen (o : Opts) (typ : Nat) : Nat :=
  if o.ext && (typ = 2 || typ = 3 || typ = 5) then 65535 else 4096

/-- BGPMessage.Serialize: bytes and the message as Serialize leaves it (Header.Len filled in);
    `none` = "too long message length" -/
def serialize (o : Opts) (m : Msg) : Option (Bytes × Msg) :=
  let b := encBody o m.body
  if m.hlen = 0 then
    if 19 + b.length > maxLen o m.typ then none
    else some (encHeader (19 + b.length) m.typ ++ b,
               { hlen := 19 + b.length, typ := m.typ, body := normBody o m.body })
  else some (encHeader m.hlen m.typ ++ b, { m with body := normBody o m.body })

/-- parseBody's switch + Body.DecodeFromBytes -/
def decBody (o : Opts) (typ : Nat) (data : Bytes) : Res Body :=
  if typ = 1 then .unmodelled
  else if typ = 2 then
    match decUpdate o data with
    | .ok u => .ok (.update u)
    | .reject => .reject
    | .unmodelled => .unmodelled
  else if typ = 3 then
    if data.length < 2 then .reject
    else .ok (.notification (data.getD 0 0) (data.getD 1 0) (data.drop 2))
  else if typ = 4 then .ok .keepalive
  else if typ = 5 then
    if data.length < 4 then .reject
    else .ok (.routeRefresh (rd16 data) (data.getD 2 0) (data.getD 3 0))
  else .reject

/-- ParseBGPMessage = BGPHeader.DecodeFromBytes + length test + parseBody on data[19:Len] -/
def parse (o : Opts) (data : Bytes) : Res Msg :=
  if data.length % 65536 < 19 then .reject            -- uint16(len(data)) < BGP_HEADER_LENGTH
  else if data.take 16 ≠ marker then .reject
  else
    let len := rd16 (data.drop 16)
    if len < 19 then .reject
    else
      let typ := data.getD 18 0
      if len > data.length then .reject
      else
        match decBody o typ ((data.take len).drop 19) with
        | .ok b => .ok ⟨len, typ, b⟩
        | .reject => .reject
        | .unmodelled => .unmodelled

/-! ## Constructors (New…): what the library can construct -/

/-- NewIPAddrPrefix is modelled by its post-condition `Prefix.wf`; the harness passes masked prefixes. -/
def mkOrigin (v : Nat) : Attr := ⟨64, 1, 1, .origin v⟩
/-- NewAsPathParam / NewAs4PathParam -/
def mkSeg (w4 : Bool) (typ : Nat) (as : List Nat) : Seg := ⟨w4, typ, as.length % 256, as⟩
/-- NewPathAttributeAsPath -/
def mkAsPath (segs : List Seg) : Attr :=
  ⟨getPathAttrFlags 2 (segsLen segs), 2, segsLen segs % 65536, .asPath segs⟩
/-- NewPathAttributeNextHop -/
def mkNextHop (addr : Bytes) : Attr := ⟨64, 3, if addr.length = 16 then 16 else 4, .nextHop addr⟩
def mkMed (v : Nat) : Attr := ⟨128, 4, 4, .med v⟩
def mkLocalPref (v : Nat) : Attr := ⟨64, 5, 4, .localPref v⟩
def mkAtomicAgg : Attr := ⟨64, 6, 0, .atomicAgg⟩
/-- NewPathAttributeAggregator -/
def mkAggregator (as4 : Bool) (as addr : Nat) : Attr := ⟨192, 7, if as4 then 8 else 6, .aggregator as4 as addr⟩
/-- NewPathAttributeCommunities -/
def mkCommunities (vs : List Nat) : Attr :=
  ⟨getPathAttrFlags 8 (vs.length * 4), 8, vs.length * 4 % 65536, .communities vs⟩
def mkOriginatorId (a : Nat) : Attr := ⟨128, 9, 4, .originatorId a⟩
/-- NewPathAttributeClusterList -/
def mkClusterList (ids : List Nat) : Attr :=
  ⟨getPathAttrFlags 10 (ids.length * 4), 10, ids.length * 4 % 65536, .clusterList ids⟩
/-- NewPathAttributeAs4Path -/
def mkAs4Path (segs : List Seg) : Attr :=
  ⟨getPathAttrFlags 17 (segsLen segs), 17, segsLen segs % 65536, .as4Path segs⟩
def mkAs4Aggregator (as addr : Nat) : Attr := ⟨192, 18, 8, .as4Aggregator as addr⟩
/-- NewPathAttributeLargeCommunities -/
def mkLargeComm (vs : List (Nat × Nat × Nat)) : Attr :=
  ⟨getPathAttrFlags 32 (vs.length * 12), 32, vs.length * 12 % 65536, .largeComm vs⟩
/-- NewPathAttributeUnknown -/
def mkUnknown (flags typ : Nat) (value : Bytes) : Attr :=
  ⟨if value.length > 255 && !hasBit flags FLAG_EXT then flags + FLAG_EXT else flags, typ,
   value.length % 65536, .unknown value⟩

/-- NewBGPUpdateMessage -/
def mkUpdate (w : List PathNLRI) (as : List Attr) (n : List PathNLRI) : Msg :=
  ⟨0, 2, .update ⟨0, w, 0, as, n⟩⟩
def mkNotification (c s : Nat) (d : Bytes) : Msg := ⟨0, 3, .notification c s d⟩
def mkKeepalive : Msg := ⟨19, 4, .keepalive⟩
def mkRouteRefresh (afi d s : Nat) : Msg := ⟨0, 5, .routeRefresh afi d s⟩

end Wire
