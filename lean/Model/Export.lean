/-
  Model of gobgp's per-peer export rewriting and loop prevention.

  Mirrors, branch for branch:
    internal/pkg/table/path.go
      Clone, getPathAttr, GetPathAttrs, setPathAttr, delPathAttr     -> clone / getAttr / getAttrs / setAttr / delAttr
      GetNexthop, SetNexthop, IsLocal, GetAsList, IsLLGRStale        -> getNexthop / setNexthop / isLocal / asList / isLLGRStale
      PrependAsn (incl. the 255 split), RemovePrivateAS, removeConfedAs, ReplaceAS, RemoveLocalPref
      UpdatePathAttrs                                                -> updatePathAttrs
    pkg/server/server.go
      isASLoop, filterpath, (*BgpServer).prePolicyFilterpath / postFilterpath / filterpath
                                                                     -> isASLoop / filter / exportPath
    pkg/server/peer.go  filterPathFromSourcePeer, the loop checks of handleUpdate   -> fromSource / inboundReject
    pkg/server/fsm.go   hasOwnASLoop                                 -> hasOwnASLoop
    pkg/packet/bgp      PathAttrFlags (domain), NewPathAttributeOriginatorId / MpReachNLRI (what they keep)

  A `Path` is the copy-on-write overlay the Go code has: the receiver node and its parent
  chain down to the root, each node with its own `pathAttrs` and `dels`.  Core-only (no Mathlib).
-/
namespace Export

/-! ## vocabulary -/

/-- netip.Addr. `kind` 0 = the zero Addr (not valid), 4 = IPv4, 6 = IPv6; `v` the address as a number. -/
structure Addr where
  kind : Nat
  v    : Nat
deriving Repr, DecidableEq, Inhabited

def Addr.zero : Addr := ⟨0, 0⟩
def Addr.isValid (a : Addr) : Bool := a.kind != 0
def Addr.is4 (a : Addr) : Bool := a.kind == 4
def Addr.is6 (a : Addr) : Bool := a.kind == 6
/-- netip.Addr.IsUnspecified: 0.0.0.0 or ::, never the zero Addr -/
def Addr.isUnspecified (a : Addr) : Bool := (a.kind == 4 || a.kind == 6) && a.v == 0

/-- AS_PATH segment: `typ` 1 = SET, 2 = SEQ, 3 = CONFED_SEQ, 4 = CONFED_SET. -/
structure Seg where
  typ : Nat
  as  : List Nat
deriving Repr, DecidableEq, Inhabited

/-- attribute type codes -/
def tORIGIN : Nat := 1
def tAS_PATH : Nat := 2
def tNEXT_HOP : Nat := 3
def tMED : Nat := 4
def tLOCAL_PREF : Nat := 5
def tCOMMUNITIES : Nat := 8
def tORIGINATOR_ID : Nat := 9
def tCLUSTER_LIST : Nat := 10
def tMP_REACH : Nat := 14

/-- the payload of a path attribute, as far as the export code reads or writes it -/
inductive Payload
  | asPath (segs : List Seg)
  | nextHop (a : Addr)
  /-- MP_REACH_NLRI: family (afi<<16|safi), next hop, link-local next hop, NLRI list (opaque token) -/
  | mpReach (fam : Nat) (nh ll : Addr) (nlri : String)
  /-- ORIGIN, MULTI_EXIT_DISC, LOCAL_PREF -/
  | num (v : Nat)
  /-- ORIGINATOR_ID -/
  | addr (a : Addr)
  /-- CLUSTER_LIST (IPv4 addresses as numbers) -/
  | addrs (l : List Nat)
  /-- COMMUNITIES -/
  | comms (l : List Nat)
  /-- anything else (known or unknown type): value bytes as an opaque token -/
  | raw (hex : String)
deriving Repr, DecidableEq, Inhabited

structure Attr where
  typ   : Nat
  flags : Nat
  pay   : Payload
deriving Repr, DecidableEq, Inhabited

/-- domain of bgp.PathAttrFlags (the attribute types gobgp knows); compared with the real map
    over all 256 type codes by the harness on every run. -/
def knownTypes : List Nat :=
  [1, 2, 3, 4, 5, 6, 7, 8, 9, 10, 14, 15, 16, 17, 18, 22, 23, 25, 26, 32, 29, 40]

def known (t : Nat) : Bool := knownTypes.contains t

/-- BGP_ATTR_FLAG_TRANSITIVE = 0x40 -/
def transitive (flags : Nat) : Bool := (flags / 64) % 2 == 1

/-- PeerInfo of the route's source, as far as the export code reads it -/
structure Src where
  as       : Nat
  id       : Addr      -- remote router id
  localId  : Addr
  addr     : Addr      -- neighbour address; the zero Addr for locally originated routes
  rrClient : Bool
deriving Repr, DecidableEq, Inhabited

/-- one node of the Path parent chain -/
structure Layer where
  attrs : List Attr := []   -- pathAttrs
  dels  : List Nat := []    -- dels
deriving Repr, DecidableEq, Inhabited

/-- table.Path as the receiver pointer sees it: `leaf` is the node itself, `parents` the chain
    `parent, parent.parent, …` (the last one is the root; empty when the node is a root). -/
structure Path where
  leaf     : Layer
  parents  : List Layer
  src      : Src
  family   : Nat        -- afi<<16|safi
  withdraw : Bool
  nlri     : String     -- opaque token of [{NLRI, localID}] (what SetNexthop puts in a fresh MP_REACH)
deriving Repr, DecidableEq, Inhabited

def RF_IPv4_UC : Nat := 65537
def RF_RTC_UC : Nat := 65668

/-- oc.Global -/
structure Global where
  as            : Nat
  routerId      : Addr
  confedEnabled : Bool
  confedId      : Nat
  members       : List Nat     -- Confederation.Config.MemberAsList
deriving Repr, DecidableEq, Inhabited

/-- the target peer: PeerInfo (used by UpdatePathAttrs) and the neighbor configuration read by
    the filterpath family.  `peerType` 0 = internal, 1 = external, other = unset. -/
structure Peer where
  peerType      : Nat
  as            : Nat        -- PeerInfo.AS / State.PeerAs
  localAS       : Nat        -- PeerInfo.LocalAS / Config.LocalAs
  localAddr     : Addr       -- PeerInfo.LocalAddress
  rrClient      : Bool
  clusterId     : Nat        -- RouteReflectorClusterID (IPv4 as number)
  rsClient      : Bool
  removePrivate : Nat        -- 0 none, 1 all, 2 replace
  -- neighbor configuration (server side)
  routerId      : Addr       -- State.RemoteRouterId (zero Addr while not established)
  addr          : Addr       -- State.NeighborAddress
  allowLoopLocal: Bool       -- AsPathOptions.Config.AllowAsPathLoopLocal
  replacePeerAs : Bool       -- AsPathOptions.State.ReplacePeerAs
  famEnabled    : Bool       -- the path's family is in the negotiated family map
  llgrEnabled   : Bool       -- isLLGREnabledFamily(path family)
deriving Repr, DecidableEq, Inhabited

/-! ## the overlay (path.go) -/

/-- all nodes, youngest first, root last -/
def Path.layers (p : Path) : List Layer := p.leaf :: p.parents

/-- Path.Clone: a fresh empty node whose parent is the receiver -/
def clone (p : Path) (withdraw : Bool) : Path :=
  { p with leaf := {}, parents := p.leaf :: p.parents, withdraw := withdraw }

def findTyp (t : Nat) : List Attr → Option Attr
  | [] => none
  | a :: rest => if a.typ == t then some a else findTyp t rest

/-- the loop of Path.getPathAttr over the parent chain -/
def getAttrIn (t : Nat) : List Layer → Option Attr
  | [] => none
  | l :: rest =>
    if l.dels.contains t then none
    else match findTyp t l.attrs with
      | some a => some a
      | none => getAttrIn t rest

/-- Path.getPathAttr -/
def getAttr (p : Path) (t : Nat) : Option Attr := getAttrIn t p.layers

def hasKey (t : Nat) (m : List Attr) : Bool := m.any (·.typ == t)

/-- the non-root arm of GetPathAttrs for one node: record the node's attributes that are
    neither deleted (by this or a younger node) nor already overridden -/
def collectLayer (deleted : List Nat) : List Attr → List Attr → List Attr
  | [], modified => modified
  | a :: rest, modified =>
    if !deleted.contains a.typ && !hasKey a.typ modified then
      collectLayer deleted rest (modified ++ [a])
    else collectLayer deleted rest modified

/-- the root arm of GetPathAttrs: walk the root's attributes, substituting overrides -/
def rootWalk (deleted : List Nat) : List Attr → List Attr → List Attr × List Attr
  | [], modified => ([], modified)
  | a :: rest, modified =>
    match findTyp a.typ modified with
    | some m =>
      let r := rootWalk deleted rest (modified.filter (·.typ != a.typ))
      (m :: r.1, r.2)
    | none =>
      let r := rootWalk deleted rest modified
      if !deleted.contains a.typ then (a :: r.1, r.2) else (r.1, r.2)

def insertByTyp (a : Attr) : List Attr → List Attr
  | [] => [a]
  | b :: rest => if a.typ ≤ b.typ then a :: b :: rest else b :: insertByTyp a rest

/-- sort.Sort(PathAttrs) — by type code (types are pairwise distinct when it runs) -/
def sortByTyp (l : List Attr) : List Attr := l.foldr insertByTyp []

/-- the loop of GetPathAttrs: `l` is the node being visited, `rest` its ancestors -/
def getAttrsGo (deleted : List Nat) (modified : List Attr) : Layer → List Layer → List Attr
  | root, [] =>
    let deleted := deleted ++ root.dels
    let r := rootWalk deleted root.attrs modified
    if r.2.length > 0 then sortByTyp (r.1 ++ r.2) else r.1
  | l, l' :: rest =>
    let deleted := deleted ++ l.dels
    getAttrsGo deleted (collectLayer deleted l.attrs modified) l' rest

/-- Path.GetPathAttrs -/
def getAttrs (p : Path) : List Attr := getAttrsGo [] [] p.leaf p.parents

def setInList (a : Attr) : List Attr → List Attr
  | [] => [a]
  | b :: rest => if a.typ == b.typ then a :: rest else b :: setInList a rest

/-- Path.setPathAttr (on the receiver node) -/
def setAttr (p : Path) (a : Attr) : Path :=
  { p with leaf := { p.leaf with attrs := setInList a p.leaf.attrs } }

/-- Path.delPathAttr (on the receiver node) -/
def delAttr (p : Path) (t : Nat) : Path :=
  { p with leaf := { p.leaf with dels := p.leaf.dels ++ [t] } }

/-! ## readers -/

/-- Path.IsLocal -/
def isLocal (p : Path) : Bool := !p.src.addr.isValid

/-- Path.GetAsPath (value) -/
def getAsPath (p : Path) : Option (List Seg) :=
  match getAttr p tAS_PATH with
  | some ⟨_, _, .asPath segs⟩ => some segs
  | _ => none

/-- Path.GetNexthop -/
def getNexthop (p : Path) : Addr :=
  match getAttr p tNEXT_HOP with
  | some ⟨_, _, .nextHop a⟩ => a
  | _ =>
    match getAttr p tMP_REACH with
    | some ⟨_, _, .mpReach _ nh _ _⟩ => nh
    | _ => Addr.zero

/-- Path.GetAsList = getAsListOfSpecificType(true, true): the ASes of SEQ and SET segments, one
    0 per other segment -/
def asListOf : List Seg → List Nat
  | [] => []
  | s :: rest =>
    if s.typ == 2 then s.as ++ asListOf rest
    else if s.typ == 1 then s.as ++ asListOf rest
    else 0 :: asListOf rest

def asList (p : Path) : List Nat :=
  match getAsPath p with
  | some segs => asListOf segs
  | none => []

/-- Path.GetClusterList -/
def clusterList (p : Path) : List Nat :=
  match getAttr p tCLUSTER_LIST with
  | some ⟨_, _, .addrs l⟩ => l
  | _ => []

/-- Path.GetOriginatorID -/
def originatorId (p : Path) : Addr :=
  match getAttr p tORIGINATOR_ID with
  | some ⟨_, _, .addr a⟩ => a
  | _ => Addr.zero

def COMMUNITY_LLGR_STALE : Nat := 4294901766

/-- Path.IsLLGRStale -/
def isLLGRStale (p : Path) : Bool :=
  match getAttr p tCOMMUNITIES with
  | some ⟨_, _, .comms l⟩ => l.contains COMMUNITY_LLGR_STALE
  | _ => false

/-! ## attribute constructors (flags as bgp.PathAttrFlags gives them; the extended-length bit is
    not modelled and not compared) -/

def mkAsPath (segs : List Seg) : Attr := ⟨tAS_PATH, 64, .asPath segs⟩
def mkNextHop (a : Addr) : Attr := ⟨tNEXT_HOP, 64, .nextHop a⟩
def mkLocalPref (v : Nat) : Attr := ⟨tLOCAL_PREF, 64, .num v⟩
def mkOriginator (a : Addr) : Attr := ⟨tORIGINATOR_ID, 128, .addr a⟩
def mkClusterList (l : List Nat) : Attr := ⟨tCLUSTER_LIST, 128, .addrs l⟩
/-- bgp.NewPathAttributeMpReachNLRI(family, nlris, nexthop): keeps the next hop when valid, never a
    link-local one (none is passed) -/
def mkMpReach (fam : Nat) (nlri : String) (nh : Addr) : Attr :=
  ⟨tMP_REACH, 128, .mpReach fam (if nh.isValid then nh else Addr.zero) Addr.zero nlri⟩

/-! ## mutators (path.go) -/

/-- the `attr != nil` arm of SetNexthop for NEXT_HOP -/
def setNextHopAttr (p : Path) (nh : Addr) : Path :=
  match getAttr p tNEXT_HOP with
  | some _ => setAttr p (mkNextHop nh)
  | none => p

/-- the `attr != nil` arm of SetNexthop for MP_REACH_NLRI (same family, same NLRIs, new next hop) -/
def setMpNexthop (p : Path) (nh : Addr) : Path :=
  match getAttr p tMP_REACH with
  | some ⟨_, _, .mpReach _ _ _ nlri⟩ => setAttr p (mkMpReach p.family nlri nh)
  | _ => p

/-- Path.SetNexthop -/
def setNexthop (p : Path) (nh : Addr) : Path :=
  if p.family == RF_IPv4_UC && nh.is6 then
    setAttr (delAttr p tNEXT_HOP) (mkMpReach p.family p.nlri nh)
  else
    setMpNexthop (setNextHopAttr p nh) nh

/-- Path.PrependAsn.  Segments longer than 255 are outside the model (the Go code computes
    `uint8(255 - len)` there). -/
def prependAsn (p : Path) (asn repeatN : Nat) (confed : Bool) : Path :=
  let segType := if confed then 3 else 2
  let asns := List.replicate repeatN asn
  let segs0 := (getAsPath p).getD []
  let (segs1, asns1) :=
    match segs0 with
    | s :: rest =>
      if s.typ == segType then
        let rep := if repeatN + s.as.length > 255 then 255 - s.as.length else repeatN
        (({ typ := segType, as := asns.take rep ++ s.as } : Seg) :: rest, asns.drop rep)
      else (segs0, asns)
    | [] => (segs0, asns)
  let segs2 := if asns1.length > 0 then ({ typ := segType, as := asns1 } : Seg) :: segs1 else segs1
  setAttr p (mkAsPath segs2)

/-- isPrivateAS -/
def isPrivateAS (a : Nat) : Bool :=
  (64512 ≤ a && a ≤ 65534) || (4200000000 ≤ a && a ≤ 4294967294)

def rmPrivList (localAS : Nat) (replace : Bool) : List Nat → List Nat
  | [] => []
  | a :: rest =>
    if isPrivateAS a then
      if replace then localAS :: rmPrivList localAS replace rest else rmPrivList localAS replace rest
    else a :: rmPrivList localAS replace rest

def rmPrivSegs (localAS : Nat) (replace : Bool) : List Seg → List Seg
  | [] => []
  | s :: rest =>
    let l := rmPrivList localAS replace s.as
    if l.length > 0 then { typ := s.typ, as := l } :: rmPrivSegs localAS replace rest
    else rmPrivSegs localAS replace rest

/-- Path.RemovePrivateAS; `option` 1 = all, 2 = replace, anything else = leave alone -/
def removePrivateAS (p : Path) (localAS option : Nat) : Path :=
  match getAsPath p with
  | none => p
  | some segs =>
    if option == 1 || option == 2 then
      setAttr p (mkAsPath (rmPrivSegs localAS (option == 2) segs))
    else p

def dropConfed (segs : List Seg) : List Seg := segs.filter (fun s => s.typ == 2 || s.typ == 1)

/-- Path.removeConfedAs -/
def removeConfedAs (p : Path) : Path :=
  match getAsPath p with
  | none => p
  | some segs => setAttr p (mkAsPath (dropConfed segs))

def replaceList (localAS peerAS : Nat) (l : List Nat) : List Nat :=
  l.map (fun a => if a == peerAS then localAS else a)

/-- Path.ReplaceAS: a fresh clone carrying the rewritten AS_PATH when something changed, the
    receiver itself otherwise -/
def replaceAS (p : Path) (localAS peerAS : Nat) : Path :=
  match getAsPath p with
  | none => p
  | some segs =>
    if segs.any (fun s => s.as.contains peerAS) then
      setAttr (clone p p.withdraw)
        (mkAsPath (segs.map (fun s => { typ := s.typ, as := replaceList localAS peerAS s.as })))
    else p

/-- Path.RemoveLocalPref -/
def removeLocalPref (p : Path) : Path :=
  match getAttr p tLOCAL_PREF with
  | some _ => delAttr p tLOCAL_PREF
  | none => p

/-! ## UpdatePathAttrs -/

/-- the first loop of UpdatePathAttrs -/
def stripStep (peer : Peer) (p : Path) (a : Attr) : Path :=
  if !known a.typ then
    if !transitive a.flags then delAttr p a.typ else p
  else if a.typ == tCLUSTER_LIST || a.typ == tORIGINATOR_ID then
    if peer.peerType != 0 || !peer.rrClient then delAttr p a.typ else p
  else p

/-- bgp.NewPathAttributeOriginatorId: nil unless the address is IPv4 -/
def mkOriginator? (a : Addr) : Option Attr := if a.is4 then some (mkOriginator a) else none

def setOpt (p : Path) : Option Attr → Path
  | some a => setAttr p a
  | none => p

/-- the PEER_TYPE_EXTERNAL arm -/
def updateExternal (g : Global) (peer : Peer) (p : Path) (nexthop : Addr) : Path :=
  let p := if !isLocal p || nexthop.isUnspecified then setNexthop p peer.localAddr else p
  let p := removePrivateAS p peer.localAS peer.removePrivate
  let confed := g.members.contains peer.as
  let p := prependAsn p peer.localAS 1 confed
  let p := if !confed then removeConfedAs p else p
  match getAttr p tMED with
  | some _ => if !isLocal p then delAttr p tMED else p
  | none => p

/-- the PEER_TYPE_INTERNAL arm -/
def updateInternal (g : Global) (peer : Peer) (p : Path) (nexthop : Addr) : Path :=
  let p := if isLocal p && nexthop.isUnspecified then setNexthop p peer.localAddr else p
  let p := match getAttr p tAS_PATH with
    | none => prependAsn p 0 0 false
    | some _ => p
  let p := match getAttr p tLOCAL_PREF with
    | none => setAttr p (mkLocalPref 100)
    | some _ => p
  if peer.rrClient then
    let (p, attr) :=
      if p.family == RF_RTC_UC then
        let p := setNexthop p peer.localAddr
        (p, if isLocal p then mkOriginator? g.routerId else mkOriginator? p.src.localId)
      else match getAttr p tORIGINATOR_ID with
        | none => (p, if isLocal p then mkOriginator? g.routerId else mkOriginator? p.src.id)
        | some _ => (p, none)
    let p := setOpt p attr
    match getAttr p tCLUSTER_LIST with
    | some ⟨_, _, .addrs l⟩ => setAttr p (mkClusterList (peer.clusterId :: l))
    | _ => setAttr p (mkClusterList [peer.clusterId])
  else p

/-- table.UpdatePathAttrs -/
def updatePathAttrs (g : Global) (peer : Peer) (original : Path) : Path :=
  if peer.rsClient then original
  else
    let path := clone original original.withdraw
    let path := (getAttrs path).foldl (stripStep peer) path
    let nexthop := getNexthop path
    if peer.peerType == 1 then updateExternal g peer path nexthop
    else if peer.peerType == 0 then updateInternal g peer path nexthop
    else path

/-! ## the filterpath family (server.go, peer.go) -/

/-- what a filter step hands on: nothing, the (possibly rewritten) new path, or a withdrawal
    cloned from `old` -/
inductive Verdict
  | drop
  | path (p : Path)
  | withdrawOld
deriving Repr, DecidableEq, Inhabited

/-- isASLoop -/
def isASLoop (peer : Peer) (p : Path) : Bool := (asList p).contains peer.as

/-- (*peer).filterPathFromSourcePeer -/
def fromSource (peer : Peer) (p : Path) (old : Option Path) : Verdict :=
  if peer.routerId != p.src.id then .path p
  else
    -- after the route-server-client fix the withdraw-old branch applies to every kind of peer;
    -- only the RTC exception stays restricted to non route-server clients
    if !peer.rsClient && peer.rrClient && p.family == RF_RTC_UC then .path p
    else match old with
      | some o => if !p.withdraw && o.src.addr != peer.addr then .withdrawOld else .drop
      | none => .drop

/-- the `ignore` computation of filterpath's iBGP block; `none` = return nil at once (local
    cluster-id found in CLUSTER_LIST) -/
def ibgpIgnore (peer : Peer) (p : Path) : Option Bool :=
  if !isLocal p then
    let ignore := true
    let ignore := if p.src.as != peer.as then false else ignore
    let ignore := if p.src.rrClient then false else ignore
    if peer.rrClient then
      if (clusterList p).contains peer.clusterId then none else some false
    else some ignore
  else some false

/-- the `if peer.isIBGPPeer()` block of filterpath: `some v` = it returned `v`, `none` = fall through -/
def ibgpBlock (peer : Peer) (p : Path) (old : Option Path) : Option Verdict :=
  if peer.peerType == 0 then
    match ibgpIgnore peer p with
    | none =>
      -- local cluster-id in the CLUSTER_LIST: not sent; the old best must not stay advertised
      (match old with
       | some _ => if !p.withdraw then some .withdrawOld else some .drop
       | none => some .drop)
    | some true =>
      match old with
      | some o =>
        if !p.withdraw && (isLocal o || (o.src.addr != peer.addr &&
            (o.src.as != peer.as || o.src.rrClient))) then
          some .withdrawOld
        else some .drop
      | none => some .drop
    | some false => none
  else none

/-- the AS-loop block of filterpath, applied to whatever filterPathFromSourcePeer handed on.
    When that is old.Clone(true), the test runs on the OLD route, and a withdrawal is never
    turned into another withdrawal. -/
def loopCheck (peer : Peer) (old : Option Path) : Verdict → Verdict
  | .drop => .drop
  | .path p =>
    if !peer.rsClient && isASLoop peer p then
      if !isLocal p || !peer.allowLoopLocal then
        match old with
        | some _ => if !p.withdraw then .withdrawOld else .drop
        | none => .drop
      else .path p
    else .path p
  | .withdrawOld =>
    match old with
    | some o =>
      if !peer.rsClient && isASLoop peer o && (!isLocal o || !peer.allowLoopLocal) then .drop
      else .withdrawOld
    | none => .drop

/-- filterpath (server.go), Route-Target-Constraint block excluded (RTC family not negotiated) -/
def filter (peer : Peer) (p : Path) (old : Option Path) : Verdict :=
  if !peer.famEnabled then .drop
  else
    match ibgpBlock peer p old with
    | some v => v
    | none => loopCheck peer old (fromSource peer p old)

/-- what is queued for the peer: nothing, a rewritten copy of the new path, a withdrawal cloned
    from `old`, or a withdrawal cloned from the rewritten copy (LLGR) -/
inductive Sent
  | nothing
  | update (p : Path)
  | withdrawOld
  | withdrawSelf (p : Path)
deriving Repr, DecidableEq, Inhabited

/-- the attribute part of postFilterpath: LOCAL_PREF leaves only toward iBGP peers (and toward
    route-server clients, whose copy is not touched at all) -/
def postStrip (peer : Peer) (p : Path) : Path :=
  if peer.peerType != 0 && !peer.rsClient then removeLocalPref p else p

/-- what a peer is sent for a route that passed the filters: UpdatePathAttrs, then (no export
    policy) the LOCAL_PREF rule of postFilterpath -/
def rewrite (g : Global) (peer : Peer) (p : Path) : Path :=
  postStrip peer (updatePathAttrs g peer p)

/-- the replace-peer-as step of prePolicyFilterpath -/
def prep (peer : Peer) (p : Path) : Path :=
  if !p.withdraw && peer.replacePeerAs then replaceAS p peer.localAS peer.as else p

/-- (*BgpServer).filterpath with no export policy assigned (ApplyPolicy is then the identity)
    and a non-VRF peer: prePolicyFilterpath (replace-peer-as, filterpath, UpdatePathAttrs) followed
    by postFilterpath (LLGR, RemoveLocalPref). -/
def exportPath (g : Global) (peer : Peer) (p : Path) (old : Option Path) : Sent :=
  match filter peer (prep peer p) old with
  | .drop => .nothing
  | .withdrawOld => .withdrawOld     -- old.Clone(true): UpdatePathAttrs and RemoveLocalPref act on the clone only
  | .path p2 =>
    let p3 := updatePathAttrs g peer p2
    if !p3.withdraw && !peer.llgrEnabled && isLLGRStale p3 then
      .withdrawSelf (postStrip peer (clone p3 true))
    else
      .update (postStrip peer p3)

/-! ## inbound loop checks -/

/-- hasOwnASLoop (fsm.go) -/
def ownASCount (ownAS confedId : Nat) (confedEnabled : Bool) : List Nat → Nat
  | [] => 0
  | a :: rest =>
    (if a == ownAS then 1 else 0) +
    (if confedEnabled && a == confedId && confedId != ownAS then 1 else 0) +
    ownASCount ownAS confedId confedEnabled rest

def allAS (segs : List Seg) : List Nat := (segs.map (·.as)).flatten

def hasOwnASLoop (ownAS limit : Nat) (segs : List Seg) (confedId : Nat) (confedEnabled : Bool) : Bool :=
  ownASCount ownAS confedId confedEnabled (allAS segs) > limit

/-- the two rejections in (*peer).handleUpdate -/
def inboundReject (g : Global) (localAS allowOwnAS : Nat) (isIBGP : Bool) (p : Path) : Bool :=
  (match getAsPath p with
   | some segs => hasOwnASLoop localAS allowOwnAS segs g.confedId g.confedEnabled
   | none => false)
  || (isIBGP && originatorId p == g.routerId)

end Export
