/-
  The inbound loop checks over TIME (C09): what (*peer).handleUpdate stores in the Adj-RIB-In for a
  received route, and what a later replay of that stored state hands to the Loc-RIB.

  Mirrors
    pkg/server/peer.go handleUpdate      : the received path ITSELF is marked rejected when a loop check
                                           fires (path.SetRejected(true)); a withdrawal clone goes on to
                                           the Loc-RIB; adjRibIn.Update(pathList) stores the received path   -> recvAnnounce
    internal/pkg/table/adj.go Update     : one entry per (prefix, path-id), replaced / removed               -> upsert / recvWithdraw
    adj.go PathList(families, true)      : what softResetIn re-propagates (rejected entries skipped)         -> replayList
    adj.go StaleAll                      : keeps the rejected flag on the stale clone, returns the
                                           non-rejected ones                                                 -> replayList as well
    adj.go Accepted                      : the accepted-prefix counter                                       -> acceptedCount
  Core-only.
-/
import Model.Export
namespace Export

/-- one Adj-RIB-In entry of a peer; `key` identifies (prefix, remote path-id) -/
structure AdjIn where
  key      : Nat
  path     : Path
  rejected : Bool
deriving Repr, DecidableEq, Inhabited

/-- what handleUpdate hands to propagateUpdate for one received announcement -/
inductive Handed
  | announce (p : Path)
  | withdraw            -- path.Clone(true): the route is not used, and replaces what was used before
deriving Repr, DecidableEq, Inhabited

/-- AdjRib.Update for an announcement: replace the entry with the same key, else append -/
def upsert (e : AdjIn) : List AdjIn → List AdjIn
  | [] => [e]
  | x :: rest => if x.key == e.key then e :: rest else x :: upsert e rest

/-- handleUpdate + adjRibIn.Update for one received announcement -/
def recvAnnounce (g : Global) (localAS allowOwnAS : Nat) (isIBGP : Bool) (adj : List AdjIn)
    (key : Nat) (p : Path) : List AdjIn × Handed :=
  let rej := inboundReject g localAS allowOwnAS isIBGP p
  (upsert ⟨key, p, rej⟩ adj, if rej then .withdraw else .announce p)

/-- AdjRib.Update for a withdrawal -/
def recvWithdraw (adj : List AdjIn) (key : Nat) : List AdjIn := adj.filter (fun x => x.key != key)

/-- adjRibIn.PathList(families, accepted = true) — the list softResetIn hands to propagateUpdate,
    and (as stale clones) the list StaleAll returns -/
def replayList (adj : List AdjIn) : List AdjIn := adj.filter (fun x => !x.rejected)

/-- AdjRib.Accepted -/
def acceptedCount (adj : List AdjIn) : Nat := (replayList adj).length

/-- what a peer sends over a session's life, as far as the Adj-RIB-In cares -/
inductive InEv
  | ann (key : Nat) (p : Path)
  | wd (key : Nat)
deriving Repr, DecidableEq

def inStep (g : Global) (localAS allowOwnAS : Nat) (isIBGP : Bool) (adj : List AdjIn) : InEv → List AdjIn
  | .ann k p => (recvAnnounce g localAS allowOwnAS isIBGP adj k p).1
  | .wd k => recvWithdraw adj k

def runIn (g : Global) (localAS allowOwnAS : Nat) (isIBGP : Bool) (evs : List InEv) : List AdjIn :=
  evs.foldl (inStep g localAS allowOwnAS isIBGP) []

end Export
