/-
  A heap model of Go slices, for the "producing a peer's copy never alters the stored route" half
  of C09.  Lean values are immutable, so the overlay model (Model/Export.lean) cannot express an
  aliasing defect; this one can.

    heap   = arrays of cells (cell = a number: an AS number, an attribute type, or a handle of an
             immutable object such as an attribute)
    slice  = (array, off, len, cap), exactly Go's slice header
    append = writes in place when len + n ≤ cap, otherwise allocates a fresh array       (Go spec)
    make / literal / slices.Concat = always a fresh array
    s[i] = v writes through

  Mirrors, with the slice operation the source uses:
    Path.setPathAttr / delPathAttr on a node's `pathAttrs` / `dels`                     -> setAttrGo / delAttrGo
    the scratch-slice arithmetic of Path.PrependAsn (before and after the fix on wt-C09) -> prependScratchOld / prependScratchNew
    the make+append loops of RemovePrivateAS / ReplaceAS / cloneAsPath                   -> filterMapGo
  Core-only.
-/
namespace GoSlice

structure Slice where
  arr : Nat
  off : Nat
  len : Nat
  cap : Nat
deriving Repr, DecidableEq, Inhabited

abbrev Heap := List (List Nat)

/-- the nil slice -/
def Slice.nil : Slice := ⟨0, 0, 0, 0⟩

/-- the elements a slice denotes -/
def read (h : Heap) (s : Slice) : List Nat := ((h.getD s.arr []).drop s.off).take s.len

/-- overwrite cells `idx, idx+1, …` of one array with `vals` (cells beyond the array are not created) -/
def writeCells : List Nat → Nat → List Nat → List Nat
  | cells, _, [] => cells
  | [], _, _ => []
  | c :: cells, 0, v :: vals => v :: writeCells cells 0 vals
  | c :: cells, i + 1, vals => c :: writeCells cells i vals

def writeAt : Heap → Nat → Nat → List Nat → Heap
  | [], _, _, _ => []
  | a :: rest, 0, idx, vals => writeCells a idx vals :: rest
  | a :: rest, n + 1, idx, vals => a :: writeAt rest n idx vals

/-- a fresh array holding `cells`, padded with zeros up to `cap` -/
def alloc (h : Heap) (cells : List Nat) (cap : Nat) : Heap × Slice :=
  (h ++ [cells ++ List.replicate (cap - cells.length) 0],
   ⟨h.length, 0, cells.length, max cap cells.length⟩)

/-- Go's built-in append: in place when the capacity suffices, a fresh (doubled) array otherwise -/
def goAppend (h : Heap) (s : Slice) (vals : List Nat) : Heap × Slice :=
  if s.len + vals.length ≤ s.cap then
    (writeAt h s.arr (s.off + s.len) vals, { s with len := s.len + vals.length })
  else
    alloc h (read h s ++ vals) (2 * (s.len + vals.length))

/-- `s[lo:hi]` -/
def reslice (s : Slice) (lo hi : Nat) : Slice := ⟨s.arr, s.off + lo, hi - lo, s.cap - lo⟩

/-- `s[i] = v` (no effect when out of range; Go panics) -/
def store (h : Heap) (s : Slice) (i v : Nat) : Heap :=
  if i < s.len then writeAt h s.arr (s.off + i) [v] else h

/-! ### a node of the Path parent chain -/

/-- the two slice-typed fields of table.Path -/
structure Node where
  attrs : Slice     -- pathAttrs: cells are attribute handles
  dels  : Slice     -- dels: cells are attribute types
deriving Repr, DecidableEq, Inhabited

/-- what Path.Clone leaves in the new node: both slices nil -/
def Node.fresh : Node := ⟨Slice.nil, Slice.nil⟩

def findIdx (typOf : Nat → Nat) (t : Nat) : List Nat → Nat → Option Nat
  | [], _ => none
  | c :: rest, i => if typOf c == t then some i else findIdx typOf t rest (i + 1)

/-- Path.setPathAttr: a one-element literal when empty, `pathAttrs[i] = a` when the type is
    there, `append` otherwise -/
def setAttrGo (typOf : Nat → Nat) (h : Heap) (n : Node) (a : Nat) : Heap × Node :=
  if n.attrs.len == 0 then
    let r := alloc h [a] 1
    (r.1, { n with attrs := r.2 })
  else
    match findIdx typOf (typOf a) (read h n.attrs) 0 with
    | some i => (store h n.attrs i a, n)
    | none =>
      let r := goAppend h n.attrs [a]
      (r.1, { n with attrs := r.2 })

/-- Path.delPathAttr -/
def delAttrGo (h : Heap) (n : Node) (t : Nat) : Heap × Node :=
  if n.dels.len == 0 then
    let r := alloc h [t] 1
    (r.1, { n with dels := r.2 })
  else
    let r := goAppend h n.dels [t]
    (r.1, { n with dels := r.2 })

inductive NodeOp
  | set (a : Nat)
  | del (t : Nat)
deriving Repr, DecidableEq

def runOps (typOf : Nat → Nat) : Heap → Node → List NodeOp → Heap × Node
  | h, n, [] => (h, n)
  | h, n, .set a :: ops => let r := setAttrGo typOf h n a; runOps typOf r.1 r.2 ops
  | h, n, .del t :: ops => let r := delAttrGo h n t; runOps typOf r.1 r.2 ops

/-! ### payload builders -/

/-- `out := make([]T, 0, cap); for _, x := range in { if y, ok := f(x); ok { out = append(out, y) } }`
    — the loop shape of RemovePrivateAS, ReplaceAS and (with f total) cloneAsPath's make+copy -/
def appendAll (f : Nat → Option Nat) : Heap → Slice → List Nat → Heap × Slice
  | h, out, [] => (h, out)
  | h, out, x :: rest =>
    match f x with
    | some y => let r := goAppend h out [y]; appendAll f r.1 r.2 rest
    | none => appendAll f h out rest

def filterMapGo (f : Nat → Option Nat) (h : Heap) (input : Slice) : Heap × Slice :=
  let r := alloc h [] input.len
  appendAll f r.1 r.2 (read h input)

/-- PrependAsn's scratch arithmetic as it was at the pinned commit:
      asns := make([]uint32, repeat) (all = asn)
      newAsList := append(asns[:rep], asList...)
      asns = asns[rep:]
    returns (heap, merged first segment, what becomes the new leading segment) -/
def prependScratchOld (h : Heap) (asn repeatN rep : Nat) (asList : Slice) : Heap × Slice × Slice :=
  let a := alloc h (List.replicate repeatN asn) repeatN
  let r := goAppend a.1 (reslice a.2 0 rep) (read a.1 asList)
  (r.1, r.2, reslice a.2 rep repeatN)

/-- … and after the fix: the merged segment is built in its own array -/
def prependScratchNew (h : Heap) (asn repeatN rep : Nat) (asList : Slice) : Heap × Slice × Slice :=
  let a := alloc h (List.replicate repeatN asn) repeatN
  let m := alloc a.1 [] (rep + asList.len)
  let r1 := goAppend m.1 m.2 (read m.1 (reslice a.2 0 rep))
  let r2 := goAppend r1.1 r1.2 (read r1.1 asList)
  (r2.1, r2.2, reslice a.2 rep repeatN)

end GoSlice
