/-
  Go slices over a heap of backing arrays: the part of gobgp's Path that policy actions can
  share between clones (Path.Clone copies no attribute; a clone reads its parent's attribute
  objects, so the `Value` / `Values` slices of COMMUNITIES, EXTENDED_COMMUNITIES and
  LARGE_COMMUNITY are reachable from the stored path and from every clone of it).

    goAppend  = Go's built-in append(s, xs...)           (path.go SetLargeCommunities before the repair)
    concat    = slices.Concat(s, xs) / make+append       (SetCommunities, SetExtCommunities, repaired SetLargeCommunities)
    listAdd / listReplace / listRemove = the three community actions at heap level
  Core-only.
-/
namespace PolicyHeap

/-- a Go slice header: backing array id, length, capacity -/
structure Slice where
  arr : Nat
  len : Nat
  cap : Nat
deriving Repr, DecidableEq, Inhabited

/-- backing arrays (every cell, including the spare capacity) -/
abbrev Heap := List (List Nat)

def cells (h : Heap) (i : Nat) : List Nat := h.getD i []

/-- what a reader of the slice sees -/
def read (h : Heap) (s : Slice) : List Nat := (cells h s.arr).take s.len

/-- make([]T, len(vals), max(cap, len(vals))) initialised with vals -/
def allocCap (h : Heap) (vals : List Nat) (cap : Nat) : Heap × Slice :=
  (h ++ [vals ++ List.replicate (cap - vals.length) 0],
   ⟨h.length, vals.length, max cap vals.length⟩)

/-- slices.Concat(s, xs): always a fresh backing array -/
def concat (h : Heap) (s : Slice) (xs : List Nat) : Heap × Slice :=
  allocCap h (read h s ++ xs) 0

def overwrite (cs : List Nat) (pos : Nat) (xs : List Nat) : List Nat :=
  cs.take pos ++ xs ++ cs.drop (pos + xs.length)

/-- Go's append(s, xs...): writes in place when the capacity suffices -/
def goAppend (h : Heap) (s : Slice) (xs : List Nat) : Heap × Slice :=
  if s.len + xs.length ≤ s.cap then
    (h.set s.arr (overwrite (cells h s.arr) s.len xs), ⟨s.arr, s.len + xs.length, s.cap⟩)
  else allocCap h (read h s ++ xs) (2 * (s.len + xs.length))

/-- the list-valued attributes of a path, as slices -/
structure HRoute where
  comms  : Slice
  exts   : Slice
  larges : Slice
deriving Repr, DecidableEq, Inhabited

/-- a community-type action on attribute `which` (0 communities, 1 ext, 2 large);
    op 0 add, 1 remove (vals = exact patterns), 2 replace -/
structure HAct where
  which : Nat
  op    : Nat
  vals  : List Nat
deriving Repr, DecidableEq, Inhabited

def HRoute.get (r : HRoute) (which : Nat) : Slice :=
  if which = 0 then r.comms else if which = 1 then r.exts else r.larges

def HRoute.set (r : HRoute) (which : Nat) (s : Slice) : HRoute :=
  if which = 0 then { r with comms := s } else if which = 1 then { r with exts := s }
  else { r with larges := s }

/-- list-level meaning of a community-type action -/
def listAct (op : Nat) (vals cur : List Nat) : List Nat :=
  if op = 0 then cur ++ vals
  else if op = 1 then cur.filter (fun c => !vals.contains c)
  else vals

/-- heap-level community-type action as the repaired code performs it: the result always lives
    in a fresh array (add: make+append / slices.Concat; remove: make(0, len) + append; replace:
    the action's own list is installed — modelled as a copy, it is never written afterwards) -/
def hAct (h : Heap) (r : HRoute) (a : HAct) : Heap × HRoute :=
  let res := allocCap h (listAct a.op a.vals (read h (r.get a.which))) 0
  (res.1, r.set a.which res.2)

def hActs : Heap → HRoute → List HAct → Heap × HRoute
  | h, r, [] => (h, r)
  | h, r, a :: rest => let x := hAct h r a; hActs x.1 x.2 rest

/-- the same with Go's append for `add` (SetLargeCommunities before the repair) -/
def hActAppend (h : Heap) (r : HRoute) (a : HAct) : Heap × HRoute :=
  if a.op = 0 then
    let res := goAppend h (r.get a.which) a.vals
    (res.1, r.set a.which res.2)
  else hAct h r a

end PolicyHeap
