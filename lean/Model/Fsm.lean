/-
  Model of gobgp's per-peer session state machine for a PASSIVE peer, in virtual seconds.

  Mirrors (pkg/server/fsm.go unless said otherwise), branch for branch at the granularity
  "one external event, then run until the daemon is quiescent":
    fsmHandler.idle / active / opensent / openconfirm / established      -> onIdle … onEstablished
    fsm.handleOpen + bgp.ValidateOpenMsg (pkg/packet/bgp/validate.go)    -> validateOpen
    negotiateTimers (called by fsm.stateChange on OPENCONFIRM/ESTABLISHED),
      keepaliveTicker                                                    -> negotiate / kaPeriod
    hold timers of opensent (240 s) / openconfirm / established,
      keepalive tickers, idle hold timer                                 -> fireTimer / advance
    fsm.isDominant (collision, RFC 4271 6.8 / RFC 6286)                  -> dominant
    fsmHandler.changeadminState, server.go setAdminState,
      EnablePeer/DisablePeer/ShutdownPeer/ResetPeer/DeletePeer           -> enable … delete events
    server.go handleFSMMessage: `notEstablished || beforeUptime` guard,
      peer.go handleUpdate / isPrefixLimit                               -> `rib` only changes in onEstablished
    recvMessageWithError header checks (bgp.BGPHeader.DecodeFromBytes)   -> hdrSub
  The outgoing-connection manager is not run: its interface to the state handlers
  (an `outgoingConn{conn, open}` handed to fsm.outgoingConnCh) is the event `outgoing`.
  Not modelled: graceful restart, TCP MD5/TTL, BFD, dynamic neighbours, connectLoop.
  Core-only (no Mathlib) so that the line-protocol driver links as a lean_exe.
-/
namespace Fsm

/-- bgp.FSMState (CONNECT is never used by fsmHandler.loop). -/
inductive S where
  | idle | active | opensent | openconfirm | established
deriving Repr, DecidableEq, Inhabited

/-- numeric value of bgp.FSMState -/
def S.num : S → Nat
  | .idle => 0 | .active => 2 | .opensent => 3 | .openconfirm => 4 | .established => 5

/-- adminState in fsm.go -/
inductive Admin where
  | up | down | pfxct
deriving Repr, DecidableEq, Inhabited

def Admin.num : Admin → Nat
  | .up => 0 | .down => 1 | .pfxct => 2

/-- which connection a message of the daemon is written on: `p` the accepted (passive) one,
    `x` a further accepted connection that is refused, `o` the one handed over by the
    outgoing-connection manager. -/
inductive Conn where
  | p | x | o
deriving Repr, DecidableEq, Inhabited

structure Cfg where
  localAS        : Nat
  localID        : Nat
  peerAS         : Nat      -- Config.PeerAs, 0 = accept any
  hold           : Nat      -- Timers.Config.HoldTime
  ka             : Nat      -- Timers.Config.KeepaliveInterval
  idleAfterReset : Nat      -- Timers.Config.IdleHoldTimeAfterReset
  prefixLimit    : Nat      -- PrefixLimit.Config.MaxPrefixes, 0 = none
deriving Repr, DecidableEq, Inhabited

/-- the fields of a received OPEN that ValidateOpenMsg, negotiateTimers and isDominant read;
    `as` is the AS getASN extracts (`OpenWire.toMsg`). -/
structure OpenMsg where
  version : Nat
  as      : Nat
  id      : Nat
  hold    : Nat
deriving Repr, DecidableEq, Inhabited

/-- AS_TRANS (RFC 6793), the My-AS field of a speaker whose AS does not fit 16 bits. -/
def asTrans : Nat := 23456

/-- one capability inside a capability optional parameter, as far as the FSM reads it:
    the 4-octet-AS capability (code 65) with its value, or any other capability -/
inductive Cap where
  | as4 (v : Nat)
  | other
deriving Repr, DecidableEq, Inhabited

/-- an optional parameter of the OPEN: a capability parameter (type 2) with its capabilities in
    order of appearance, or a parameter of another type.  RFC 5492 leaves the sender free to
    spread its capabilities over any number of capability parameters, in any order, and to
    repeat one. -/
inductive OptParam where
  | caps (l : List Cap)
  | unknown
deriving Repr, DecidableEq, Inhabited

/-- The AS-related part of an OPEN as it is on the wire: the 2-octet My-AS field and the
    optional parameters in their order. -/
structure OpenWire where
  version : Nat
  myas    : Nat
  params  : List OptParam
  id      : Nat
  hold    : Nat
deriving Repr, DecidableEq, Inhabited

/-- inner loop of getASN (`for _, c := range paramCap.Capability`): every 4-octet-AS capability
    overwrites `asn` -/
def scanCaps (asn : Nat) : List Cap → Nat
  | [] => asn
  | .as4 v :: r => scanCaps v r
  | .other :: r => scanCaps asn r

/-- outer loop of getASN (`for _, p := range m.OptParams`): ALL parameters are visited,
    parameters that are not capability parameters are skipped -/
def scanParams (asn : Nat) : List OptParam → Nat
  | [] => asn
  | .caps l :: r => scanParams (scanCaps asn l) r
  | .unknown :: r => scanParams asn r

/-- getASN in fsm.go and the same loops at the top of ValidateOpenMsg: starts from the My-AS
    field; a 4-octet-AS capability anywhere in the OPEN wins.  Both callers apply it BEFORE any
    test that looks at the AS. -/
def getASN (w : OpenWire) : Nat := scanParams w.myas w.params

/-- the semantic content of the optional parameters: the capabilities in order of appearance,
    whatever parameters carry them -/
def flatCaps : List OptParam → List Cap
  | [] => []
  | .caps l :: r => l ++ flatCaps r
  | .unknown :: r => flatCaps r

/-- the value of the (last) 4-octet-AS capability, if the OPEN has one -/
def lastAs4 : List Cap → Option Nat
  | [] => none
  | .as4 v :: r => (lastAs4 r).orElse (fun _ => some v)
  | .other :: r => lastAs4 r

def OpenWire.cap4 (w : OpenWire) : Option Nat := lastAs4 (flatCaps w.params)

def OpenWire.toMsg (w : OpenWire) : OpenMsg := ⟨w.version, getASN w, w.id, w.hold⟩

inductive Ev where
  | connect                 -- the remote opens a TCP connection (BgpServer.passConnToPeer)
  | outgoing (o : OpenMsg)  -- the outgoing-connection manager hands over a connection, OPENs exchanged
  | open (o : OpenMsg)      -- OPEN received on the current connection
  | keepalive
  | update (n : Nat)        -- UPDATE announcing n new prefixes
  | refresh
  | notification
  | badHeader (k : Nat)     -- 0 marker, 1 length < 19, 2 length > 4096, 3 unknown type
  | close                   -- the remote closes the current connection between two messages
  | connLost (k : Nat)      -- the transport fails inside a message: 1 inside the header, 2 between
                            -- header and body, 3 inside the body (readAll error in recvMessageWithError)
  | tick (t : Nat)          -- silence for t seconds
  | enable | disable | shutdown | reset | delete
deriving Repr, DecidableEq, Inhabited

inductive Out where
  | open  (c : Conn) (t : Nat)
  | ka    (c : Conn) (t : Nat)
  | notif (c : Conn) (code sub t : Nat)
  | close (c : Conn) (t : Nat)
  | trans (a b : S) (adm : Admin) (t : Nat)   -- reported state change (fsmMsgStateChange)
  | deleted (t : Nat)
deriving Repr, DecidableEq, Inhabited

structure St where
  st       : S      := .idle
  admin    : Admin  := .up
  now      : Nat    := 0
  deleted  : Bool   := false
  cur      : Conn   := .p       -- connection fsm.conn points to
  idleHold : Nat    := 0        -- fsm.idleHoldTime
  idleT    : Option Nat := some 0  -- deadline of idle()'s idleHoldTimer (none: fired or stopped)
  holdT    : Option Nat := none -- deadline of the hold timer of the current state
  kaT      : Option Nat := none -- next tick of the keepalive ticker
  kaI      : Nat    := 0        -- its period
  negHold  : Nat    := 0        -- Timers.State.NegotiatedHoldTime
  lastRx   : Nat    := 0        -- instant the hold timer was last (re)started
  rib      : Nat    := 0        -- prefixes in the peer's Adj-RIB-In
  queued   : Bool   := false    -- a completed outgoing connection waits in fsm.outgoingConnCh
  remoteAS : Nat    := 0        -- getASN of fsm.recvOpen: becomes State.PeerAs / decides the peer type
deriving Repr, DecidableEq, Inhabited

def holdtimeOpensent : Nat := 240
def holdtimeIdle : Nat := 5

/-- ValidateOpenMsg: `none` = acceptable, `some sub` = OPEN Message Error subcode. -/
def validateOpen (c : Cfg) (o : OpenMsg) : Option Nat :=
  if o.version ≠ 4 then some 1
  else if o.id = 0 then some 3
  else if o.as = c.localAS ∧ o.id = c.localID then some 3
  else if c.peerAS ≠ 0 ∧ o.as ≠ c.peerAS then some 2
  else if o.hold < 3 ∧ o.hold ≠ 0 then some 6
  else none

/-- negotiateTimers: negotiated hold time. -/
def negotiate (c : Cfg) (o : OpenMsg) : Nat := if o.hold > c.hold then c.hold else o.hold

/-- negotiateTimers + keepaliveTicker: ticker period in whole seconds (`time.Duration(float)`
    truncates; a zero period becomes one second). -/
def kaPeriod (c : Cfg) (neg : Nat) : Nat :=
  let k := if neg < c.hold then neg / 3 else c.ka
  if k = 0 then 1 else k

/-- Message Header Error subcode chosen by BGPHeader.DecodeFromBytes / recvMessageWithError /
    parseBody for the four kinds of bad header the harness sends. -/
def hdrSub (k : Nat) : Nat :=
  if k = 0 then 1 else if k = 3 then 3 else 2

/-- fsm.isDominant: the connection initiated by the local speaker survives. -/
def dominant (localID localAS remoteID remoteAS : Nat) : Bool :=
  localID > remoteID || (localID == remoteID && localAS > remoteAS)

/-- outcome of connection-collision resolution in opensent(): the session continues on
    connection `c` with the OPEN `o` recorded as fsm.recvOpen, or the accepted connection's OPEN
    is refused with OPEN Message Error `sub` (back to IDLE). -/
inductive CollOut where
  | session (c : Conn) (o : OpenMsg)
  | refused (sub : Nat)
deriving Repr, DecidableEq, Inhabited

/-- opensent(), `case e := <-recvChan` with a completed outgoing connection already waiting in
    fsm.outgoingConnCh (tryReceiveOutgoingConn): the accepted connection's OPEN `inc` is validated
    by handleOpen first; isDominant is asked about `inc`. `out` is the OPEN the
    outgoing-connection manager received (and validated). -/
def collideIncomingFirst (c : Cfg) (inc out : OpenMsg) : CollOut :=
  match validateOpen c inc with
  | some sub => .refused sub
  | none =>
    if dominant c.localID c.localAS inc.id inc.as then .session .o out else .session .p inc

/-- opensent(), `case result := <-fsm.outgoingConnCh` with the accepted connection's OPEN `inc`
    already pending on recvChan: only an `inc` that handleOpen accepts makes a collision;
    isDominant is asked about `out`; otherwise the outgoing connection is simply taken. -/
def collideOutgoingFirst (c : Cfg) (inc out : OpenMsg) : CollOut :=
  match validateOpen c inc with
  | some _ => .session .o out
  | none =>
    if dominant c.localID c.localAS out.id out.as then .session .o out else .session .p inc

/-- one address family in an UpdatePeer edit: prefixes currently in the Adj-RIB-In, the
    configured MaxPrefixes before and after the edit (0 = no limit) -/
structure FamEdit where
  count  : Nat
  oldMax : Nat
  newMax : Nat
deriving Repr, DecidableEq, Inhabited

/-- peer.isPrefixLimit on the new configuration of a family -/
def famOver (f : FamEdit) : Bool := f.newMax > 0 && f.count > f.newMax

/-- the loop of peer.updatePrefixLimitConfig over the families of the new configuration, in
    their order: a family whose limit changed is re-checked, and ONE overrun is enough
    (`reachLimit` is only ever set, never cleared).  `true`: the server moves the peer to
    adminStatePfxCt (Cease/1). -/
def pfxEditShuts : Bool → List FamEdit → Bool
  | reach, [] => reach
  | reach, f :: r =>
    if f.oldMax ≠ f.newMax then
      (if famOver f then pfxEditShuts true r else pfxEditShuts reach r)
    else pfxEditShuts reach r

/-- bgp.ShouldHardReset(subcode, false): the Cease subcodes that are to go out as Hard Reset -/
def shouldHardReset (sub : Nat) : Bool := sub == 1 || sub == 2 || sub == 3 || sub == 9

/-- notification support of graceful restart (RFC 8538) is negotiated iff graceful restart and
    notification-enabled are configured locally AND the peer's graceful-restart capability carries
    the N bit (fsm.stateChange: GracefulRestart.State.NotificationEnabled) -/
def nNegotiated (grLocal notifLocal peerGR peerN : Bool) : Bool := grLocal && notifLocal && peerGR && peerN

/-- the convertNotification closure of established(): what goes on the wire for a NOTIFICATION
    (code, sub) the daemon originates on an established session when `n` = notification support
    negotiated.  Every NOTIFICATION established() writes passes through it. -/
def convertNotification (n : Bool) (code sub : Nat) : Nat × Nat :=
  if n && code == 6 && shouldHardReset sub then (6, 9) else (code, sub)

/-- outgoingConnManager.stop() as fsmHandler.loop calls it on EVERY return to IDLE and when the
    peer goes away: a completed outgoing connection still waiting in fsm.outgoingConnCh is closed,
    so that no connection of the old session generation survives the teardown. -/
def drainOuts (s : St) : List Out := if s.queued then [.close .o s.now] else []

/-- every way back to IDLE: fsmHandler.loop stores the state, idle() starts its timer with the
    current fsm.idleHoldTime; a PeerDown drops the Adj-RIB-In (no graceful restart). -/
def toIdle (s : St) (idleHold : Nat) : St × List Out :=
  ({ s with st := .idle, idleHold := idleHold, idleT := some (s.now + idleHold),
            holdT := none, kaT := none, rib := 0, cur := .p, queued := false },
   drainOuts s ++ [.trans s.st .idle s.admin s.now])

/-- fsm.sendNotification (write, then close) followed by the return to IDLE. -/
def notifyIdle (s : St) (code sub : Nat) : St × List Out :=
  let (s', tr) := toIdle s s.idleHold
  (s', [.notif s.cur code sub s.now, .close s.cur s.now] ++ tr)

/-- conn.Close() by the daemon, then IDLE. -/
def closeIdle (s : St) : St × List Out :=
  let (s', tr) := toIdle s s.idleHold
  (s', [.close s.cur s.now] ++ tr)

/-- timers of OPENCONFIRM / ESTABLISHED after (re)negotiation at instant `s.now`. -/
def armSession (c : Cfg) (s : St) (neg : Nat) : St :=
  if neg = 0 then { s with negHold := 0, holdT := none, kaT := none, kaI := 0, lastRx := s.now }
  else { s with negHold := neg, holdT := some (s.now + neg), kaI := kaPeriod c neg,
                kaT := some (s.now + kaPeriod c neg), lastRx := s.now }

/-- the peer has been deleted: only a new connection is answered (closed, no configuration). -/
def onDeleted (s : St) (e : Ev) : St × List Out :=
  match e with
  | .connect => (s, [.close .p s.now])
  | .tick t  => ({ s with now := s.now + t }, [])
  | _        => (s, [])

/-- ctx cancelled by stopNeighbor: every handler returns -1 (dying). -/
def die (s : St) (outs : List Out) : St × List Out :=
  ({ s with deleted := true, st := .idle, idleT := none, holdT := none, kaT := none, rib := 0,
            queued := false },
   outs ++ drainOuts s ++ [.deleted s.now])

/-- fsmHandler.idle (timers are handled by `fireTimer`). -/
def onIdle (_c : Cfg) (s : St) (e : Ev) : St × List Out :=
  match e with
  | .connect => (s, [.close .p s.now])                     -- idle() / passConnToPeer close it
  | .enable  => ({ s with admin := .up, idleT := some (s.now + s.idleHold) }, [])
  | .disable => ({ s with admin := .down, idleT := none }, [])
  | .delete  => die s []
  | _        => (s, [])

/-- fsmHandler.active for a passive peer. -/
def onActive (c : Cfg) (s : St) (e : Ev) : St × List Out :=
  match e with
  | .connect =>
    ({ s with st := .opensent, cur := .p, holdT := some (s.now + holdtimeOpensent), lastRx := s.now },
     [.open .p s.now, .trans .active .opensent s.admin s.now])
  | .outgoing o =>
    let s1 := armSession c { s with st := .openconfirm, cur := .o, remoteAS := o.as } (negotiate c o)
    (s1, [.ka .o s.now, .trans .active .openconfirm s.admin s.now])
  | .enable  => ({ s with admin := .up }, [])
  | .disable =>
    let s1 := { s with admin := .down }
    let (s2, tr) := toIdle s1 s1.idleHold
    (s2, tr)
  | .delete  => die s []
  | _        => (s, [])

/-- fsmHandler.opensent (no collision: the outgoing manager of a passive peer is idle). -/
def onOpensent (c : Cfg) (s : St) (e : Ev) : St × List Out :=
  match e with
  | .connect => (s, [.close .x s.now])
  | .open o =>
    match validateOpen c o with
    | some sub => notifyIdle s 2 sub
    | none =>
      let s1 := armSession c { s with st := .openconfirm, remoteAS := o.as } (negotiate c o)
      (s1, [.ka s.cur s.now, .trans .opensent .openconfirm s.admin s.now])
  | .keepalive | .update _ | .refresh | .notification => notifyIdle s 5 1
  | .badHeader k => notifyIdle s 1 (hdrSub k)
  | .close | .connLost _ => let (s', tr) := toIdle s s.idleHold; (s', tr)
  | .enable  => ({ s with admin := .up }, [])
  | .disable => notifyIdle { s with admin := .down } 6 2
  | .delete  => die s [.close s.cur s.now]
  | _        => (s, [])

/-- fsmHandler.openconfirm. -/
def onOpenconfirm (c : Cfg) (s : St) (e : Ev) : St × List Out :=
  match e with
  | .outgoing _ => ({ s with queued := s.queued || s.cur == .p }, [])  -- nobody reads fsm.outgoingConnCh here: it waits
  | .connect => (s, [.close .x s.now])
  | .keepalive =>
    let s1 := armSession c { s with st := .established } s.negHold
    (s1, [.trans .openconfirm .established s.admin s.now])
  | .notification => closeIdle s
  | .open _ | .update _ | .refresh => notifyIdle s 5 2
  | .badHeader k => notifyIdle s 1 (hdrSub k)
  | .close | .connLost _ => let (s', tr) := toIdle s s.idleHold; (s', tr)
  | .enable  => ({ s with admin := .up }, [])
  | .disable => notifyIdle { s with admin := .down } 6 2
  | .delete  => die s [.close s.cur s.now]
  | _        => (s, [])

/-- restart of the hold timer by recvMessageloop (KEEPALIVE / UPDATE). -/
def touch (s : St) : St :=
  if s.negHold = 0 then s else { s with holdT := some (s.now + s.negHold), lastRx := s.now }

/-- fsmHandler.established + recvMessageloop + handleFSMMessage/handleUpdate. -/
def onEstablished (c : Cfg) (s : St) (e : Ev) : St × List Out :=
  match e with
  | .outgoing _ => ({ s with queued := s.queued || s.cur == .p }, [])  -- nobody reads fsm.outgoingConnCh here: it waits
  | .connect => (s, [.close .x s.now])
  | .keepalive => (touch s, [])
  | .update n =>
    let s1 := touch { s with rib := s.rib + n }
    if c.prefixLimit ≠ 0 ∧ s1.rib > c.prefixLimit then
      notifyIdle { s1 with admin := .pfxct } 6 1
    else (s1, [])
  | .refresh => (s, [])
  | .notification => closeIdle s
  | .open _ => notifyIdle s 5 3
  | .badHeader k => notifyIdle s 1 (hdrSub k)
  | .close | .connLost _ => let (s', tr) := toIdle s s.idleHold; (s', tr)
  | .enable  => ({ s with admin := .up }, [])
  | .disable => notifyIdle { s with admin := .down } 6 2
  | .shutdown => notifyIdle s 6 2
  | .reset   =>
    let (s', tr) := toIdle s c.idleAfterReset
    (s', [.notif s.cur 6 4 s.now, .close s.cur s.now] ++ tr)
  | .delete  => die s [.notif s.cur 6 3 s.now, .close s.cur s.now]
  | _        => (s, [])

/-- the timers a state handler selects on. -/
inductive Tm where
  | idle | hold | ka
deriving Repr, DecidableEq

/-- hold timer and keepalive ticker of a session state: the earlier one that is due at or
    before `target`; the hold timer wins a tie with the ticker. -/
def dueSess (holdT kaT : Option Nat) (target : Nat) : Option (Tm × Nat) :=
  match holdT, kaT with
  | some h, some k =>
    if h ≤ k then (if h ≤ target then some (.hold, h) else none)
    else (if k ≤ target then some (.ka, k) else none)
  | some h, none => if h ≤ target then some (.hold, h) else none
  | none, some k => if k ≤ target then some (.ka, k) else none
  | none, none => none

/-- earliest timer due at or before `target`. -/
def due (s : St) (target : Nat) : Option (Tm × Nat) :=
  match s.st with
  | .idle =>
    match s.idleT with
    | some d => if d ≤ target then some (.idle, d) else none
    | none => none
  | .active => none
  | .opensent | .openconfirm | .established => dueSess s.holdT s.kaT target

/-- one timer fires at instant `d`. -/
def fireTimer (s : St) (tm : Tm) (d : Nat) : St × List Out :=
  let s := { s with now := d }
  match tm with
  | .idle =>
    if s.admin = .up then
      ({ s with st := .active, idleHold := holdtimeIdle, idleT := none },
       [.trans .idle .active s.admin d])
    else ({ s with idleT := none }, [])
  | .hold => notifyIdle s 4 0
  | .ka => ({ s with kaT := some (d + s.kaI) }, [.ka s.cur d])

/-- silence until `target`: fire due timers in order (fuel: every firing but the last two
    moves the clock by at least a second). -/
def advance : Nat → St → Nat → St × List Out
  | 0, s, _ => (s, [])     -- fuel exhausted: never reached with the fuel `step` gives
  | f + 1, s, target =>
    match due s target with
    | none => ({ s with now := target }, [])
    | some (tm, d) =>
      let (s1, o1) := fireTimer s tm d
      let (s2, o2) := advance f s1 target
      (s2, o1 ++ o2)

def step (c : Cfg) (s : St) (e : Ev) : St × List Out :=
  if s.deleted then onDeleted s e
  else
    match e with
    | .tick t => advance (t + 3) s (s.now + t)
    | _ =>
      match s.st with
      | .idle        => onIdle c s e
      | .active      => onActive c s e
      | .opensent    => onOpensent c s e
      | .openconfirm => onOpenconfirm c s e
      | .established => onEstablished c s e

/-- state right after AddPeer: idle() with idleHoldTime = 0. -/
def init : St := {}

def run (c : Cfg) : St → List Ev → St × List Out
  | s, [] => (s, [])
  | s, e :: es =>
    let (s1, o1) := step c s e
    let (s2, o2) := run c s1 es
    (s2, o1 ++ o2)

end Fsm

namespace Fsm

/-- The RFC 4271 transition relation restricted to what gobgp's five handlers may return
    (CONNECT is folded into ACTIVE; ACTIVE→OPENCONFIRM is the hand-over by the outgoing-connection
    manager, which has itself sent and received an OPEN). -/
def allowedEdge : S → S → Bool
  | .idle, .active | .idle, .idle => true
  | .active, .opensent | .active, .openconfirm | .active, .idle => true
  | .opensent, .openconfirm | .opensent, .idle => true
  | .openconfirm, .established | .openconfirm, .idle => true
  | .established, .idle => true
  | _, _ => false

def S.ofNum : Nat → Option S
  | 0 => some .idle | 2 => some .active | 3 => some .opensent | 4 => some .openconfirm
  | 5 => some .established | _ => none

end Fsm
