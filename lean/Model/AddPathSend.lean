/-
  C01, ADD-PATH send branch: what a peer that negotiated ADD-PATH send is told about ONE
  destination, and the bookkeeping the speaker keeps about it.

  Mirrors:
    destination.go Calculate (local path identifiers: implicitWithdraw hands the old identifier
      to the replacement, explicitWithdraw + `IsDropped` frees it, the loop over knownPathList
      gives every path without identifier the lowest free bit of localIdMap), table.go update /
      deleteDest                                                            -> tblStep
    destination.go Update.GetWithdrawnPath                                  -> TRes.gone
    server.go propagateUpdateToNeighbors, `isAddPathSendEnabled` branch     -> fanWd / fanAnn
    server.go promoteSendMaxFiltered                                        -> promote
    server.go holdBackBeyondSendMax + getBestFromLocalCallbackLocked +
      withdrawalsOfFiltered (initial table transfer / soft reset out)       -> holdBack / transfer
    peer.go updateRoutes / hasPathAlreadyBeenSent / getRoutesCount /
      set-, unset-, isPathSendMaxFiltered / resetAdvertisedRoutes           -> upd / Bk fields
    what the UPDATEs packed from the queued paths leave at the far end      -> send (Bk.view)

  `Cand.id` carries Path.localID (0 = not allocated yet; the comparators never read it).
  `elig` is the export decision of one path toward the target peer, `s.filterpath(peer, p, nil)`
  (for the world: `eligOf`, the loop-prevention chain of Model/World.lean).  `k` is send-max.

  The code mirrored is the code AFTER the fixes `an ADD-PATH path that becomes filtered is no
  longer marked as held back by send-max` (`fanAnnOld` is the pinned behaviour) and `the
  withdrawal of a path never advertised to an ADD-PATH peer frees no send-max slot` (the
  `!b.sent.contains p.id` test of `fanWd`; it only matters when a withdrawal's table update
  precedes, and its fan-out follows, the target's initial table transfer: `Ev.upBetween`).
-/
import Model.World
namespace AddPathSend
open BestPath World

/-! ### the table side: knownPathList with local identifiers -/

structure Tbl where
  known : List Cand := []   -- best first; `id` = local path identifier
  used  : List Nat := []    -- flagged bits of localIdMap, bit 0 (always flagged) left out
deriving Repr, DecidableEq, Inhabited

inductive TOp where
  | ann (c : Cand)
  | wd (c : Cand) (dropped : Bool)   -- only `src`, `pathId` of `c` are read
deriving Repr

/-- Bitmap.FindandSetZeroBit with bit 0 flagged: the lowest identifier ≥ 1 not in use
    (`fuel` = number of candidates tried; `used.length + 1` always suffices) -/
def firstFree (used : List Nat) : Nat → Nat → Nat
  | 0, n => n
  | fuel + 1, n => if used.contains n then firstFree used fuel (n + 1) else n

def fresh (used : List Nat) : Nat := firstFree used (used.length + 1) 1

/-- result of destination.Calculate as the fan-out sees it -/
structure TRes where
  tbl     : Tbl
  newPath : Option Cand := none   -- announcement: the path as inserted (identifier assigned)
  gone    : Option Cand := none   -- withdrawal: Update.GetWithdrawnPath (at most one path)
deriving Repr, Inhabited

/-- the path explicitWithdraw removes: the LAST entry with the same source and path-id -/
def lastMatch (l : List Cand) (c : Cand) : Option Cand :=
  (l.filter (fun y => sameKey y c)).getLast?

/-- the path implicitWithdraw removes: the FIRST entry with the same source and path-id -/
def firstMatch (l : List Cand) (c : Cand) : Option Cand :=
  l.find? (fun y => sameKey c y)

/-- destination.Calculate + Table.update for one path.
    Announcement: `newPath.localID = old.localID` when a path of the same source and path-id is
    replaced; afterwards every path with identifier 0 gets the lowest free one — that is the new
    path only, every other path got its identifier when it was inserted.
    Withdrawal: the identifier is given back only when the withdrawal is marked `dropped`
    (it came through the Adj-RIB-In: a received withdrawal, a session that went down, a deleted
    peer).  Table.deleteDest removes a destination left without paths only when every identifier
    has been given back, so a re-created destination starts with the same (empty) bitmap: the
    deletion is invisible here. -/
def tblStep (o : Opts) (t : Tbl) : TOp → TRes
  | .ann c =>
    let inh := match firstMatch t.known c with | some old => old.id | none => 0
    let nid := if inh != 0 then inh else fresh t.used
    let c1 := { c with id := nid }
    { tbl := { known := calcStep o t.known (.ann c1),
               used := if inh != 0 then t.used else nid :: t.used },
      newPath := some c1 }
  | .wd c dropped =>
    match lastMatch t.known c with
    | none => { tbl := t }
    | some old =>
      let known' := calcStep o t.known (.wd c)
      let used' := if dropped && old.id != 0 then t.used.filter (· != old.id) else t.used
      { tbl := { known := known', used := used' }, gone := some old }

/-! ### the peer side -/

/-- per target peer and destination -/
structure Bk where
  sent : List Nat := []          -- peer.sentPaths[destination]: local identifiers advertised
  held : List Nat := []          -- peer.sendMaxPathFiltered, keys of this destination
  view : List (Nat × Nat) := []  -- the far end: path identifier ↦ marker of the route held
deriving Repr, DecidableEq, Inhabited

def ins (i : Nat) (l : List Nat) : List Nat := if l.contains i then l else i :: l
def del (i : Nat) (l : List Nat) : List Nat := l.filter (· != i)

/-- peer.updateRoutes for a list of (path, IsWithdraw) -/
def upd (b : Bk) : List (Cand × Bool) → Bk
  | [] => b
  | (c, wd) :: rest =>
    upd { b with sent := if wd then del c.id b.sent else ins c.id b.sent } rest

/-- sendfsmOutgoingMsg + sender + far end: a withdrawal removes the identifier, an announcement
    (re)places the route under its identifier -/
def send (b : Bk) : List (Cand × Bool) → Bk
  | [] => b
  | (c, wd) :: rest =>
    let v := b.view.filter (fun e => e.1 != c.id)
    send { b with view := if wd then v else (c.id, c.marker) :: v } rest

/-- promoteSendMaxFiltered: up to `n` paths of the destination, in Loc-RIB order, that pass the
    export filter and are marked held back; their marks are cleared -/
def promote (elig : Cand → Bool) : Nat → List Cand → List Nat → List Cand × List Nat
  | _, [], held => ([], held)
  | n, p :: rest, held =>
    if n = 0 then ([], held)
    else if elig p && held.contains p.id then
      let r := promote elig (n - 1) rest (del p.id held)
      (p :: r.1, r.2)
    else promote elig n rest held

/-- propagateUpdateToNeighbors, ADD-PATH branch, `newPath.IsWithdraw` -/
def fanWd (elig : Cand → Bool) (r : TRes) (b : Bk) : Bk :=
  match r.gone with
  | none => b
  | some p =>
    -- "if the path is filtered, there is no need to send the withdrawal"
    if !elig p then b
    -- "the path was never advertized to the peer" (unsetPathSendMaxFiltered returned true)
    else if b.held.contains p.id then { b with held := del p.id b.held }
    -- "… or it had left the table before the peer's initial table transfer read the destination"
    -- (!hasPathAlreadyBeenSent): such a withdrawal is not sent and frees no slot
    else if !b.sent.contains p.id then b
    else
      -- toActuallyDelete = [p]; the destination may have been removed from the table
      let pr := if r.tbl.known.isEmpty then ([], b.held) else promote elig 1 r.tbl.known b.held
      let l := (p, true) :: pr.1.map (fun q => (q, false))
      send (upd { b with held := pr.2 } l) l

/-- propagateUpdateToNeighbors, ADD-PATH branch, announcement (also an implicit replacement) -/
def fanAnn (elig : Cand → Bool) (k : Nat) (r : TRes) (b : Bk) : Bk :=
  match r.newPath with
  | none => b
  | some np =>
    let alreadySent := b.sent.contains np.id
    if !elig np then
      if alreadySent then
        let pr := promote elig 1 r.tbl.known b.held
        let l := (np, true) :: pr.1.map (fun q => (q, false))
        send (upd { b with held := pr.2 } l) l
      else { b with held := del np.id b.held }
    else if alreadySent || b.sent.length < k then
      send (if alreadySent then b else upd b [(np, false)]) [(np, false)]
    else { b with held := ins np.id b.held }

/-- the announcement branch on the pinned tree: a replacement that is filtered and had not been
    sent left the held-back mark of the version it replaces in place -/
def fanAnnOld (elig : Cand → Bool) (k : Nat) (r : TRes) (b : Bk) : Bk :=
  match r.newPath with
  | none => b
  | some np =>
    let alreadySent := b.sent.contains np.id
    if !elig np then
      if alreadySent then
        let pr := promote elig 1 r.tbl.known b.held
        let l := (np, true) :: pr.1.map (fun q => (q, false))
        send (upd { b with held := pr.2 } l) l
      else b
    else if alreadySent || b.sent.length < k then
      send (if alreadySent then b else upd b [(np, false)]) [(np, false)]
    else { b with held := ins np.id b.held }

/-- the withdrawal branch on the pinned tree: no `hasPathAlreadyBeenSent` test -/
def fanWdOld (elig : Cand → Bool) (r : TRes) (b : Bk) : Bk :=
  match r.gone with
  | none => b
  | some p =>
    if !elig p then b
    else if b.held.contains p.id then { b with held := del p.id b.held }
    else
      let pr := if r.tbl.known.isEmpty then ([], b.held) else promote elig 1 r.tbl.known b.held
      let l := (p, true) :: pr.1.map (fun q => (q, false))
      send (upd { b with held := pr.2 } l) l

/-- holdBackBeyondSendMax over the exportable paths of one destination, in Loc-RIB order:
    `sent` is what the peer had been sent before the pass (it is not updated during the pass,
    hence `added`) -/
def holdBack (k : Nat) (sent : List Nat) : List Cand → Nat → List Nat → List Cand × List Nat
  | [], _, held => ([], held)
  | p :: rest, added, held =>
    if sent.contains p.id then
      let r := holdBack k sent rest added held
      (p :: r.1, r.2)
    else if sent.length + added ≥ k then holdBack k sent rest added (ins p.id held)
    else
      let r := holdBack k sent rest (added + 1) held
      (p :: r.1, r.2)

/-- getBestFromLocalCallback(routeRefresh = true) for one destination: the initial table
    transfer (`soft = false`) and soft reset out (`soft = true`, which also withdraws what had
    been sent and is filtered now) -/
def transfer (elig : Cand → Bool) (k : Nat) (t : Tbl) (soft : Bool) (b : Bk) : Bk :=
  let hb := holdBack k b.sent (t.known.filter elig) 0 b.held
  let wds := if soft then (t.known.filter (fun p => !elig p)).filter (fun p => b.sent.contains p.id)
             else []
  let l := wds.map (fun q => (q, true)) ++ hb.1.map (fun q => (q, false))
  send (upd { b with held := hb.2 } l) l

/-! ### one (target peer, destination) pair as a transition system -/

structure St where
  tbl : Tbl := {}
  up  : Bool := false
  bk  : Bk := {}
deriving Repr, DecidableEq, Inhabited

inductive Ev where
  | rib (op : TOp)   -- a path of this destination announced / replaced / withdrawn, any source
  | up               -- session established: initial table transfer
  | down             -- session lost: resetAdvertisedRoutes
  | softOut          -- soft reset out
  /-- The session comes up BETWEEN the table update of `op` and its fan-out: the update's
      goroutine holds the prefix bucket lock, has changed the table and waits for the peer's
      route-refresh lock, which the initial table transfer (that does not take the bucket lock)
      holds while it reads the already-updated table.  For a peer that is established this is
      just `rib op`. -/
  | upBetween (op : TOp)
deriving Repr

def fan (elig : Cand → Bool) (k : Nat) (op : TOp) (r : TRes) (b : Bk) : Bk :=
  match op with
  | .ann _ => fanAnn elig k r b
  | .wd _ _ => fanWd elig r b

def step (o : Opts) (elig : Cand → Bool) (k : Nat) (s : St) : Ev → St
  | .rib op =>
    let r := tblStep o s.tbl op
    -- needToAdvertise: nothing is computed for a peer that is not established
    { s with tbl := r.tbl, bk := if s.up then fan elig k op r s.bk else s.bk }
  | .up => { s with up := true, bk := transfer elig k s.tbl false {} }
  | .down => { s with up := false, bk := {} }
  | .softOut => if s.up then { s with bk := transfer elig k s.tbl true s.bk } else s
  | .upBetween op =>
    let r := tblStep o s.tbl op
    if s.up then { s with tbl := r.tbl, bk := fan elig k op r s.bk }
    else { tbl := r.tbl, up := true, bk := fan elig k op r (transfer elig k r.tbl false {}) }

def run (o : Opts) (elig : Cand → Bool) (k : Nat) (evs : List Ev) : St :=
  evs.foldl (step o elig k) {}

def fanOld (elig : Cand → Bool) (k : Nat) (op : TOp) (r : TRes) (b : Bk) : Bk :=
  match op with
  | .ann _ => fanAnnOld elig k r b
  | .wd _ _ => fanWdOld elig r b

/-- the same system with the pinned announcement and withdrawal branches -/
def stepOld (o : Opts) (elig : Cand → Bool) (k : Nat) (s : St) : Ev → St
  | .rib op =>
    let r := tblStep o s.tbl op
    { s with tbl := r.tbl, bk := if s.up then fanOld elig k op r s.bk else s.bk }
  | .upBetween op =>
    let r := tblStep o s.tbl op
    if s.up then { s with tbl := r.tbl, bk := fanOld elig k op r s.bk }
    else { tbl := r.tbl, up := true, bk := fanOld elig k op r (transfer elig k r.tbl false {}) }
  | e => step o elig k s e

def runOld (o : Opts) (elig : Cand → Bool) (k : Nat) (evs : List Ev) : St :=
  evs.foldl (stepOld o elig k) {}

/-! ### the whole speaker: the world of Model/World.lean plus the ADD-PATH bookkeeping -/

/-- `s.filterpath(peer, path, nil)` returns the path (announcement form): the loop-prevention
    chain of the world; no export policy, no LLGR-stale routes -/
def eligOf (g : Global) (t : PeerCfg) (c : Cand) : Bool :=
  match sFilterpath g t ⟨c, false⟩ none with
  | some p => !p.wd
  | none => false

structure APW where
  w    : W
  tbls : List (Nat × Tbl) := []          -- per prefix
  bks  : List ((Nat × Nat) × Bk) := []   -- per (peer idx, prefix)
deriving Repr, Inhabited

def APW.tblOf (a : APW) (pfx : Nat) : Tbl :=
  match a.tbls.find? (·.1 == pfx) with
  | some e => e.2
  | none => {}

def APW.bkOf (a : APW) (idx pfx : Nat) : Bk :=
  match a.bks.find? (fun e => e.1.1 == idx && e.1.2 == pfx) with
  | some e => e.2
  | none => {}

def APW.setTbl (a : APW) (pfx : Nat) (t : Tbl) : APW :=
  { a with tbls := (pfx, t) :: a.tbls.filter (·.1 != pfx) }

def APW.setBk (a : APW) (idx pfx : Nat) (b : Bk) : APW :=
  { a with bks := ((idx, pfx), b) :: a.bks.filter (fun e => !(e.1.1 == idx && e.1.2 == pfx)) }

def APW.clearPeer (a : APW) (idx : Nat) : APW :=
  { a with bks := a.bks.filter (fun e => e.1.1 != idx) }

/-- the table updates one world operation performs, in order: (prefix, update).  Mirrors the
    path computations of World.recvAnn / recvWd / sessionDown / localAdd / localDel / delPeer
    (handleUpdate, AdjRib.Update, propagateUpdate's ingress LOCAL_PREF stripping). -/
def traceOf (w : W) : WOp → List (Nat × TOp)
  | .ann i r0 =>
    match w.peer? i with
    | none => []
    | some ps =>
      if !ps.up then [] else
      let r := { r0 with src := ps.cfg.srcInfo w.g, ts := w.tick + 1 }
      let rej := inboundRejected w.g ps.cfg r
      let r' := (adjAnnounce ps.adj r rej).2
      let r'' := if !ps.cfg.isIBGP w.g then { r' with localPref := none } else r'
      -- a loop-rejected route is handed on as `path.Clone(true)`: a withdrawal, not `dropped`
      [(r.pfx, if rej then .wd r'' false else .ann r'')]
  | .wd i pfx pid =>
    match w.peer? i with
    | none => []
    | some ps =>
      if !ps.up then [] else
      [(pfx, .wd { (default : Cand) with src := ps.cfg.srcInfo w.g, pfx := pfx, pathId := pid } true)]
  | .down i | .del i =>
    match w.peer? i with
    | none => []
    | some ps => ps.adj.entries.map (fun e => (e.r.pfx, .wd e.r true))
  | .localAdd r0 => [(r0.pfx, .ann { r0 with src := localSrc, ts := w.tick + 1 })]
  | .localDel pfx pid =>
    [(pfx, .wd { (default : Cand) with src := localSrc, pfx := pfx, pathId := pid } false)]
  | .up _ | .add _ => []

/-- one table update with the fan-out to every established ADD-PATH-send peer of `peers` -/
def APW.ribUpdate (a : APW) (peers : List PeerSt) (pfx : Nat) (op : TOp) : APW :=
  let r := tblStep a.w.opts (a.tblOf pfx) op
  let a := a.setTbl pfx r.tbl
  peers.foldl (fun a ps =>
    if ps.up && ps.cfg.sendMax > 0 && !ps.cfg.isRSClient then
      a.setBk ps.cfg.idx pfx (fan (eligOf a.w.g ps.cfg) ps.cfg.sendMax op r (a.bkOf ps.cfg.idx pfx))
    else a) a

/-- the prefixes of the table, in a fixed order (the transfer treats them independently) -/
def APW.prefixes (a : APW) : List Nat := a.tbls.map (·.1)

inductive AOp where
  | w (op : WOp)
  | softOut (idx : Nat)
  /-- peer `idx` (not established) comes up between the table update and the fan-out of the
      received announcement / withdrawal `op` of another peer -/
  | upBetween (idx : Nat) (op : WOp)
deriving Repr

/-- one operation of the world of Model/World.lean, with the ADD-PATH bookkeeping -/
def APW.stepW (a : APW) (op : WOp) : APW :=
    let tr := traceOf a.w op
    let w' := World.step a.w op
    -- which peers the fan-out of this operation can reach: a session that goes down has
    -- published its state and cleared its bookkeeping before its routes are withdrawn
    let a1 : APW := match op with
      | .down i => a.clearPeer i
      | _ => a
    let targets : List PeerSt := match op with
      | .down i => a.w.peers.map (fun ps => if ps.cfg.idx == i then { ps with up := false } else ps)
      | _ => a.w.peers
    let a2 := tr.foldl (fun a e => a.ribUpdate targets e.1 e.2) a1
    let a3 : APW := { a2 with w := w' }
    match op with
    | .up i =>
      match w'.peer? i with
      | some ps =>
        if ps.cfg.sendMax > 0 && !ps.cfg.isRSClient then
          a3.prefixes.foldl (fun a pfx =>
            a.setBk i pfx (transfer (eligOf w'.g ps.cfg) ps.cfg.sendMax (a.tblOf pfx) false {}))
            (a3.clearPeer i)
        else a3
      | none => a3
    | .del i => a3.clearPeer i
    | _ => a3

def APW.step (a : APW) : AOp → APW
  | .w op => a.stepW op
  | .upBetween i op =>
    let tr := traceOf a.w op
    -- the update reaches every established peer; `i` is not established yet
    let a1 := a.stepW op
    -- the transfer of `i` reads the updated table
    let a2 := a1.stepW (.up i)
    -- then the fan-out of the update runs toward `i`, with the Calculate result it had computed
    match a2.w.peer? i, tr with
    | some ps, [(pfx, top)] =>
      if ps.up && ps.cfg.sendMax > 0 && !ps.cfg.isRSClient then
        let r := tblStep a.w.opts (a.tblOf pfx) top
        a2.setBk i pfx (fan (eligOf a2.w.g ps.cfg) ps.cfg.sendMax top r (a2.bkOf i pfx))
      else a2
    | _, _ => a2
  | .softOut i =>
    match a.w.peer? i with
    | some ps =>
      if ps.up && ps.cfg.sendMax > 0 && !ps.cfg.isRSClient then
        a.prefixes.foldl (fun a pfx =>
          a.setBk i pfx (transfer (eligOf a.w.g ps.cfg) ps.cfg.sendMax (a.tblOf pfx) true (a.bkOf i pfx))) a
      else a
    | none => a

end AddPathSend
