/-
  Model of the DECODER of 8-octet extended communities (pkg/packet/bgp/bgp.go ParseExtended,
  parseOpaqueExtended, parseEvpnExtended and the list loop of
  PathAttributeExtendedCommunities.DecodeFromBytes), on top of the encoder `ApiConv.encExt`
  (…Extended.Serialize, Model/ApiConvX.lean, tied to the Go code by the C18 correspondence run).

  Kinds whose Go value type is outside `ApiConv.ExtComm` (EVPN L2-attributes / E-Tree /
  multicast-flags, the generic-transitive-experimental types 0x80–0x82 = FlowSpec actions / VPLS,
  MUP 0x0c) are classified only: `DecRes.other`.  Every definition names the Go code it mirrors.
  Core-only Lean.
-/
import Model.ApiConvX
namespace WireExt
open Wire ApiConv

inductive DecRes where
  | ok (e : ExtComm)
  | other               -- decoded by Go into a value type outside the model
  | err                 -- ParseExtended returns an error
deriving Repr, DecidableEq

/-- `data[i]` for an index the caller has bounded -/
def at' (d : Bytes) (i : Nat) : Nat := d.getD i 0

/-- parseOpaqueExtended(isTransitive, data) on the 8 octets -/
def decOpaque (tr : Bool) (d : Bytes) : ExtComm :=
  let st := at' d 1
  if tr && st == 11 then .color (rd32 (d.drop 4))
  else if tr && st == 12 then .encap (rd16 (d.drop 6))
  else if tr && st == 13 then .defaultGateway
  else if !tr && st == 0 then .validation (at' d 7)
  else .opaque tr ((d.drop 1).take 7)              -- NewOpaqueExtended(isTransitive, data[1:8])

/-- parseEvpnExtended(data) on the 8 octets -/
def decEvpn (d : Bytes) : DecRes :=
  let st := at' d 1
  if st == 1 then .ok (.esiLabel (at' d 5 * 65536 + at' d 6 * 256 + at' d 7) (decide (at' d 2 > 0)))
  else if st == 2 then .ok (.esImport ((d.drop 2).take 6))
  else if st == 0 then .ok (.macMobility (rd32 (d.drop 4)) (decide (at' d 2 > 0)))
  else if st == 3 then .ok (.routerMac ((d.drop 2).take 6))
  else if st == 4 || st == 5 || st == 9 then .other
  else .err                                        -- "unknown evpn subtype"

/-- parseGenericTransitiveExperimentalExtended(data) (types 0x80 / 0x81 / 0x82): the FlowSpec
    actions (sub-types 6-9) and VPLS layer-2 info (sub-type 10, encapsulation 19) have value types
    outside the model; every other sub-type falls through to UnknownExtended -/
def decExperimental (d : Bytes) : DecRes :=
  let st := at' d 1
  if st == 6 || st == 7 || st == 8 || st == 9 then .other
  else if st == 10 && at' d 2 == 19 then .other
  else .ok (.unknown (at' d 0) ((d.drop 1).take 7))

/-- parseMUPExtended(data) (type 0x0c): sub-types 0-5 are MUP values, anything else an error -/
def decMup (d : Bytes) : DecRes :=
  if at' d 1 ≤ 5 then .other else .err

/-- the 2-octet-AS-specific branch: sub-type 4 is LinkBandwidthExtended whatever the transitive bit -/
def decTwoOctet (tr : Bool) (d : Bytes) : ExtComm :=
  if at' d 1 == 4 then .linkBandwidth (rd16 (d.drop 2)) (rd32 (d.drop 4))
  else .twoOctetAs (at' d 1) (rd16 (d.drop 2)) (rd32 (d.drop 4)) tr

/-- ParseExtended(data): fewer than 8 octets is an error, otherwise the first 8 decide -/
def decExt (data : Bytes) : DecRes :=
  if data.length < 8 then .err else
  let d := data.take 8
  let t := at' d 0
  if t == 0 then .ok (decTwoOctet true d)
  else if t == 64 then .ok (decTwoOctet false d)
  else if t == 1 then .ok (.ipv4 (at' d 1) (rd32 (d.drop 2)) (rd16 (d.drop 6)) true)
  else if t == 65 then .ok (.ipv4 (at' d 1) (rd32 (d.drop 2)) (rd16 (d.drop 6)) false)
  else if t == 2 then .ok (.fourOctetAs (at' d 1) (rd32 (d.drop 2)) (rd16 (d.drop 6)) true)
  else if t == 66 then .ok (.fourOctetAs (at' d 1) (rd32 (d.drop 2)) (rd16 (d.drop 6)) false)
  else if t == 3 then .ok (decOpaque true d)
  else if t == 67 then .ok (decOpaque false d)
  else if t == 6 then decEvpn d
  else if t == 128 || t == 129 || t == 130 then decExperimental d
  else if t == 12 then decMup d
  else .ok (.unknown t ((d.drop 1).take 7))

/-- the loop of PathAttributeExtendedCommunities.DecodeFromBytes over the attribute value:
    `for len(value) >= 8 { ParseExtended(value); value = value[8:] }`; `none` = error, an element
    `none` = a value outside the model.  Fuel = the octets left (each turn consumes 8). -/
def decExtsAux : Nat → Bytes → Option (List (Option ExtComm))
  | 0, _ => some []
  | fuel + 1, v =>
    if v.length < 8 then some [] else
    match decExt v with
    | .err => none
    | .ok e => (decExtsAux fuel (v.drop 8)).map (some e :: ·)
    | .other => (decExtsAux fuel (v.drop 8)).map (none :: ·)

/-- value decoding of the attribute: the length must be a multiple of 8 (ATTRIBUTE_LENGTH_ERROR) -/
def decExts (v : Bytes) : Option (List (Option ExtComm)) :=
  if v.length % 8 != 0 then none else decExtsAux v.length v

/-- the values `encExt` serialises to 8 octets from which `decExt` gives the value back: field
    ranges of the Go struct types, and the constructor Go's decoder would itself choose -/
def ExtCanon : ExtComm → Prop
  | .twoOctetAs st as la _ => st < 256 ∧ st ≠ 4 ∧ as < 65536 ∧ la < 4294967296
  | .ipv4 st a la _ => st < 256 ∧ a < 4294967296 ∧ la < 65536
  | .fourOctetAs st as la _ => st < 256 ∧ as < 4294967296 ∧ la < 65536
  | .validation s => s < 256
  | .linkBandwidth as bw => as < 65536 ∧ bw < 4294967296
  | .color c => c < 4294967296
  | .encap t => t < 65536
  | .defaultGateway => True
  | .opaque tr v => v.length = 7 ∧ (∀ x ∈ v, x < 256) ∧
      (if tr then v.getD 0 0 ≠ 11 ∧ v.getD 0 0 ≠ 12 ∧ v.getD 0 0 ≠ 13 else v.getD 0 0 ≠ 0)
  | .esiLabel l _ => l < 16777216
  | .esImport m => m.length = 6 ∧ ∀ x ∈ m, x < 256
  | .macMobility q _ => q < 4294967296
  | .routerMac m => m.length = 6 ∧ ∀ x ∈ m, x < 256
  | .unknown t v => t < 256 ∧ v.length = 7 ∧ (∀ x ∈ v, x < 256) ∧
      t ∉ [0, 64, 1, 65, 2, 66, 3, 67, 6, 12] ∧
      (t ∈ [128, 129, 130] → v.getD 0 0 ∉ [6, 7, 8, 9] ∧ ¬ (v.getD 0 0 = 10 ∧ v.getD 1 0 = 19))
  | .noApiMessage _ => False

/-! ## IPv6-address-specific extended communities (20 octets, attribute type 25) -/

/-- ParseIP6Extended(data) (with parseIP6FlowSpecExtended for type 0x80): fewer than 20 octets is
    the only error; types 0x00 / 0x40 are IPv6AddressSpecificExtended, 0x80 with sub-type 0x0b the
    FlowSpec redirect, everything else UnknownIP6Extended with the 19 octets after the type -/
def decIp6Ext (data : Bytes) : Option Ip6ExtComm :=
  if data.length < 20 then none else
  let d := data.take 20
  let t := at' d 0
  if t == 0 then some (.specific (at' d 1) ((d.drop 2).take 16) (rd16 (d.drop 18)) true)
  else if t == 64 then some (.specific (at' d 1) ((d.drop 2).take 16) (rd16 (d.drop 18)) false)
  else if t == 128 && at' d 1 == 11 then some (.redirect ((d.drop 2).take 16) (rd16 (d.drop 18)))
  else some (.unknown t ((d.drop 1).take 19))

def decIp6ExtsAux : Nat → Bytes → Option (List Ip6ExtComm)
  | 0, _ => some []
  | fuel + 1, v =>
    if v.length < 20 then some [] else
    match decIp6Ext v with
    | none => none
    | some e => (decIp6ExtsAux fuel (v.drop 20)).map (e :: ·)

/-- PathAttributeIP6ExtendedCommunities.DecodeFromBytes on the attribute value -/
def decIp6Exts (v : Bytes) : Option (List Ip6ExtComm) :=
  if v.length % 20 != 0 then none else decIp6ExtsAux v.length v

def Ip6Canon : Ip6ExtComm → Prop
  | .specific st addr la _ => st < 256 ∧ addr.length = 16 ∧ (∀ x ∈ addr, x < 256) ∧ la < 65536
  | .redirect addr la => addr.length = 16 ∧ (∀ x ∈ addr, x < 256) ∧ la < 65536
  | .unknown t v => t < 256 ∧ t ≠ 0 ∧ t ≠ 64 ∧ v.length = 19 ∧ (∀ x ∈ v, x < 256) ∧
      (t = 128 → v.getD 0 0 ≠ 11)

end WireExt
