/-
  C15 — the WHOLE speaker as a product of its components: finitely many peers (configuration,
  session state) × destinations (Loc-RIB path list, accepted Adj-RIB-In content, what every peer
  holds for the destination), built by mapping the per-destination / per-peer functions of
  Model/SoftReset.lean (calcStep, deltaForP / heldApplyP, softOutFor) over the components.
  Every event either touches ONE destination (a received announcement / withdrawal) or is the
  same per-destination function applied to every destination (session up / down, soft reset
  in / out / both of one peer or all, ROUTE-REFRESH); policy changes touch no destination.

  Relation to Model/SoftReset.lean (`S`, association lists, the mirror of the Go functions): the
  line-protocol driver (Driver/C15.lean) runs BOTH models on every recorded history and answers
  an ask only when they agree, so this model is compared with the real BgpServer on every run
  exactly as `S` is. The whole-speaker theorems (Props/C15.lean `C15_soft_reset_equals_fresh_world`,
  `C15_reset_idempotent_world`) are about this model.
-/
import Model.SoftReset
import Model.SoftResetEv
namespace SoftResetWorld
open BestPath World SoftReset SoftResetIn

/-- what does not depend on the destination -/
structure Ctx where
  g    : Global
  opts : Opts := ⟨false, false, false⟩
  imp  : Pol := {}
  exp  : Pol := {}
  cfgs : List PeerCfg := []
  up   : Nat → Bool := fun _ => false     -- session established, by peer index

/-- one destination -/
structure DSt where
  rib  : List Cand := []                      -- Loc-RIB path list, best first
  adj  : List Cand := []                      -- accepted Adj-RIB-In entries of all peers, storage order
  held : Nat → Option Held := fun _ => none   -- what each peer (by index) holds

structure SW where
  k    : Ctx
  tick : Nat := 0
  d    : Nat → DSt := fun _ => {}

def Ctx.cfg? (k : Ctx) (i : Nat) : Option PeerCfg := k.cfgs.find? (·.idx == i)

/-- propagateUpdate strips LOCAL_PREF on ingress from eBGP peers -/
def stripLP (g : Global) (x : PeerCfg) (c : Cand) : Cand :=
  if !x.isIBGP g then { c with localPref := none } else c

def fromPeer (x : PeerCfg) (c : Cand) : Bool := c.src.addr == some x.addr

/-- the import function of the speaker: the route's neighbour (found by its address) decides
    whose LOCAL_PREF is stripped and which PolicyOptions.Info the import policy sees -/
def impFn (g : Global) (imp : Pol) (cfgs : List PeerCfg) (c : Cand) : Option Cand :=
  match cfgs.find? (fun x => fromPeer x c) with
  | some x => applyPol imp x.idx (stripLP g x c)
  | none => none

/-- AdjRib.Update restricted to the accepted entries of one destination: replace in place,
    append, or remove -/
def adjInPlace (l : List Cand) : Ev → List Cand
  | .ann c => if l.any (fun y => sameKey c y) then l.map (fun y => if sameKey c y then c else y)
              else l ++ [c]
  | .wd c => l.filter (fun y => !sameKey c y)

/-- propagateUpdateToNeighbors for one destination: every established (non route-server) peer -/
def fanoutD (k : Ctx) (oldL newL : List Cand) (held : Nat → Option Held) : Nat → Option Held :=
  fun i =>
    match k.cfg? i with
    | some t =>
      if k.up i && !t.isRSClient then heldApplyP k.g t (held i) (deltaForP k.g k.exp t oldL newL)
      else held i
    | none => held i

/-- one received event for one destination: Adj-RIB-In, Loc-RIB (destination.Calculate), fan-out -/
def dEv (k : Ctx) (st : DSt) (ev : Ev) : DSt :=
  let newL := calcStep k.opts st.rib (opOf (impFn k.g k.imp k.cfgs) ev)
  { rib := newL, adj := adjInPlace st.adj ev, held := fanoutD k st.rib newL st.held }

def upd {α : Type} (f : Nat → α) (i : Nat) (v : α) : Nat → α := fun j => if j = i then v else f j

/-- softResetOut / handleRouteRefresh / (with nothing held) the initial transfer, one destination -/
def dSoftOut (k : Ctx) (t : PeerCfg) (st : DSt) : DSt :=
  let h := heldApplyList k.g t (st.held t.idx) (softOutFor k.g k.exp t st.rib (st.held t.idx).isSome)
  { st with held := upd st.held t.idx h }

/-- softResetIn of one peer, one destination: its accepted entries go through propagateUpdate -/
def dSoftIn (k : Ctx) (x : PeerCfg) (st : DSt) : DSt :=
  ((st.adj.filter (fromPeer x)).map Ev.ann).foldl (dEv k) st

/-- session loss, one destination: nothing held, every entry of the peer withdrawn -/
def dDown (k : Ctx) (x : PeerCfg) (st : DSt) : DSt :=
  ((st.adj.filter (fromPeer x)).map Ev.wd).foldl (dEv k) { st with held := upd st.held x.idx none }

/-- session establishment, one destination: the initial table transfer -/
def dUp (k : Ctx) (t : PeerCfg) (st : DSt) : DSt :=
  let h := heldApplyList k.g t none (softOutFor k.g k.exp t st.rib false)
  { st with held := upd st.held t.idx h }

def SW.mapD (s : SW) (f : DSt → DSt) : SW := { s with d := fun dst => f (s.d dst) }

/-- the event an UPDATE announcing `r0`, received from peer `x` at time `tick`, is for its
    destination: peer.handleUpdate's loop checks (a rejected route replaces whatever the peer had
    announced for the key: a withdraw), AdjRib.Update keeping the timestamp of an Equal entry -/
def annEv (g : Global) (x : PeerCfg) (tick : Nat) (adj : List Cand) (r0 : Cand) : Ev :=
  let r := { r0 with src := x.srcInfo g, ts := tick }
  if inboundRejected g x r then Ev.wd r
  else
    match adj.find? (fun y => sameKey r y) with
    | some old => if pathEqual old r then Ev.ann { r with ts := old.ts } else Ev.ann r
    | none => Ev.ann r

def recvAnn (s : SW) (i : Nat) (r0 : Cand) : SW :=
  match s.k.cfg? i with
  | none => s
  | some x =>
    if !s.k.up i then s else
    { s with tick := s.tick + 1,
             d := upd s.d r0.pfx (dEv s.k (s.d r0.pfx) (annEv s.k.g x (s.tick + 1) (s.d r0.pfx).adj r0)) }

def wdEv (g : Global) (x : PeerCfg) (tick pfx pathId : Nat) : Ev :=
  Ev.wd { (default : Cand) with src := x.srcInfo g, pfx := pfx, pathId := pathId, ts := tick }

def recvWd (s : SW) (i : Nat) (pfx pathId : Nat) : SW :=
  match s.k.cfg? i with
  | none => s
  | some x =>
    if !s.k.up i then s else
    { s with tick := s.tick + 1, d := upd s.d pfx (dEv s.k (s.d pfx) (wdEv s.k.g x (s.tick + 1) pfx pathId)) }

def sessionUp (s : SW) (i : Nat) : SW :=
  match s.k.cfg? i with
  | none => s
  | some t =>
    let k := { s.k with up := upd s.k.up i true }
    { s with k := k, tick := s.tick + 1, d := fun dst => dUp k t (s.d dst) }

def sessionDown (s : SW) (i : Nat) : SW :=
  match s.k.cfg? i with
  | none => s
  | some x =>
    let k := { s.k with up := upd s.k.up i false }
    { s with k := k, tick := s.tick + 1, d := fun dst => dDown k x (s.d dst) }

def softIn (s : SW) (i : Nat) : SW :=
  match s.k.cfg? i with
  | none => s
  | some x => s.mapD (dSoftIn s.k x)

def softOut (s : SW) (i : Nat) : SW :=
  match s.k.cfg? i with
  | none => s
  | some t => if !s.k.up i then s else s.mapD (dSoftOut s.k t)

def softBoth (s : SW) (i : Nat) : SW := softOut (softIn s i) i

def idxs (s : SW) : List Nat := s.k.cfgs.map (·.idx)
def softInAll (s : SW) : SW := (idxs s).foldl softIn s
def softOutAll (s : SW) : SW := (idxs s).foldl softOut s
def softBothAll (s : SW) : SW := softOutAll (softInAll s)

/-- the same events as Model/SoftReset.lean `step` -/
def step (s : SW) : SOp → SW
  | .up i => sessionUp s i
  | .down i => sessionDown s i
  | .ann i r => recvAnn s i r
  | .wd i p pid => recvWd s i p pid
  | .setImp p => { s with k := { s.k with imp := p } }
  | .setExp p => { s with k := { s.k with exp := p } }
  | .softIn i => softIn s i
  | .softOut i => softOut s i
  | .softBoth i => softBoth s i
  | .softInAll => softInAll s
  | .softOutAll => softOutAll s
  | .softBothAll => softBothAll s
  | .refresh i => softOut s i

def run (s : SW) (ops : List SOp) : SW := ops.foldl step s

end SoftResetWorld
