/-
  Model of gobgp's session-parameter negotiation (pkg/server/fsm.go, pkg/config/oc/util.go,
  pkg/packet/bgp/validate.go).

  Mirrors, branch for branch:
    getASN                                           -> getASN
    bgp.ValidateOpenMsg                              -> validateOpen
    open2Cap (capability map, ADD-PATH squash, default IPv4-unicast, per-family intersection)
                                                     -> open2CapMap / remoteMode / negMode / familyMapOf
    oc.Neighbor.CreateRfMap                          -> localMode
    fsm.stateChange, case BGP_FSM_ESTABLISHED        -> stateChange
    capAddPathFromConfig / capabilitiesFromConfig    -> capAddPathFromConfig / capsFromConfig
    buildopen                                        -> buildOpen
    recvMessageWithError (length gate, options)      -> recvMaxLen / recvOpts
    sendMessageloop `send` + BGPMessage.Serialize    -> sendMaxLen / sendOpts / serializeFits / sendWrites
    fsm.sendNotification                             -> notifWrites
    bgp.IsAddPathEnabled                             -> expectsPathId
    oc.getLocalAsForPeer / IsConfederation / the LocalAs+PeerType defaults -> getLocalAsForPeer / applyDefaults
    keepaliveTicker, hold timer of openconfirm/established -> tickerSecs / holdTimerSecs

  Representation choices (all only re-encodings, none changes a decision):
    * bgp.Family is the natural number afi*65536+safi.
    * a Go `map[code][]cap` is a flat `List Cap` read through `capsOf code` (filter, order kept);
      "key present" = the filter is non-empty (the code never stores an empty slice).
    * a Go `map[Family]mode` that is only ever read by key is an association list that may repeat
      an identical entry; the driver prints it sorted and de-duplicated.
    * times are whole seconds; the keepalive interval is kept in THIRDS of a second (`ka3`) so that
      Go's float64 `negotiated/3` stays exact.
    * AfiSafi.Config.AfiSafiName is assumed to name AfiSafi.State.Family (what
      oc.SetDefaultNeighborConfigValues establishes), so the name comparison of the GR loops is a
      family comparison.
  Core-only (no Mathlib) so that the line-protocol driver links as a lean_exe.
-/
namespace Negotiate

abbrev Family := Nat
def ipv4uc : Family := 65537
def ipv6uc : Family := 131073
/-- bgp.AS_TRANS -/
def asTrans : Nat := 23456

/-- one element of oc.Neighbor.AfiSafis, the fields negotiation reads -/
structure AfCfg where
  family    : Family
  apRecv    : Bool      -- AddPaths.State.Receive
  apSendMax : Nat       -- AddPaths.State.SendMax
  mpGr      : Bool      -- MpGracefulRestart.Config.Enabled
  llgr      : Bool      -- LongLivedGracefulRestart.Config.Enabled
  llgrTime  : Nat       -- LongLivedGracefulRestart.Config.RestartTime
deriving Repr, DecidableEq, Inhabited

/-- oc.Global + oc.Neighbor, the fields negotiation reads -/
structure LocalCfg where
  localAs         : Nat    -- Config.LocalAs
  peerAs          : Nat    -- Config.PeerAs (0 = not configured: dynamic / unnumbered peers)
  cfgInternal     : Bool   -- Config.PeerType == PEER_TYPE_INTERNAL
  routerId        : Nat    -- Global.Config.RouterId as uint32
  hold            : Nat    -- Timers.Config.HoldTime
  ka3             : Nat    -- Timers.Config.KeepaliveInterval, in thirds of a second
  sendSwVer       : Bool   -- Config.SendSoftwareVersion
  grEnabled       : Bool   -- GracefulRestart.Config.Enabled
  grHelperOnly    : Bool
  grNotif         : Bool   -- GracefulRestart.Config.NotificationEnabled
  grLlgr          : Bool   -- GracefulRestart.Config.LongLivedEnabled
  grTime          : Nat    -- GracefulRestart.Config.RestartTime (uint16)
  localRestarting : Bool   -- GracefulRestart.State.LocalRestarting
  treatAsWithdraw : Bool   -- ErrorHandling.Config.TreatAsWithdraw
  confedMembers   : List Nat  -- Global.Confederation.Config.MemberAsList
  afs             : List AfCfg
deriving Repr, Inhabited

/-- oc.Global, the fields that decide which AS a neighbour speaks with -/
structure GlobalCfg where
  as            : Nat        -- Global.Config.As
  confedEnabled : Bool       -- Global.Confederation.Config.Enabled
  confedId      : Nat        -- Global.Confederation.Config.Identifier
  members       : List Nat   -- Global.Confederation.Config.MemberAsList
deriving Repr, Inhabited

/-- oc.Global.IsConfederation -/
def GlobalCfg.isConfederation (g : GlobalCfg) (peerAs : Nat) : Bool :=
  peerAs == g.as || g.members.contains peerAs

/-- oc.getLocalAsForPeer: the confederation identifier towards peers outside the confederation -/
def getLocalAsForPeer (g : GlobalCfg) (peerAs : Nat) : Nat :=
  if g.confedEnabled && !g.isConfederation peerAs then g.confedId else g.as

/-- the LocalAs / PeerType part of oc.setDefaultNeighborConfigValuesWithViper: a per-neighbour
    local-as wins, otherwise getLocalAsForPeer; PeerType from the two configured AS numbers
    (getConfigPeerType).  Every later step (buildopen, ValidateOpenMsg, stateChange) reads the
    NEIGHBOUR's LocalAs, never Global.Config.As. -/
def applyDefaults (g : GlobalCfg) (cfgLocalAs : Nat) (c : LocalCfg) : LocalCfg :=
  let la := if cfgLocalAs = 0 then getLocalAsForPeer g c.peerAs else cfgLocalAs
  { c with localAs := la, cfgInternal := c.peerAs == la, confedMembers := g.members }

/-- a capability as the decoder hands it over.  `other` is every capability the negotiation
    only counts (route refresh, FQDN, software version, unknown codes, …). -/
inductive Cap where
  | mp (f : Family)
  | as4 (v : Nat)
  | addPath (ts : List (Family × Nat))
  | extMsg
  | gr (flags time : Nat) (ts : List (Family × Nat))          -- tuples (family, flags)
  | llgr (ts : List (Family × Nat × Nat))                      -- tuples (family, flags, time)
  | extNh (ts : List (Nat × Nat × Nat))                        -- tuples (afi, safi, nexthop afi)
  | other (code : Nat)
deriving Repr, DecidableEq, Inhabited

def Cap.code : Cap → Nat
  | .mp _ => 1
  | .as4 _ => 65
  | .addPath _ => 69
  | .extMsg => 6
  | .gr _ _ _ => 64
  | .llgr _ => 71
  | .extNh _ => 5
  | .other c => c

/-- an optional parameter of the OPEN: a capability parameter or anything else -/
inductive Param where
  | caps (l : List Cap)
  | unknown
deriving Repr, DecidableEq, Inhabited

structure Open where
  version : Nat
  myAs    : Nat     -- the 2-octet My Autonomous System field
  hold    : Nat
  id      : Nat
  params  : List Param
deriving Repr, DecidableEq, Inhabited

def Param.capList : Param → List Cap
  | .caps l => l
  | .unknown => []

/-- the capabilities of all capability parameters, in wire order (both getASN and open2Cap walk
    `OptParams` and skip what is not an OptionParameterCapability) -/
def Open.caps (o : Open) : List Cap := o.params.flatMap Param.capList

def as4Step (asn : Nat) : Cap → Nat
  | .as4 v => v
  | _ => asn

/-- getASN / the loop at the head of ValidateOpenMsg: the LAST 4-octet-AS capability wins -/
def getASN (o : Open) : Nat := o.caps.foldl as4Step o.myAs

inductive OpenErr where
  | version | badId | badPeerAs | holdTime
deriving Repr, DecidableEq, Inhabited

/-- bgp.ValidateOpenMsg(m, expectedAS, myAS, myId) -/
def validateOpen (o : Open) (expectedAS myAS myId : Nat) : Except OpenErr Nat :=
  if o.version ≠ 4 then .error .version
  else
    let as := getASN o
    if o.id = 0 then .error .badId
    else if as = myAS ∧ o.id = myId then .error .badId
    else if expectedAS ≠ 0 ∧ as ≠ expectedAS then .error .badPeerAs
    else if o.hold < 3 ∧ o.hold ≠ 0 then .error .holdTime
    else .ok as

/-- fsm.handleOpen's use of it -/
def handleOpen (c : LocalCfg) (o : Open) : Except OpenErr Nat :=
  validateOpen o c.peerAs c.localAs c.routerId

/-! ### open2Cap -/

def capsOf (code : Nat) (m : List Cap) : List Cap := m.filter (fun c => c.code == code)
def hasCap (code : Nat) (m : List Cap) : Bool := m.any (fun c => c.code == code)

def Cap.apTuples : Cap → List (Family × Nat)
  | .addPath ts => ts
  | _ => []

/-- all ADD-PATH tuples of all ADD-PATH capabilities, in order (the "squash") -/
def allApTuples (caps : List Cap) : List (Family × Nat) := caps.flatMap Cap.apTuples

/-- the capability map open2Cap returns: received capabilities grouped by code, the ADD-PATH
    capabilities replaced by ONE capability carrying all tuples, and a multiprotocol
    IPv4-unicast capability added when the peer sent no multiprotocol capability at all. -/
def open2CapMap (caps : List Cap) : List Cap :=
  let noAp := caps.filter (fun c => c.code != 69)
  let ap := if hasCap 69 caps then [Cap.addPath (allApTuples caps)] else []
  let mp := if hasCap 1 caps then [] else [Cap.mp ipv4uc]
  noAp ++ ap ++ mp

/-- the inner two loops over capMap[ADD_PATH]: the mode of the LAST tuple for `f`, NONE if none -/
def lastMode (f : Family) (ts : List (Family × Nat)) : Nat :=
  ts.foldl (fun acc t => if t.1 = f then t.2 else acc) 0

/-- `remote[family]` of open2Cap -/
def remoteMode (cm : List Cap) (f : Family) : Option Nat :=
  if (capsOf 1 cm).contains (Cap.mp f) then some (lastMode f (allApTuples (capsOf 69 cm))) else none

def AfCfg.mode (a : AfCfg) : Nat :=
  (if a.apRecv then 1 else 0) + (if a.apSendMax > 0 then 2 else 0)

/-- oc.Neighbor.CreateRfMap read at `f`: the last AfiSafi with that family wins -/
def localMode (afs : List AfCfg) (f : Family) : Option Nat :=
  afs.foldl (fun acc a => if a.family = f then some a.mode else acc) none

/-- BGP_ADD_PATH_RECEIVE = 1, BGP_ADD_PATH_SEND = 2 as bits of a uint8 -/
def hasRecv (m : Nat) : Bool := m % 2 == 1
def hasSend (m : Nat) : Bool := (m / 2) % 2 == 1

/-- the body of the `negotiated` loop -/
def negBits (l r : Nat) : Nat :=
  (if hasSend l && hasRecv r then 2 else 0) + (if hasRecv l && hasSend r then 1 else 0)

/-- `negotiated[f]`, `none` when the key is absent -/
def negMode (afs : List AfCfg) (cm : List Cap) (f : Family) : Option Nat :=
  match localMode afs f, remoteMode cm f with
  | some l, some r => some (negBits l r)
  | _, _ => none

/-- the negotiated map as an association list (one entry per configured AfiSafi that the peer
    also has; a repeated family repeats the same entry) -/
def familyMapOf (afs : List AfCfg) (cm : List Cap) : List (Family × Nat) :=
  afs.filterMap (fun a => (negMode afs cm a.family).map (fun m => (a.family, m)))

def fmLookup (fm : List (Family × Nat)) (f : Family) : Option Nat :=
  (fm.find? (fun e => e.1 == f)).map (·.2)

/-! ### capabilitiesFromConfig / buildopen -/

/-- capAddPathFromConfig: the tuples; no capability when there is none -/
def capAddPathFromConfig (c : LocalCfg) : List Cap :=
  let ts := c.afs.filterMap (fun a => if a.mode > 0 then some (a.family, a.mode) else none)
  if ts.isEmpty then [] else [Cap.addPath ts]

/-- the 16 bits the Graceful Restart capability carries are `flags<<12 | time` computed in
    uint16: a configured restart time above 4095 spills into the flag nibble.  These are the
    flags and time a receiver decodes. -/
def grWire (flags time : Nat) : Nat × Nat :=
  let w := (flags * 4096 % 65536) ||| (time % 65536)
  (w / 4096, w % 4096)

/-- the software-version capability: on request, and always towards internal peers -/
def swCaps (c : LocalCfg) : List Cap :=
  if c.sendSwVer || c.cfgInternal then [Cap.other 75] else []

def mpCaps (c : LocalCfg) : List Cap := c.afs.map (fun a => Cap.mp a.family)

/-- the `if c := pConf.GracefulRestart.Config; c.Enabled` block -/
def grCaps (c : LocalCfg) : List Cap :=
  if c.grEnabled then
    let fwd := if c.localRestarting then 128 else 0
    let tuples := if c.grHelperOnly then [] else
      c.afs.filterMap (fun a => if a.mpGr then some (a.family, fwd) else none)
    let ltuples := if c.grHelperOnly then [] else
      c.afs.filterMap (fun a => if a.llgr then some (a.family, fwd, a.llgrTime) else none)
    let flags := (if c.localRestarting then 8 else 0) ||| (if c.grNotif then 4 else 0)
    let w := grWire flags c.grTime
    Cap.gr w.1 w.2 tuples :: (if c.grLlgr then [Cap.llgr ltuples] else [])
  else []

/-- Extended Nexthop: every configured family but IPv6 unicast, next hop AFI 2 -/
def extNhCaps (c : LocalCfg) : List Cap :=
  let ts := c.afs.filterMap (fun a =>
    if a.family = ipv6uc then none else some (a.family / 65536, a.family % 65536, 2))
  if ts.isEmpty then [] else [Cap.extNh ts]

/-- capabilitiesFromConfig (as decoded by the receiver), in the order the code appends them -/
def capsFromConfig (c : LocalCfg) : List Cap :=
  [Cap.other 2, Cap.other 73] ++ swCaps c ++ [Cap.extMsg] ++ mpCaps c ++ [Cap.as4 c.localAs]
    ++ grCaps c ++ extNhCaps c ++ capAddPathFromConfig c

/-- buildopen: one capability parameter; AS_TRANS when the local AS needs 4 octets -/
def buildOpen (c : LocalCfg) : Open :=
  { version := 4
    myAs := if c.localAs > 65535 then asTrans else c.localAs
    hold := c.hold % 65536
    id := c.routerId
    params := [Param.caps (capsFromConfig c)] }

/-! ### stateChange(ESTABLISHED) -/

/-- per-AfiSafi negotiated GR / LLGR state -/
structure AfState where
  mpEnabled  : Bool    -- MpGracefulRestart.State.Enabled
  mpReceived : Bool    -- MpGracefulRestart.State.Received
  eor        : Bool    -- MpGracefulRestart.State.EndOfRibReceived
  llEnabled  : Bool    -- LongLivedGracefulRestart.State.Enabled
  llReceived : Bool
  llPeerTime : Nat
deriving Repr, DecidableEq, Inhabited

/-- what of the fsm / neighbour state the ESTABLISHED branch writes -/
structure PeerState where
  capMap          : List Cap              -- fsm.capMap
  familyMap       : List (Family × Nat)   -- fsm.familyMap
  extMsg          : Bool                  -- fsm.extendedMessage
  twoByteAs       : Bool                  -- fsm.twoByteAsTrans
  isEBGP          : Bool
  isConfed        : Bool
  treatAsWd       : Bool
  hold            : Nat                   -- Timers.State.NegotiatedHoldTime
  ka3             : Nat                   -- Timers.State.KeepaliveInterval, in thirds
  stInternal      : Bool                  -- State.PeerType == INTERNAL
  stPeerAs        : Nat                   -- State.PeerAs
  remoteId        : Nat
  peerRestarting  : Bool                  -- GracefulRestart.State.PeerRestarting (server-owned, read only)
  grEnabled       : Bool                  -- GracefulRestart.State.Enabled
  peerRestartTime : Nat
  notifEnabled    : Bool
  llgrEnabled     : Bool
  afs             : List AfState          -- parallel to LocalCfg.afs
deriving Repr, DecidableEq, Inhabited

/-- newFSM + the State fields SetDefaultNeighborConfigValues fills -/
def initState (c : LocalCfg) : PeerState :=
  { capMap := [], familyMap := [], extMsg := false, twoByteAs := false, isEBGP := false,
    isConfed := false, treatAsWd := false, hold := 0, ka3 := 0, stInternal := c.cfgInternal,
    stPeerAs := c.peerAs, remoteId := 0, peerRestarting := false, grEnabled := false,
    peerRestartTime := 0, notifEnabled := false, llgrEnabled := false,
    afs := c.afs.map (fun a => ⟨a.mpGr, false, false, false, false, 0⟩) }

/-- `for i, a := range conf.AfiSafis { if name(a) == n { …; break } }` -/
def updFirst (f : Family) (upd : AfState → AfState) : List AfCfg → List AfState → List AfState
  | a :: as, s :: ss => if a.family = f then upd s :: ss else s :: updFirst f upd as ss
  | _, ss => ss

def lastGr (l : List Cap) : Option (Nat × Nat × List (Family × Nat)) :=
  match l.getLast? with
  | some (.gr fl t ts) => some (fl, t, ts)
  | _ => none

def lastLlgr (l : List Cap) : Option (List (Family × Nat × Nat)) :=
  match l.getLast? with
  | some (.llgr ts) => some ts
  | _ => none

/-- `cap.Flags & 0x08 != 0` (restart bit) and `cap.Flags & 0x04 > 0` (notification bit) -/
def grRBit (flags : Nat) : Bool := (flags / 8) % 2 == 1
def grNBit (flags : Nat) : Bool := (flags / 4) % 2 == 1

/-- the GR block -/
def grStep (c : LocalCfg) (cm : List Cap) (s : PeerState) : PeerState :=
  match c.grEnabled, lastGr (capsOf 64 cm) with
  | true, some (flags, time, tuples) =>
    -- a tuple of a family the session does not carry (not in the negotiated family map) is skipped
    let afs1 := (tuples.filter (fun t => s.familyMap.any (fun e => e.1 == t.1))).foldl
      (fun afs t => updFirst t.1 (fun x => { x with mpEnabled := true, mpReceived := true }) c.afs afs) s.afs
    let afs2 := if c.localRestarting && grRBit flags then afs1.map (fun x => { x with eor := true }) else afs1
    { s with grEnabled := true, peerRestartTime := time, afs := afs2,
             notifEnabled := if c.grNotif && grNBit flags then true else s.notifEnabled }
  | _, _ => s

/-- the LLGR block (`ok && ok2`: both capabilities present) -/
def llgrStep (c : LocalCfg) (cm : List Cap) (s : PeerState) : PeerState :=
  match c.grLlgr && hasCap 64 cm, lastLlgr (capsOf 71 cm) with
  | true, some tuples =>
    let afs1 := tuples.foldl
      (fun afs t => updFirst t.1
        (fun x => { x with llEnabled := true, llReceived := true, llPeerTime := t.2.2 }) c.afs afs) s.afs
    { s with llgrEnabled := true, afs := afs1 }
  | _, _ => s

/-- the reset of what the previous session negotiated (per AfiSafi): State.Enabled falls back to
    the configuration, everything received from the old peer is forgotten; EndOfRibReceived is
    owned by the server (cleared on every peer-down) and left alone -/
def resetAfs : List AfCfg → List AfState → List AfState
  | a :: as, x :: xs =>
    { x with mpEnabled := a.mpGr, mpReceived := false, llEnabled := false, llReceived := false,
             llPeerTime := 0 } :: resetAfs as xs
  | _, xs => xs

/-- does capabilitiesFromConfig contain a CapFourOctetASNumber (the closure `y`) -/
def localHasAs4 (c : LocalCfg) : Bool := hasCap 65 (capsFromConfig c)

/-- fsm.stateChange(BGP_FSM_ESTABLISHED, _) with fsm.recvOpen = o, on the state the previous
    sessions left behind -/
def stateChange (c : LocalCfg) (s : PeerState) (o : Open) : PeerState :=
  let remoteAS := getASN o
  let stInternal := if c.peerAs = 0 then c.localAs == remoteAS else c.cfgInternal
  let cm := open2CapMap o.caps
  let fm := familyMapOf c.afs cm
  let ext := hasCap 6 cm
  let neg := if o.hold > c.hold then c.hold else o.hold
  let ka := if neg < c.hold then neg else c.ka3
  let s1 : PeerState :=
    { s with stInternal := stInternal, stPeerAs := remoteAS, remoteId := o.id, capMap := cm,
             familyMap := fm, extMsg := ext, hold := neg, ka3 := ka,
             grEnabled := false, peerRestartTime := 0, notifEnabled := false, llgrEnabled := false,
             afs := resetAfs c.afs s.afs }
  let s2 := grStep c cm s1
  let s3 := llgrStep c cm s2
  { s3 with isEBGP := remoteAS != c.localAs,
            isConfed := c.confedMembers.contains remoteAS,
            treatAsWd := c.treatAsWithdraw,
            twoByteAs := if !hasCap 65 cm then true else !localHasAs4 c }

/-- BgpServer.handleFSMMessage, leaving ESTABLISHED: "Always clear EndOfRibReceived state on PeerDown" -/
def peerDown (s : PeerState) : PeerState :=
  { s with afs := s.afs.map (fun x => { x with eor := false }) }

/-- a session: handleOpen, then (if accepted) stateChange -/
def negotiate (c : LocalCfg) (s : PeerState) (o : Open) : Except OpenErr PeerState :=
  match handleOpen c o with
  | .error e => .error e
  | .ok _ => .ok (stateChange c s o)

/-! ### what the receive and send paths hand to the codec -/

/-- BGP message types -/
inductive MsgType where
  | open | update | notification | keepalive | routeRefresh | unknown
deriving Repr, DecidableEq, Inhabited

structure Opts where
  addPath    : List (Family × Nat)
  use2ByteAs : Bool
  extended   : Bool
deriving Repr, DecidableEq

/-- recvMessageWithError: the largest header length accepted for a message type -/
def recvMaxLen (s : PeerState) (t : MsgType) : Nat :=
  if s.extMsg then
    match t with
    | .update | .notification | .routeRefresh => 65535
    | _ => 4096
  else 4096

/-- the MarshallingOption given to ParseBGPBody -/
def recvOpts (s : PeerState) : Opts := ⟨s.familyMap, s.twoByteAs, s.extMsg⟩

/-- sendMessageloop: UPDATEs are down-converted when twoByteAsTrans, then serialised under … -/
def sendOpts (s : PeerState) : Opts := ⟨s.familyMap, s.twoByteAs, s.extMsg⟩

/-- BGPMessage.Serialize's ceiling under `sendOpts` -/
def sendMaxLen (s : PeerState) (t : MsgType) : Nat :=
  if s.extMsg then
    match t with
    | .update | .notification | .routeRefresh => 65535
    | _ => 4096
  else 4096

/-- bgp.IsAddPathEnabled(decode, f, options): how every NLRI parser / serialiser CONSUMES the
    negotiated map — path identifiers are expected when decoding iff the RECEIVE bit of the family's
    negotiated mode is set, written when encoding iff the SEND bit is set (`o[f]` of an absent key is
    BGP_ADD_PATH_NONE) -/
def expectsPathId (opts : Opts) (decode : Bool) (f : Family) : Bool :=
  let m := (fmLookup opts.addPath f).getD 0
  if decode then hasRecv m else hasSend m

/-- BGP_HEADER_LENGTH: every length limit is on the TOTAL message, header included -/
def headerLen : Nat := 19

/-- recvMessageWithError's gate, `hd.Len > maxLen` refuses: `total` is the header's length field,
    i.e. header + body -/
def recvFits (s : PeerState) (t : MsgType) (total : Nat) : Bool := !(total > recvMaxLen s t)

/-- BGPMessage.Serialize's guard, the way the code computes it from the serialised BODY:
    `BGP_HEADER_LENGTH+len(b) > maxLen` refuses (under the options `send` of sendMessageloop passes) -/
def serializeFits (s : PeerState) (t : MsgType) (bodyLen : Nat) : Bool :=
  !(headerLen + bodyLen > sendMaxLen s t)

/-- what sendMessageloop's `send` puts on the wire for a message whose serialisation is `total`
    octets long (header included): the message, or nothing (logged "failed to serialize") -/
def sendWrites (s : PeerState) (t : MsgType) (total : Nat) : Nat :=
  if total < headerLen then 0
  else if serializeFits s t (total - headerLen) then total else 0

/-- fsm.sendNotification serialises WITHOUT options: a NOTIFICATION is never extended, whatever
    was negotiated; an over-long one becomes an empty write -/
def notifWrites (total : Nat) : Nat :=
  if total < headerLen then 0
  else if headerLen + (total - headerLen) > 4096 then 0 else total

/-- keepaliveTicker: `none` = no ticker; float seconds truncated, 0 → 1 s -/
def tickerSecs (s : PeerState) : Option Nat :=
  if s.hold = 0 then none
  else some (if s.ka3 / 3 = 0 then 1 else s.ka3 / 3)

/-- hold timer of openconfirm / established: `none` = never fires -/
def holdTimerSecs (s : PeerState) : Option Nat :=
  if s.hold = 0 then none else some s.hold

end Negotiate
