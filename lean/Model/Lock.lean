/-
C20 (i): an abstract lock machine.

Threads (`Tid`) acquire and release mutexes / RW-mutexes (`LockId`).  Acquisition is split in two
steps, as in `sync.Mutex` / `sync.RWMutex`: a thread first *requests* a lock in a mode (it is then
blocked: it can do nothing else), and the lock is *granted* later when the grant condition holds.
The grant condition is Go's: a writer needs the lock free; a reader needs no writer holding it AND no
writer waiting for it (writer preference: `RWMutex.RLock` blocks behind a pending `Lock`).

`ok l' l` is the lock-order discipline: "a thread holding l' may request l".  The machine only lets a
thread request `l` when `ok l' l` for every lock `l'` it holds.  What the Go code does is tied to `ok`
by the edge list extracted from the source (Model/LockEdges.lean + the C20 harness).

Not modelled: channels, condition variables, goroutine creation (threads are just identifiers; any
number may exist), the scheduler, `TryLock`.
-/
namespace Lock

inductive Mode
  | R | W
  deriving DecidableEq, Repr

abbrev Tid := Nat
abbrev LockId := Nat

structure St where
  /-- `held t l = some m`: thread `t` holds lock `l` in mode `m` -/
  held : Tid → LockId → Option Mode
  /-- `wait t = some (l, m)`: thread `t` is blocked in `l.Lock()` (m = W) / `l.RLock()` (m = R) -/
  wait : Tid → Option (LockId × Mode)

def St.init : St := ⟨fun _ _ => none, fun _ => none⟩

def setWait (s : St) (t : Tid) (w : Option (LockId × Mode)) : St :=
  { s with wait := fun t' => if t' = t then w else s.wait t' }

def setHeld (s : St) (t : Tid) (l : LockId) (m : Option Mode) : St :=
  { s with held := fun t' l' => if t' = t ∧ l' = l then m else s.held t' l' }

/-- grant condition of sync.Mutex (mode W only) and sync.RWMutex with writer preference -/
def grantable (s : St) (t : Tid) (l : LockId) : Mode → Prop
  | .W => ∀ t', s.held t' l = none
  | .R => (∀ t', s.held t' l ≠ some .W) ∧ (∀ t', t' ≠ t → s.wait t' ≠ some (l, .W))

inductive Step (ok : LockId → LockId → Prop) : St → St → Prop
  /-- `l.Lock()` / `l.RLock()` is called: only allowed by the discipline `ok` -/
  | request (s : St) (t : Tid) (l : LockId) (m : Mode) :
      s.wait t = none → (∀ l', (s.held t l').isSome → ok l' l) →
      Step ok s (setWait s t (some (l, m)))
  /-- the call returns -/
  | grant (s : St) (t : Tid) (l : LockId) (m : Mode) :
      s.wait t = some (l, m) → grantable s t l m →
      Step ok s (setHeld (setWait s t none) t l (some m))
  /-- `l.Unlock()` / `l.RUnlock()` by a running (not blocked) thread -/
  | release (s : St) (t : Tid) (l : LockId) :
      s.wait t = none → (s.held t l).isSome →
      Step ok s (setHeld s t l none)

inductive Reachable (ok : LockId → LockId → Prop) : St → Prop
  | init : Reachable ok St.init
  | step {s s' : St} : Reachable ok s → Step ok s s' → Reachable ok s'

/-- `t` cannot proceed before `t'` does something: `t` is blocked on a lock that `t'` holds, or `t` is
a blocked reader queued behind the blocked writer `t'` (writer preference). -/
def waitsFor (s : St) (t t' : Tid) : Prop :=
  ∃ l m, s.wait t = some (l, m) ∧ ((s.held t' l).isSome ∨ (m = .R ∧ s.wait t' = some (l, .W)))

/-- non-empty paths of a relation (transitive closure) -/
inductive Path {α : Type} (r : α → α → Prop) : α → α → Prop
  | single {a b : α} : r a b → Path r a b
  | cons {a b c : α} : r a b → Path r b c → Path r a c

/-- a deadlock: a cycle of threads each waiting for the next -/
def Deadlocked (s : St) : Prop := ∃ t, Path (waitsFor s) t t

end Lock
