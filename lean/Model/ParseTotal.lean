/-
  C05 — no byte string can crash, hang or over-read the BGP message parser.

  Two additions to the byte models already in the tree (Model/Wire.lean = C04, strict decoder;
  Model/UpdateWire.lean + Model/ErrHandling.lean = C06, error classes):

  A. the LENIENT parser: `ParseBGPMessage` as the daemon uses it — an UPDATE is handed back TOGETHER
     with a non-fatal error (attribute-discard / treat-as-withdraw class); discard-class attributes are
     dropped, every other faulty attribute stays in `PathAttributes` HALF-decoded (header fields set,
     value left at the Go zero value).  Mirrors BGPUpdate.DecodeFromBytes (bgp.go) branch for branch,
     on top of `Wire.decAttrHdr / decVal / decWithdrawn / decNlriTail` (imported, not copied), plus what
     `Serialize` / `Len` do with such a value.

  B. OPEN + optional parameters + capability TLVs (BGPOpen.DecodeFromBytes,
     OptionParameterCapability.DecodeFromBytes, DecodeCapability and every Cap*.DecodeFromBytes) written
     with CHECKED indexing: `idx`/`slice`/`be16At` answer `panic` exactly where the Go expression
     `d[i]`, `d[a:b]`, `binary.BigEndian.Uint16(d[i:])` would raise a run-time panic.  "The decoder's
     own length tests make every index expression safe" is then a theorem (Props/C05 `open_no_panic`).

  Core Lean only.
-/
import Model.Wire
import Model.ErrHandling
namespace PTot
open Wire

/-! ## A. lenient UPDATE / message parser -/

/-- an element of `BGPUpdate.PathAttributes` after a lenient decode -/
inductive LAttr where
  | full (a : Attr)
  /-- DecodeFromBytes returned an error after PathAttribute.DecodeFromBytes had filled in
      Flags/Type/Length: the typed fields still hold the zero value -/
  | half (flags typ length : Nat)
deriving Repr, DecidableEq

/-- value octets the typed `Serialize` hands to PathAttribute.Serialize for the ZERO value of the Go
    struct GetPathAttribute picked for `typ` (ORIGIN: one 0 octet; MED / LOCAL_PREF / ORIGINATOR_ID:
    4 zero octets; AS4_AGGREGATOR: 8 zero octets; AGGREGATOR with Askind 0, nil slices, invalid
    netip.Addr: nothing) -/
def halfBytes (typ : Nat) : Bytes :=
  if typ = 1 then [0]
  else if typ = 4 || typ = 5 || typ = 9 then [0, 0, 0, 0]
  else if typ = 18 then [0, 0, 0, 0, 0, 0, 0, 0]
  else []

/-- PathAttributeX.Serialize -/
def LAttr.enc : LAttr → Bytes
  | .full a => encAttr a
  | .half f t _ => encAttrHdr f t (halfBytes t)

/-- PathAttribute.Len (from the cached Flags / Length) -/
def LAttr.len : LAttr → Nat
  | .full a => attrLen a
  | .half f _ l => (if hasBit f FLAG_EXT then 4 else 3) + l

def encLAttrs : List LAttr → Bytes
  | [] => []
  | a :: as => a.enc ++ encLAttrs as

/-- result of GetPathAttribute + p.DecodeFromBytes on the head of `data` -/
inductive AttrRes where
  | ok (a : Attr)
  /-- error (code, sub); the struct as the decoder left it -/
  | bad (flags typ length code sub : Nat)
  | unmodelled
deriving Repr, DecidableEq

/-- (code, subcode) of the error each modelled typed decoder returns for a value it refuses -/
def valErr (typ : Nat) : Nat × Nat :=
  if typ = 1 || typ = 18 then (3, 1)
  else if typ = 2 || typ = 17 then (3, 11)
  else (3, 5)

/-- GetPathAttribute(data) + p.DecodeFromBytes(data): PathAttribute.DecodeFromBytes (header, with what
    it has already stored when it fails) followed by the typed part `Wire.decVal`.  `data` has ≥ 2 octets. -/
def decAttrL (o : Opts) (data : Bytes) : AttrRes :=
  let flags := data.getD 0 0
  let typ := data.getD 1 0
  if hasBit flags FLAG_EXT && data.length < 4 then .bad flags typ 0 3 5
  else if !hasBit flags FLAG_EXT && data.length < 3 then .bad flags typ 0 3 5
  else
    let length := if hasBit flags FLAG_EXT then rd16 (data.drop 2) else data.getD 2 0
    let rest := data.drop (if hasBit flags FLAG_EXT then 4 else 3)
    if rest.length < length then .bad flags typ length 3 5
    else if !validateFlags typ flags then .bad flags typ length 3 4
    else
      match decVal o typ length (rest.take length) with
      | none => .unmodelled
      | some none => .bad flags typ length (valErr typ).1 (valErr typ).2
      | some (some v) => .ok ⟨flags, typ, length, v⟩

/-- the error object the UPDATE loop makes of an attribute error: flags error ⇒ TREAT_AS_WITHDRAW,
    otherwise getErrorHandlingFromPathAttribute(type) -/
def attrErr (typ code sub : Nat) : ErrH.MErr :=
  ⟨code, sub, if sub = 4 then .withdraw else ErrH.attrClass typ⟩

inductive LoopRes where
  /-- PathAttributes, strongest error, the data slice after the attribute field -/
  | ok (attrs : List LAttr) (err : Option ErrH.MErr) (rest : Bytes)
  | fatal
  | unmodelled
deriving Repr

/-- the path-attribute loop of BGPUpdate.DecodeFromBytes.
    `fuel` bounds the iterations (every one takes ≥ 3 off `pathlen`); `cur` = strongestError. -/
def decAttrsL (o : Opts) : Nat → Nat → Bytes → Option ErrH.MErr → LoopRes
  | 0, _, data, cur => .ok [] cur data
  | fuel + 1, pathlen, data, cur =>
    if pathlen = 0 then .ok [] cur data
    else if pathlen < 3 then .ok [] (ErrH.keep cur ErrH.lenErr) (data.drop pathlen)
    else if data.length < 2 then .fatal
    else
      match decAttrL o data with
      | .unmodelled => .unmodelled
      | .ok a =>
        if attrLen a % 65536 > pathlen || data.length < attrLen a then
          .ok [] (ErrH.keep cur ErrH.lenErr) (data.drop pathlen)
        else
          match decAttrsL o fuel (pathlen - attrLen a % 65536) (data.drop (attrLen a)) cur with
          | .ok as e rest => .ok (.full a :: as) e rest
          | r => r
      | .bad f t l c s =>
        let e := attrErr t c s
        let cur' := ErrH.keep cur e
        let p : LAttr := .half f t l
        if p.len % 65536 > pathlen || data.length < p.len then
          .ok [] (ErrH.keep cur' ErrH.lenErr) (data.drop pathlen)
        else
          match decAttrsL o fuel (pathlen - p.len % 65536) (data.drop p.len) cur' with
          | .ok as e' rest => .ok (if e.h = .discard then as else p :: as) e' rest
          | r => r

/-- BGPUpdate after a lenient decode -/
structure LUpdate where
  wlen      : Nat
  withdrawn : List PathNLRI
  palen     : Nat
  attrs     : List LAttr
  nlri      : List PathNLRI
deriving Repr

inductive LBody where
  | update (u : LUpdate)
  | other (b : Body)        -- NOTIFICATION / KEEPALIVE / ROUTE-REFRESH exactly as in Wire
deriving Repr

structure LMsg where
  hlen : Nat
  typ  : Nat
  body : LBody
deriving Repr

inductive LRes where
  /-- a message is handed back; `err` is the non-fatal error returned with it (none = clean) -/
  | msg (m : LMsg) (err : Option ErrH.MErr)
  /-- fatal (session-reset class) error -/
  | reject
  | unmodelled
deriving Repr

/-- BGPUpdate.DecodeFromBytes, lenient -/
def decUpdateL (o : Opts) (data : Bytes) : Option (Option (LUpdate × Option ErrH.MErr)) :=
  -- outer none = unmodelled, inner none = fatal
  if data.length < 2 then some none
  else
    let wlen := rd16 data
    let data1 := data.drop 2
    if data1.length < wlen then some none
    else
      match decWithdrawn o.apRx wlen wlen data1 with
      | none => some none
      | some (ws, data2) =>
        if data2.length < 2 then some none
        else
          let palen := rd16 data2
          let data3 := data2.drop 2
          if data3.length < palen then some none
          else
            match decAttrsL o palen palen data3 none with
            | .fatal => some none
            | .unmodelled => none
            | .ok as e data4 =>
              match decNlriTail o.apRx data4.length data4 with
              | none => some none
              | some ns => some (some (⟨wlen, ws, palen, as, ns⟩, e))

/-- ParseBGPMessage, lenient: header exactly as `Wire.parse`, body on data[19:Len] -/
def parseL (o : Opts) (data : Bytes) : LRes :=
  if data.length % 65536 < 19 then .reject
  else if data.take 16 ≠ marker then .reject
  else
    let len := rd16 (data.drop 16)
    if len < 19 then .reject
    else
      let typ := data.getD 18 0
      if len > data.length then .reject
      else
        let body := (data.take len).drop 19
        if typ = 2 then
          match decUpdateL o body with
          | none => .unmodelled
          | some none => .reject
          | some (some (u, e)) => .msg ⟨len, typ, .update u⟩ e
        else
          match decBody o typ body with
          | .ok b => .msg ⟨len, typ, .other b⟩ none
          | .reject => .reject
          | .unmodelled => .unmodelled

/-- BGPUpdate.Serialize on a leniently decoded UPDATE -/
def encUpdateL (o : Opts) (u : LUpdate) : Bytes :=
  be16 (encNlris o.apTx u.withdrawn).length ++ encNlris o.apTx u.withdrawn ++
  (be16 (encLAttrs u.attrs).length ++ encLAttrs u.attrs) ++ encNlris o.apTx u.nlri

def encBodyL (o : Opts) : LBody → Bytes
  | .update u => encUpdateL o u
  | .other b => encBody o b

/-- BGPMessage.Serialize: `none` = "too long message length" (only when Header.Len = 0) -/
def serializeL (o : Opts) (m : LMsg) : Option Bytes :=
  let b := encBodyL o m.body
  if m.hlen = 0 then
    if 19 + b.length > maxLen o m.typ then none
    else some (encHeader (19 + b.length) m.typ ++ b)
  else some (encHeader m.hlen m.typ ++ b)

/-! ## B. OPEN, optional parameters, capabilities — with checked indexing -/

inductive PErr where
  | reject     -- the decoder returned an error
  | panic      -- a Go index / slice expression out of range
deriving Repr, DecidableEq

abbrev PM := Except PErr

/-- `d[i]` -/
def idx (d : Bytes) (i : Nat) : PM Nat :=
  if i < d.length then .ok (d.getD i 0) else .error .panic

/-- `d[a:b]` (bounded by len, as for a slice whose capacity equals its length) -/
def slice (d : Bytes) (a b : Nat) : PM Bytes :=
  if a ≤ b ∧ b ≤ d.length then .ok ((d.take b).drop a) else .error .panic

/-- `d[a:]` -/
def sliceFrom (d : Bytes) (a : Nat) : PM Bytes :=
  if a ≤ d.length then .ok (d.drop a) else .error .panic

/-- `binary.BigEndian.Uint16(d)` : panics unless len(d) ≥ 2 -/
def be16At (d : Bytes) : PM Nat :=
  if 2 ≤ d.length then .ok (rd16 d) else .error .panic

/-- `binary.BigEndian.Uint32(d)` -/
def be32At (d : Bytes) : PM Nat :=
  if 4 ≤ d.length then .ok (rd32 d) else .error .panic

/-- a decoded capability: code, CapLen, and the typed fields flattened in declaration order -/
structure Cap where
  code   : Nat
  len    : Nat
  fields : List Nat
deriving Repr, DecidableEq

/-- DefaultParameterCapability.DecodeFromBytes: (CapCode, CapLen, CapValue) -/
def decCapDefault (d : Bytes) : PM (Nat × Nat × Bytes) := do
  if d.length < 2 then throw .reject
  let code ← idx d 0
  let len ← idx d 1
  if d.length < 2 + len then throw .reject
  let v ← if len > 0 then slice d 2 (2 + len) else pure []
  pure (code, len, v)

/-- the `for capLen >= w { … data = data[w:]; capLen -= w }` loops of CapExtendedNexthop (w = 6,
    three 16-bit fields) and CapAddPath (w = 4: AFI, SAFI octet, mode octet) -/
def capTuples6 : Nat → Nat → Bytes → PM (List Nat)
  | 0, _, _ => pure []
  | fuel + 1, capLen, d =>
    if capLen < 6 then pure []
    else do
      let a ← slice d 0 2 >>= be16At
      let b ← slice d 2 4 >>= be16At
      let c ← slice d 4 6 >>= be16At
      let d' ← sliceFrom d 6
      let r ← capTuples6 fuel (capLen - 6) d'
      pure (a :: b :: c :: r)

def capTuples4 : Nat → Nat → Bytes → PM (List Nat)
  | 0, _, _ => pure []
  | fuel + 1, capLen, d =>
    if capLen < 4 then pure []
    else do
      let a ← slice d 0 2 >>= be16At
      let b ← idx d 2
      let c ← idx d 3
      let d' ← sliceFrom d 4
      let r ← capTuples4 fuel (capLen - 4) d'
      pure (a :: b :: c :: r)

/-- CapLongLivedGracefulRestart: `for i := valueLen; i >= 7; i -= 7` -/
def capTuples7 : Nat → Nat → Bytes → PM (List Nat)
  | 0, _, _ => pure []
  | fuel + 1, i, d =>
    if i < 7 then pure []
    else do
      let afi ← be16At d
      let safi ← idx d 2
      let fl ← idx d 3
      let t0 ← idx d 4
      let t1 ← idx d 5
      let t2 ← idx d 6
      let d' ← sliceFrom d 7
      let r ← capTuples7 fuel (i - 7) d'
      pure (afi :: safi :: fl :: ((t0 * 256 + t1) * 256 + t2) :: r)

/-- DecodeCapability: the switch on data[0] and each Cap*.DecodeFromBytes -/
def decCap (d : Bytes) : PM Cap := do
  if d.length < 2 then throw .reject
  let c0 ← idx d 0
  let (code, len, v) ← decCapDefault d
  if c0 = 1 then            -- CapMultiProtocol
    if len ≠ 4 then throw .reject
    let afi ← slice v 0 2 >>= be16At
    let safi ← idx v 3
    pure ⟨code, len, [afi, safi]⟩
  else if c0 = 5 then       -- CapExtendedNexthop
    let d2 ← sliceFrom d 2
    if len % 6 ≠ 0 || len < 6 || d2.length < len then throw .reject
    let f ← capTuples6 len len d2
    pure ⟨code, len, f⟩
  else if c0 = 64 then      -- CapGracefulRestart
    if len < 2 then throw .reject
    let restart ← slice v 0 2 >>= be16At
    let v2 ← sliceFrom v 2
    let valueLen := len - 2
    let f ← if valueLen ≥ 4 && v2.length ≥ valueLen then capTuples4 valueLen valueLen v2 else pure []
    pure ⟨code, len, (restart / 4096) :: (restart % 4096) :: f⟩
  else if c0 = 65 then      -- CapFourOctetASNumber
    if len ≠ 4 then throw .reject
    let as ← be32At v
    pure ⟨code, len, [as]⟩
  else if c0 = 69 then      -- CapAddPath
    let d2 ← sliceFrom d 2
    if len % 4 ≠ 0 || len < 4 || d2.length < len then throw .reject
    let f ← capTuples4 len len d2
    pure ⟨code, len, f⟩
  else if c0 = 71 then      -- CapLongLivedGracefulRestart
    let d2 ← sliceFrom d 2
    if len % 7 ≠ 0 || d2.length < len then throw .reject
    let f ← capTuples7 len len d2
    pure ⟨code, len, f⟩
  else if c0 = 73 then      -- CapFQDN (strings rendered as their octets)
    if v.length < 1 then throw .reject
    let hl ← idx v 0
    if v.length < 1 + hl + 1 then throw .reject
    let host ← slice v 1 (hl + 1)
    let dl ← idx v (hl + 1)
    if v.length < 1 + hl + 1 + dl then throw .reject
    let dom ← slice v (hl + 2) (hl + 2 + dl)
    pure ⟨code, len, hl :: host ++ dl :: dom⟩
  else if c0 = 75 then      -- CapSoftwareVersion
    if v.length < 2 then throw .reject
    let sl ← idx v 0
    let tail ← sliceFrom v 1
    if tail.length < sl || sl > 64 || sl = 0 then throw .reject
    let s ← slice v 1 (1 + sl)
    pure ⟨code, len, sl :: s⟩
  else                      -- route refresh (2, 128), label info, extended message, enhanced RR, unknown
    pure ⟨code, len, v⟩

/-- OptionParameterCapability.DecodeFromBytes: `for len(data) >= 2 { DecodeCapability; data = data[c.Len():] }`
    (c.Len() = CapLen + 2 ≥ 2: the `c.Len() == 0` test never fires) -/
def decCaps : Nat → Bytes → PM (List Cap)
  | 0, _ => pure []
  | fuel + 1, d =>
    if d.length < 2 then pure []
    else do
      let c ← decCap d
      if c.len + 2 = 0 || d.length < c.len + 2 then throw .reject
      let d' ← sliceFrom d (c.len + 2)
      let r ← decCaps fuel d'
      pure (c :: r)

inductive OptParam where
  | caps (ptype plen : Nat) (cs : List Cap)
  | unknown (ptype plen : Nat) (value : Bytes)
deriving Repr, DecidableEq

/-- the optional-parameter loop of BGPOpen.DecodeFromBytes: `rest` is a uint8 counter -/
def decOptParams : Nat → Nat → Bytes → PM (List OptParam)
  | 0, _, _ => pure []
  | fuel + 1, rest, d =>
    if rest = 0 then pure []
    else if rest < 2 then throw .reject
    else do
      let ptype ← idx d 0
      let plen ← idx d 1
      -- plen < 254, so the uint8 sum paramlen+2 cannot wrap
      if plen ≥ 254 || rest < plen + 2 then throw .reject
      let rest' := rest - (plen + 2)
      let pv ← slice d 2 (2 + plen)
      let p ← if ptype = 2 then do
                 -- `uint8(len(data)) < o.ParamLen` cannot hold here: len(data) = ParamLen < 254
                 let cs ← decCaps pv.length pv
                 pure (OptParam.caps ptype plen cs)
               else pure (OptParam.unknown ptype plen pv)
      let d' ← sliceFrom d (2 + plen)
      let r ← decOptParams fuel rest' d'
      pure (p :: r)

structure Open where
  version : Nat
  myAS    : Nat
  hold    : Nat
  id      : Nat
  optLen  : Nat
  params  : List OptParam
deriving Repr, DecidableEq

/-- BGPOpen.DecodeFromBytes -/
def decOpen (d : Bytes) : PM Open := do
  if d.length < 10 then throw .reject
  let ver ← idx d 0
  let as ← slice d 1 3 >>= be16At
  let hold ← slice d 3 5 >>= be16At
  let id ← slice d 5 9 >>= be32At
  let optLen ← idx d 9
  let d' ← sliceFrom d 10
  if d'.length < optLen then throw .reject
  let ps ← decOptParams optLen optLen d'
  pure ⟨ver, as, hold, id, optLen, ps⟩

/-- ParseBGPMessage for an OPEN: header as `Wire.parse`, then BGPOpen.DecodeFromBytes on data[19:Len] -/
def parseOpen (data : Bytes) : PM Open :=
  if data.length % 65536 < 19 then .error .reject
  else if data.take 16 ≠ marker then .error .reject
  else
    let len := rd16 (data.drop 16)
    if len < 19 then .error .reject
    else if data.getD 18 0 ≠ 1 then .error .reject
    else if len > data.length then .error .reject
    else decOpen ((data.take len).drop 19)

/-! ## C. the receive path: how many octets fsm.go `recvMessageWithError` reads after the 19-octet header -/

/-- `recvMessageWithError` (pkg/server/fsm.go): BGPHeader.DecodeFromBytes on the 19 octets read first, then
    the cap (4096; 65535 for UPDATE / NOTIFICATION / ROUTE-REFRESH once the extended-message capability is
    negotiated).  `none` = header error (the session is reset, no further octet is read);
    `some n` = exactly `n = Header.Len - 19` further octets are read and handed to ParseBGPBody. -/
def recvBodyLen (extNegotiated : Bool) (hdr : Bytes) : Option Nat :=
  if hdr.length % 65536 < 19 then none
  else if hdr.take 16 ≠ marker then none
  else
    let len := rd16 (hdr.drop 16)
    if len < 19 then none
    else if len > maxLen ⟨false, false, false, extNegotiated⟩ (hdr.getD 18 0) then none
    else some (len - 19)

/-! ## D. the receive-path bound across sessions: `fsm.extendedMessage` is per session -/

/-- does the OPEN carry capability `code` in any capability parameter (fsm.go `open2Cap`: capMap[code] present) -/
def openHasCap (code : Nat) (o : Open) : Bool :=
  o.params.any fun p =>
    match p with
    | .caps _ _ cs => cs.any fun c => c.code == code
    | .unknown _ _ _ => false

/-- what `fsm.stateChange(BGP_FSM_ESTABLISHED)` stores in `fsm.extendedMessage` for the session being
    established: gobgp always advertises the Extended Message capability (capabilitiesFromConfig), so the
    negotiation result is whether the PEER's OPEN of THIS session carries capability 6 — nothing else of the
    OPEN (4-octet AS, graceful restart, …) and nothing of earlier sessions enters. -/
def sessionExt (peerOpen : Open) : Bool := openHasCap 6 peerOpen

/-- the flag after a history of sessions on one fsm, oldest first: every ESTABLISHED overwrites it -/
def extAfter : Bool → List Open → Bool
  | f, [] => f
  | _, o :: rest => extAfter (sessionExt o) rest

/-- `recvMessageWithError` in the session established last, after the sessions `hist` before it -/
def recvBodyLenSess (init : Bool) (hist : List Open) (cur : Open) (hdr : Bytes) : Option Nat :=
  recvBodyLen (extAfter init (hist ++ [cur])) hdr

end PTot
