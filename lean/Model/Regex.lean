/-
C13 — regular expressions: the fragment of Go's `regexp` (RE2, Perl flags) syntax that community
patterns are written in, a lexer + parser for it, and an executable matcher with the
unanchored-search semantics of `regexp.MatchString`.

Texts and patterns are lists of byte values (`List Nat`); the fragment is printable ASCII.

What is mirrored (regexp/syntax/parse.go, as far as the boolean "is there a match" goes):
  * literals, `.`, `^`, `$` (one-line mode: begin/end of TEXT), `\d \D \w \W \s \S`, `\<punct>`,
    classes `[...]`/`[^...]` of single characters, ranges `a-b`, `\d \w \s`, `\<punct>`,
    groups `( )` and `(?: )`, alternation, `* + ?`, `{m} {m,} {m,n}`, each optionally lazy (`?`);
  * the errors Go reports inside that fragment: stacked repetition (`a**`), repetition without an
    argument (`*a`, `(*`, `|*`), repeat count > 1000 or min > max, unbalanced parentheses, reversed
    class range, trailing backslash, unterminated class.
Everything else (flags `(?i)`, named groups, `\b \A \z \Q \p{..} \x..`, `[[:alpha:]]`, a `{` that is
not a well-formed repeat, bare `]` `}` , non-ASCII) is OUTSIDE the fragment: the lexer answers `nofrag`.
Not mirrored: Go's limit on the product of nested repeat counts (> 1000 → error).
-/
namespace Regex

/-- three-valued result: parsed / Go rejects the pattern / outside the modelled fragment -/
inductive Res (α : Type) where
  | ok (a : α)
  | err
  | nofrag
deriving Repr

/-- character set: a list of inclusive ranges, possibly negated -/
structure CS where
  neg : Bool
  rs  : List (Nat × Nat)
deriving Repr

def inRanges (rs : List (Nat × Nat)) (c : Nat) : Bool := rs.any (fun r => r.1 ≤ c && c ≤ r.2)

def CS.mem (s : CS) (c : Nat) : Bool := s.neg != inRanges s.rs c

/-- regular expressions over bytes with the two text anchors -/
inductive R where
  | eps
  | chr (s : CS)
  | bot            -- `^`  (begin of text)
  | eot            -- `$`  (end of text)
  | cat (a b : R)
  | alt (a b : R)
  | star (a : R)
deriving Repr

def lit (c : Nat) : R := .chr ⟨false, [(c, c)]⟩

/-! ## matcher: set of end positions of matches of `r` in text `t` starting at position `i` -/

/-- iterate `f` (one more repetition, non-empty) at most `fuel` times; positions only grow, so
`fuel = |t|` is never exhausted -/
def starEnds (f : Nat → List Nat) : Nat → Nat → List Nat
  | 0, i => [i]
  | fuel + 1, i => i :: (((f i).filter (fun k => i < k)).flatMap (fun k => starEnds f fuel k)).eraseDups

def ends (t : List Nat) : R → Nat → List Nat
  | .eps, i => [i]
  | .chr s, i => match t[i]? with
      | some c => if s.mem c then [i + 1] else []
      | none => []
  | .bot, i => if i = 0 then [i] else []
  | .eot, i => if i = t.length then [i] else []
  | .cat a b, i => ((ends t a i).flatMap (fun k => ends t b k)).eraseDups
  | .alt a b, i => ends t a i ++ ends t b i
  | .star a, i => starEnds (fun k => ends t a k) t.length i

/-- `regexp.MatchString`: is there a match starting anywhere -/
def search (r : R) (t : List Nat) : Bool :=
  (List.range (t.length + 1)).any (fun i => !(ends t r i).isEmpty)

/-! ## lexer -/

inductive Tok where
  | atom (r : R)
  | lpar | rpar | bar
  | star | plus | quest
  | rep (m : Nat) (n : Option Nat)      -- `{m}` = rep m (some m), `{m,}` = rep m none
deriving Repr

inductive Mode where
  | normal
  | esc                         -- after `\`
  | paren                       -- just after `(` (token already emitted): a `?` starts `(?:`
  | parenQ                      -- after `(?`
  | quant                       -- just after a repetition operator: a `?` (lazy) is absorbed
  | brace1 (m : Option Nat)     -- after `{`, reading the minimum
  | brace2 (m : Nat) (n : Option Nat)   -- after `{m,`
  | cls0                        -- just after `[`
  | cls (neg : Bool) (acc : List (Nat × Nat)) (pend : Option Nat) (dash : Bool)
  | clsEsc (neg : Bool) (acc : List (Nat × Nat)) (pend : Option Nat) (dash : Bool)
deriving Repr

def isDigit (c : Nat) : Bool := 48 ≤ c && c ≤ 57
def isAlnum (c : Nat) : Bool := isDigit c || (65 ≤ c && c ≤ 90) || (97 ≤ c && c ≤ 122)
def isPrint (c : Nat) : Bool := 32 ≤ c && c ≤ 126
def isPunct (c : Nat) : Bool := isPrint c && !isAlnum c

def digitRs : List (Nat × Nat) := [(48, 57)]
def wordRs : List (Nat × Nat) := [(48, 57), (65, 90), (95, 95), (97, 122)]
def spaceRs : List (Nat × Nat) := [(9, 10), (12, 13), (32, 32)]

def flush (acc : List (Nat × Nat)) (pend : Option Nat) : List (Nat × Nat) :=
  match pend with
  | some p => acc ++ [(p, p)]
  | none => acc

/-- one character in `normal` mode -/
def stepNormal (c : Nat) : Res (Mode × List Tok) :=
  if c = 92 then .ok (.esc, [])                     -- \
  else if c = 40 then .ok (.paren, [.lpar])         -- (
  else if c = 41 then .ok (.normal, [.rpar])        -- )
  else if c = 124 then .ok (.normal, [.bar])        -- |
  else if c = 42 then .ok (.quant, [.star])         -- *
  else if c = 43 then .ok (.quant, [.plus])         -- +
  else if c = 63 then .ok (.quant, [.quest])        -- ?
  else if c = 123 then .ok (.brace1 none, [])       -- {
  else if c = 91 then .ok (.cls0, [])               -- [
  else if c = 46 then .ok (.normal, [.atom (.chr ⟨true, [(10, 10)]⟩)])   -- .
  else if c = 94 then .ok (.normal, [.atom .bot])   -- ^
  else if c = 36 then .ok (.normal, [.atom .eot])   -- $
  else if c = 93 || c = 125 then .nofrag            -- ] }
  else if isPrint c then .ok (.normal, [.atom (lit c)])
  else .nofrag

def stepEsc (c : Nat) : Res (Mode × List Tok) :=
  if c = 100 then .ok (.normal, [.atom (.chr ⟨false, digitRs⟩)])        -- \d
  else if c = 68 then .ok (.normal, [.atom (.chr ⟨true, digitRs⟩)])     -- \D
  else if c = 119 then .ok (.normal, [.atom (.chr ⟨false, wordRs⟩)])    -- \w
  else if c = 87 then .ok (.normal, [.atom (.chr ⟨true, wordRs⟩)])      -- \W
  else if c = 115 then .ok (.normal, [.atom (.chr ⟨false, spaceRs⟩)])   -- \s
  else if c = 83 then .ok (.normal, [.atom (.chr ⟨true, spaceRs⟩)])     -- \S
  else if isPunct c then .ok (.normal, [.atom (lit c)])
  else .nofrag

/-- append a decimal digit to a repeat count; Go's parseInt refuses leading zeros -/
def pushDigit (m : Option Nat) (c : Nat) : Option (Option Nat) :=
  match m with
  | none => some (some (c - 48))
  | some 0 => none
  | some k => some (some (k * 10 + (c - 48)))

/-- one class item (a plain character `c`) in class mode -/
def clsChar (neg : Bool) (acc : List (Nat × Nat)) (pend : Option Nat) (dash : Bool) (c : Nat) :
    Res (Mode × List Tok) :=
  if dash then
    match pend with
    | some p => if p ≤ c then .ok (.cls neg (acc ++ [(p, c)]) none false, []) else .err
    | none => .nofrag
  else .ok (.cls neg (flush acc pend) (some c) false, [])

def stepCls (neg : Bool) (acc : List (Nat × Nat)) (pend : Option Nat) (dash : Bool) (c : Nat) :
    Res (Mode × List Tok) :=
  if c = 93 then                                                   -- ]
    if dash then .nofrag
    else if acc.isEmpty && pend.isNone then .nofrag
    else .ok (.normal, [.atom (.chr ⟨neg, flush acc pend⟩)])
  else if c = 92 then .ok (.clsEsc neg acc pend dash, [])          -- \
  else if c = 45 then                                              -- -
    if pend.isSome && !dash then .ok (.cls neg acc pend true, []) else .nofrag
  else if c = 91 || c = 94 then .nofrag                            -- [ ^
  else if isPrint c then clsChar neg acc pend dash c
  else .nofrag

def stepClsEsc (neg : Bool) (acc : List (Nat × Nat)) (pend : Option Nat) (dash : Bool) (c : Nat) :
    Res (Mode × List Tok) :=
  if c = 100 || c = 119 || c = 115 then
    if dash then .nofrag
    else
      let rs := if c = 100 then digitRs else if c = 119 then wordRs else spaceRs
      .ok (.cls neg (flush acc pend ++ rs) none false, [])
  else if isPunct c then clsChar neg acc pend dash c
  else .nofrag

def stepM (m : Mode) (c : Nat) : Res (Mode × List Tok) :=
  match m with
  | .normal => stepNormal c
  | .esc => stepEsc c
  | .paren => if c = 63 then .ok (.parenQ, []) else stepNormal c
  | .parenQ => if c = 58 then .ok (.normal, []) else .nofrag
  | .quant => if c = 63 then .ok (.normal, []) else stepNormal c
  | .brace1 m =>
    if isDigit c then
      match pushDigit m c with
      | some m' => .ok (.brace1 m', [])
      | none => .nofrag
    else if c = 44 then
      match m with
      | some k => .ok (.brace2 k none, [])
      | none => .nofrag
    else if c = 125 then
      match m with
      | some k => .ok (.quant, [.rep k (some k)])
      | none => .nofrag
    else .nofrag
  | .brace2 k n =>
    if isDigit c then
      match pushDigit n c with
      | some n' => .ok (.brace2 k n', [])
      | none => .nofrag
    else if c = 125 then .ok (.quant, [.rep k n])
    else .nofrag
  | .cls0 => if c = 94 then .ok (.cls true [] none false, []) else stepCls false [] none false c
  | .cls neg acc pend dash => stepCls neg acc pend dash c
  | .clsEsc neg acc pend dash => stepClsEsc neg acc pend dash c

/-- what the end of the pattern means in each mode -/
def lexEnd (m : Mode) : Res (List Tok) :=
  match m with
  | .normal | .paren | .quant => .ok []
  | .brace1 _ | .brace2 _ _ => .nofrag        -- Go: the `{` was a literal
  | _ => .err                                  -- trailing `\`, `(?`, missing `]`

def lexGo : Mode → List Nat → Res (List Tok)
  | m, [] => lexEnd m
  | m, c :: cs =>
    match stepM m c with
    | .ok (m', ts) =>
      match lexGo m' cs with
      | .ok rest => .ok (ts ++ rest)
      | .err => .err
      | .nofrag => .nofrag
    | .err => .err
    | .nofrag => .nofrag

def lex (s : List Nat) : Res (List Tok) := lexGo .normal s

/-! ## parser (Go's operator stack, one frame per open parenthesis) -/

/-- a frame: the alternatives already closed by `|` and the current concatenation (reversed) -/
structure Frame where
  alts : Option R
  cur  : List R
deriving Repr

structure PSt where
  stack   : List Frame
  top     : Frame
  justRep : Bool
deriving Repr

def catList : List R → R
  | [] => .eps
  | a :: l => .cat a (catList l)

def Frame.close (f : Frame) : R :=
  match f.alts with
  | none => catList f.cur.reverse
  | some a => .alt a (catList f.cur.reverse)

def repN (a : R) : Nat → R
  | 0 => .eps
  | k + 1 => .cat a (repN a k)

def opt (a : R) : R := .alt a .eps

/-- the operand transformer of a repetition token; `none` = Go's "bad repetition size" -/
def quantOf : Tok → Option (R → R)
  | .star => some .star
  | .plus => some (fun a => .cat a (.star a))
  | .quest => some opt
  | .rep m none => if m > 1000 then none else some (fun a => .cat (repN a m) (.star a))
  | .rep m (some n) =>
    if m > 1000 || n > 1000 || m > n then none
    else some (fun a => .cat (repN a m) (repN (opt a) (n - m)))
  | _ => none

def PSt.init : PSt := ⟨[], ⟨none, []⟩, false⟩

def pstep (s : PSt) (tk : Tok) : Option PSt :=
  match tk with
  | .atom r => some { s with top := { s.top with cur := r :: s.top.cur }, justRep := false }
  | .lpar => some ⟨s.top :: s.stack, ⟨none, []⟩, false⟩
  | .rpar =>
    match s.stack with
    | [] => none
    | f :: st => some ⟨st, { f with cur := s.top.close :: f.cur }, false⟩
  | .bar => some { s with top := ⟨some s.top.close, []⟩, justRep := false }
  | q =>
    if s.justRep then none else
    match quantOf q, s.top.cur with
    | some g, a :: l => some { s with top := { s.top with cur := g a :: l }, justRep := true }
    | _, _ => none

def prun : PSt → List Tok → Option PSt
  | s, [] => some s
  | s, tk :: tks =>
    match pstep s tk with
    | some s' => prun s' tks
    | none => none

/-- result: the expression and "the outermost operator is an alternation" -/
def pfinish (s : PSt) : Option (R × Bool) :=
  match s.stack with
  | [] => some (s.top.close, s.top.alts.isSome)
  | _ => none

def parseFull (s : List Nat) : Res (R × Bool) :=
  match lex s with
  | .ok tks =>
    match prun PSt.init tks with
    | some st =>
      match pfinish st with
      | some x => .ok x
      | none => .err
    | none => .err
  | .err => .err
  | .nofrag => .nofrag

def parse (s : List Nat) : Res R :=
  match parseFull s with
  | .ok (r, _) => .ok r
  | .err => .err
  | .nofrag => .nofrag

/-- `regexp.Compile(p)` then `MatchString(t)`: `nofrag`, `err`, or the verdict -/
def matchString (p t : List Nat) : Res Bool :=
  match parse p with
  | .ok r => .ok (search r t)
  | .err => .err
  | .nofrag => .nofrag

end Regex
