/-
  C17 — VRF import/export and Route Target Constraint (RFC 4364 / RFC 4684) as gobgp does it.

  Mirrors (code as repaired by the eight C17 fix commits):
    bgp.go   ExtCommRouteTargetKey, RouteTargetMembershipNLRI.RouteTargetKey   -> rtKey / Mem.rt
    policy.go isTransitiveType, CanImportToVrf                                 -> isTransitive / canImport
    path.go  (*Path).ToLocal (VPNv4), (*Path).ToGlobal (IPv4 unicast)          -> toLocal / toGlobal
    table_manager.go AddVrf (newRouteTargetMap)                                -> mkVrf
    destination.go destination.Select(VRF) / table.go Table.Select(VRF)        -> vrfSelect
    rtc.go   rtmSet.add / sub / has, RouteTargetMembershipHandler              -> Rtm.add / sub / has
    rtc.go   VPNPathIndex.RegisterPath / UnregisterPath / GetPathsByRT         -> Idx.register / unregister / byRT
    destination.go implicitWithdraw / explicitWithdraw / insertSort / Calculate -> removeSlot / insertSort / calcDest
    table.go Table.update, updateVPNIdx                                        -> Tbl.update / updateIdx
    peer.go  interestedIn                                                      -> interested
    server.go filterpath (RTC block at its top)                                -> rtcFilter
    destination.go Update.GetChanges + server.go propagateUpdateToNeighbors
        (peer without ADD-PATH send)                                           -> onTableChange
    server.go processRTCMembership, rtcVPNCandidates, getBestFromLocalCallbackLocked
        (wildcard)                                                             -> rtcCandidates / rtcStep
    server.go prePolicyFilterpath (VRF neighbor block)                         -> vrfFilter / ceOnTableChange

  Abstractions: an extended community is its 8-octet wire form as a number; Go maps are
  duplicate-free lists (nested maps flattened to lists of pairs) or total functions; pointer
  identity of a *Path object is its `uid`, the identity of the announcement it was cloned from (the
  root originInfo, key of the RT index) its `root`: a path fed again as it is (soft reset in without a
  modifying policy) keeps both, a fresh clone of the same Adj-RIB-In path (soft reset in with a
  modifying policy) has a new uid and the same root; the best-path
  comparator is replaced by `pref` (higher wins; the harness makes preferences of different
  (source, path-id) slots of one destination distinct by LOCAL_PREF).
-/
namespace VrfRtc

/-! ## extended communities and route-target keys -/

abbrev EC := Nat

/-- first octet of the wire form -/
def ecType (e : EC) : Nat := e / 72057594037927936

/-- policy.go isTransitiveType: `ecType < EC_TYPE_NON_TRANSITIVE_TWO_OCTET_AS_SPECIFIC (0x40)` -/
def isTransitive (e : EC) : Bool := decide (ecType e < 64)

/-- bgp.ExtCommRouteTargetKey succeeds exactly for the two-octet-AS, IPv4-address and
    four-octet-AS specific types, transitive (0,1,2) or not (0x40,0x41,0x42), whatever the sub-type -/
def keyable (e : EC) : Bool :=
  ecType e == 0 || ecType e == 1 || ecType e == 2 || ecType e == 64 || ecType e == 65 || ecType e == 66

/-- bgp.ExtCommRouteTargetKey: the key is the whole 8-octet value -/
def rtKey (e : EC) : Option Nat := if keyable e then some e else none

/-- the keys of a route's extended communities, in attribute order (loops `for _, ext := range
    path.GetExtCommunities() { key, err := ExtCommRouteTargetKey(ext); if err != nil { continue } …`) -/
def keys (ecs : List EC) : List Nat := ecs.filterMap rtKey

/-! ## routes -/

/-- a VPNv4 path as stored in the global table -/
structure VPath where
  uid    : Nat        -- identity of the path object (pointer)
  root   : Nat        -- identity of the announcement (root originInfo pointer, shared by clones)
  src    : Nat        -- source peer (0 = local)
  pathId : Nat        -- remoteID
  rd     : Nat
  pfx    : Nat
  label  : Nat
  pref   : Nat        -- stand-in for the comparator chain: higher is better
  marker : Nat        -- marker community carried unchanged to every receiver
  ecs    : List EC
deriving DecidableEq, Repr, Inhabited

/-- destination key of a VPN path: RD + prefix (the label is not part of the table key) -/
def VPath.nlri (p : VPath) : Nat × Nat := (p.rd, p.pfx)

/-- a plain IPv4 path as a VRF neighbor sees it / announces it -/
structure LPath where
  uid    : Nat
  root   : Nat
  src    : Nat
  pathId : Nat
  pfx    : Nat
  pref   : Nat
  marker : Nat
  ecs    : List EC
deriving DecidableEq, Repr, Inhabited

structure Vrf where
  name    : Nat
  rd      : Nat
  label   : Nat
  imports : List Nat      -- keys of routeTargetMap
  exports : List EC
deriving DecidableEq, Repr, Inhabited

/-- table_manager.go AddVrf: newRouteTargetMap fails when an import target has no key; the label
    is not set by AddVrf (zebra assigns it later) -/
def mkVrf (name rd : Nat) (imp exp : List EC) : Option Vrf :=
  if imp.all keyable then some { name := name, rd := rd, label := 0, imports := imp, exports := exp }
  else none

/-- policy.go CanImportToVrf -/
def canImport (v : Vrf) (ecs : List EC) : Bool :=
  ecs.any (fun x => isTransitive x && (match rtKey x with
    | some k => v.imports.contains k
    | none => false))

/-- path.go ToLocal for RF_IPv4_VPN: plain prefix, ALL extended communities dropped
    (`delPathAttr(BGP_ATTR_TYPE_EXTENDED_COMMUNITIES)`), ids kept -/
def toLocal (p : VPath) : LPath :=
  { uid := p.uid, root := p.root, src := p.src, pathId := p.pathId, pfx := p.pfx, pref := p.pref, marker := p.marker,
    ecs := [] }

/-- path.go ToGlobal for RF_IPv4_UC: NLRI gets the VRF's RD and label, `SetExtCommunities(vrf.ExportRt,
    false)` appends the export targets to whatever the route carried -/
def toGlobal (v : Vrf) (l : LPath) : VPath :=
  { uid := l.uid, root := l.root, src := l.src, pathId := l.pathId, rd := v.rd, pfx := l.pfx, label := v.label,
    pref := l.pref, marker := l.marker, ecs := l.ecs ++ v.exports }

/-- destination.Select with a VRF option: known paths that can be imported, converted -/
def vrfSelect (v : Vrf) (known : List VPath) : List LPath :=
  (known.filter (fun p => canImport v p.ecs)).map toLocal

/-! ## RT membership of one peer (rtc.go rtmSet) -/

/-- one membership entry: RT key (0 = default / wildcard), origin AS, ADD-PATH id -/
structure Mem where
  rt  : Nat
  as  : Nat
  pid : Nat
deriving DecidableEq, Repr, Inhabited

/-- `map[uint64]map[rtmKey]struct{}` flattened; inner maps are deleted when empty, so nothing else
    is observable -/
abbrev Rtm := List Mem

def Rtm.add (s : Rtm) (m : Mem) : Rtm := if m ∈ s then s else m :: s
def Rtm.sub (s : Rtm) (m : Mem) : Rtm := s.filter (fun x => x != m)
/-- rtmSet.has: `len(s.m[rtHash]) > 0` -/
def Rtm.has (s : Rtm) (k : Nat) : Bool := s.any (fun x => x.rt == k)

/-- RouteTargetMembershipHandler.SyncAfterImport -/
def Rtm.sync (s : Rtm) (m : Mem) (withdraw : Bool) : Rtm := if withdraw then s.sub m else s.add m

/-- peer.go interestedIn -/
def interested (s : Rtm) (ecs : List EC) : Bool := s.has 0 || (keys ecs).any (fun k => s.has k)

/-! ## the RT index of a VPN table (rtc.go VPNPathIndex) -/

/-- `map[rtHash]map[vpnPathKey]*Path` flattened -/
abbrev Idx := List (Nat × VPath)

/-- vpnPathKey{info, pathID} -/
def pkey (p : VPath) : Nat × Nat := (p.root, p.pathId)

def Idx.del (i : Idx) (k : Nat) (p : VPath) : Idx :=
  i.filter (fun e => !(e.1 == k && pkey e.2 == pkey p))

def Idx.put (i : Idx) (k : Nat) (p : VPath) : Idx := (k, p) :: i.del k p

/-- RegisterPath: one entry per keyable extended community -/
def Idx.register (i : Idx) (p : VPath) : Idx := (keys p.ecs).foldl (fun acc k => acc.put k p) i

/-- UnregisterPath (spurious removes are no-ops) -/
def Idx.unregister (i : Idx) (p : VPath) : Idx := (keys p.ecs).foldl (fun acc k => acc.del k p) i

/-- GetPathsByRT -/
def Idx.byRT (i : Idx) (k : Nat) : List VPath := (i.filter (fun e => e.1 == k)).map (·.2)

/-! ## one destination (destination.go) -/

/-- Path.EqualBySourceAndPathID -/
def sameSlot (p q : VPath) : Bool := q.src == p.src && q.pathId == p.pathId

/-- implicitWithdraw / explicitWithdraw: take the path of the same source and path-id out of the
    list (there is at most one: every insertion removes the previous occupant first) -/
def removeSlot : List VPath → VPath → List VPath × Option VPath
  | [], _ => ([], none)
  | q :: r, p =>
    if sameSlot p q then (r, some q)
    else
      (q :: (removeSlot r p).1, (removeSlot r p).2)

/-- insertSort with the comparator reduced to `pref` -/
def insertSort : List VPath → VPath → List VPath
  | [], p => [p]
  | q :: r, p => if q.pref < p.pref then p :: q :: r else q :: insertSort r p

/-- destination.Calculate: (new knownPathList, oldPath) -/
def calcDest (l : List VPath) (p : VPath) (wd : Bool) : List VPath × Option VPath :=
  let r := removeSlot l p
  if wd then (r.1, r.2) else (insertSort r.1 p, r.2)

def uidOf (o : Option VPath) : Option Nat := o.map (·.uid)

/-- Path.Equal as Update.GetChanges uses it (`best.Equal(old)`): the same object, or the same
    source, attributes and NLRI (here: everything but the two identities) -/
def VPath.sameAs (a b : VPath) : Bool :=
  a.uid == b.uid || ({ a with uid := 0, root := 0 } == { b with uid := 0, root := 0 })

def sameAsHead (old : Option VPath) (b : VPath) : Bool :=
  match old with
  | some o => b.sameAs o
  | none => false

/-- table.go updateVPNIdx (fixed): the index holds the best path of the destination plus every
    path with a non-zero path-id. `uidOf … == some x.uid` are the pointer comparisons of the Go code;
    `newBest == oldPath` is the same path object fed again -/
def updateIdx (i : Idx) (oldL newL : List VPath) (p : VPath) (wd : Bool) (oldPath : Option VPath) : Idx :=
  let oldBest := oldL.head?
  let newBest := newL.head?
  let i1 := match oldPath with
    | some o => i.unregister o
    | none => i
  let i2 := match oldBest with
    | some ob =>
      if uidOf newBest != some ob.uid && uidOf oldPath != some ob.uid && ob.pathId == 0 then i1.unregister ob
      else i1
    | none => i1
  let i3 := if !wd && p.pathId != 0 then i2.register p else i2
  match newBest with
  | some nb => if uidOf oldBest != some nb.uid || uidOf oldPath == some nb.uid then i3.register nb else i3
  | none => i3

/-- one VPN table: destinations (a total map, `[]` = absent), the NLRIs ever touched (for the
    scans), the RT index -/
structure Tbl where
  dest  : Nat × Nat → List VPath
  nlris : List (Nat × Nat)
  idx   : Idx

def Tbl.empty : Tbl := { dest := fun _ => [], nlris := [], idx := [] }

/-- table.go Table.update -/
def Tbl.update (t : Tbl) (p : VPath) (wd : Bool) : Tbl :=
  let oldL := t.dest p.nlri
  let r := calcDest oldL p wd
  ⟨fun n => if n = p.nlri then r.1 else t.dest n,
   if p.nlri ∈ t.nlris then t.nlris else p.nlri :: t.nlris,
   updateIdx t.idx oldL r.1 p wd r.2⟩

/-- table.go Table.Info with a VRF option (what GetTable TABLE_TYPE_VRF reports): (NumDestination,
    NumPath) — per destination the paths that can be imported are counted, a destination counts
    when it has one -/
def vrfInfo (t : Tbl) (vr : Vrf) : Nat × Nat :=
  let ls := t.nlris.map (fun n => ((t.dest n).filter (fun p => canImport vr p.ecs)).length)
  ((ls.filter (fun x => x != 0)).length, ls.sum)

/-- table.go deletePathsByVrf (TableManager.DeleteVrf): per destination the first locally originated
    path under the VRF's RD, whatever its rank; returned as withdrawals -/
def delVrfPaths (t : Tbl) (vr : Vrf) : List VPath :=
  t.nlris.filterMap (fun n => (t.dest n).find? (fun p => p.src == 0 && p.rd == vr.rd))

/-- server.go DeleteVrf: propagateUpdate of those withdrawals -/
def Tbl.withdrawAll (t : Tbl) (ps : List VPath) : Tbl := ps.foldl (fun t p => t.update p true) t

/-- GetBestPath of a destination (no route-server filter, next hops valid) -/
def Tbl.best (t : Tbl) (n : Nat × Nat) : Option VPath := (t.dest n).head?

/-- GetBestPathList over the table -/
def Tbl.bests (t : Tbl) : List VPath := t.nlris.filterMap (fun n => t.best n)

/-! ## what an RTC peer (without ADD-PATH send) is sent -/

inductive Msg where
  | adv (n : Nat × Nat) (marker : Nat)
  | wd (n : Nat × Nat)
deriving DecidableEq, Repr, Inhabited

/-- server.go filterpath, the RTC block: `path` (advertisement or withdrawal) with the previous best
    `old` -/
def rtcFilter (s : Rtm) (path : VPath) (isWd : Bool) (old : Option VPath) : List Msg :=
  if interested s path.ecs then [if isWd then Msg.wd path.nlri else Msg.adv path.nlri path.marker]
  else match old with
    | none => []
    | some o => if interested s o.ecs then [Msg.wd o.nlri] else []

/-- Update.GetChanges + processOutgoingPaths for one destination whose list went from oldL to newL -/
def onTableChange (s : Rtm) (oldL newL : List VPath) : List Msg :=
  match newL.head? with
  | some b => if sameAsHead oldL.head? b then [] else rtcFilter s b false oldL.head?
  | none => match oldL.head? with
    | none => []
    | some o => rtcFilter s o true (some o)

/-- rtcVPNCandidates: for a specific RT the indexed paths that are the best path of their
    destination (peer without ADD-PATH send); for the wildcard a scan of the best paths, on
    withdrawal reduced to those filterpath now rejects -/
def rtcCandidates (t : Tbl) (s' : Rtm) (k : Nat) (withdraw : Bool) : List VPath :=
  if k != 0 then (t.idx.byRT k).filter (fun p => uidOf (t.best p.nlri) == some p.uid)
  else if withdraw then t.bests.filter (fun p => !interested s' p.ecs)
  else t.bests

/-- processRTCMembership (fixed): new membership state and the messages queued for the peer -/
def rtcStep (t : Tbl) (s : Rtm) (eorWait : Bool) (m : Mem) (withdraw : Bool) : Rtm × List Msg :=
  let before := s.has m.rt
  let s' := s.sync m withdraw
  let after := s'.has m.rt
  if before == after then (s', [])
  else
    let cands := rtcCandidates t s' m.rt withdraw
    if withdraw then (s', (cands.filter (fun p => !interested s' p.ecs)).map (fun p => Msg.wd p.nlri))
    else if eorWait then (s', [])
    else (s', cands.flatMap (fun p => rtcFilter s' p false none))

/-- getBestFromLocalCallbackLocked toward the RTC peer (initial / deferred table transfer, soft reset
    out): every best path through filterpath with no old path -/
def catchUp (t : Tbl) (s : Rtm) : List Msg := t.bests.flatMap (fun b => rtcFilter s b false none)

/-- processRTCMembership when nothing may be advertised to the peer (needToAdvertise false: the local
    speaker is restarting and defers its updates): the membership is recorded, nothing is queued -/
def rtcStepSup (t : Tbl) (s : Rtm) (eorWait : Bool) (m : Mem) (withdraw : Bool) (sup : Bool) : Rtm × List Msg :=
  if sup then (s.sync m withdraw, []) else rtcStep t s eorWait m withdraw

/-- what the far end holds -/
abbrev View := Nat × Nat → Option Nat

def View.apply1 (v : View) : Msg → View
  | .adv n m => fun x => if x = n then some m else v x
  | .wd n => fun x => if x = n then none else v x

def View.apply (v : View) (ms : List Msg) : View := ms.foldl View.apply1 v

/-! ## what a VRF neighbor (CE) is sent -/

inductive LMsg where
  | adv (pfx : Nat) (marker : Nat)
  | wd (pfx : Nat)
deriving DecidableEq, Repr, Inhabited

/-- server.go prePolicyFilterpath, VRF neighbor block (fixed) -/
def vrfFilter (v : Vrf) (path : VPath) (isWd : Bool) (old : Option VPath) : List LMsg :=
  if canImport v path.ecs then [if isWd then LMsg.wd path.pfx else LMsg.adv path.pfx path.marker]
  else match old with
    | some o => if !isWd && canImport v o.ecs then [LMsg.wd o.pfx] else []
    | none => []

def ceOnTableChange (v : Vrf) (oldL newL : List VPath) : List LMsg :=
  match newL.head? with
  | some b => if sameAsHead oldL.head? b then [] else vrfFilter v b false oldL.head?
  | none => match oldL.head? with
    | none => []
    | some o => vrfFilter v o true (some o)

end VrfRtc
