/-
  Model of gobgp's API <-> native converters (pkg/apiutil/attribute.go, capability.go, util.go)
  for the fragment shared with the wire model (Model/Wire.lean): the 14 path-attribute types
  ORIGIN, AS_PATH, NEXT_HOP, MED, LOCAL_PREF, ATOMIC_AGGREGATE, AGGREGATOR, COMMUNITIES,
  ORIGINATOR_ID, CLUSTER_LIST, AS4_PATH, AS4_AGGREGATOR, LARGE_COMMUNITY, unknown; IPv4 prefixes;
  and the capabilities multiprotocol, route-refresh, extended-message, enhanced-route-refresh,
  4-octet-AS, ADD-PATH, graceful-restart, long-lived graceful-restart, unknown.

  `Api…` types mirror the protobuf messages of proto/api/attribute.proto, nlri.proto,
  capability.proto field by field.  Two abstractions, both stated here and in props/C18.json:
   * a protobuf `string` field that carries an IP address is modelled by the octets
     netip.ParseAddr yields for it (4 octets = IPv4, 16 = IPv6, any other length = a text
     ParseAddr rejects): netip.Addr.String / ParseAddr are trusted to be mutually inverse;
   * protobuf uint32 / enum fields are naturals; the Go conversions uint8(x), uint16(x) are `% 256`,
     `% 65536`.
  Every definition names the Go function it mirrors.  Core-only Lean.
-/
import Model.Wire
namespace ApiConv
open Wire

/-! ## path attributes -/

/-- api.AsSegment{type, numbers} -/
structure ApiSeg where
  typ     : Nat
  numbers : List Nat
deriving Repr, DecidableEq

/-- api.Attribute (the oneof) restricted to the modelled messages; `unset` is an api.Attribute whose
    oneof is nil (what MarshalPathAttributes emits for a Go type it has no case for). -/
inductive ApiAttr where
  | unknown (flags typ : Nat) (value : Bytes)          -- UnknownAttribute{flags,type,value}
  | origin (origin : Nat)                              -- OriginAttribute{origin}
  | asPath (segments : List ApiSeg)                    -- AsPathAttribute{segments}
  | nextHop (nextHop : Bytes)                          -- NextHopAttribute{next_hop}
  | med (med : Nat)                                    -- MultiExitDiscAttribute{med}
  | localPref (localPref : Nat)                        -- LocalPrefAttribute{local_pref}
  | atomicAgg                                          -- AtomicAggregateAttribute{}
  | aggregator (asn : Nat) (address : Bytes)           -- AggregatorAttribute{asn,address}
  | communities (communities : List Nat)               -- CommunitiesAttribute{communities}
  | originatorId (id : Bytes)                          -- OriginatorIdAttribute{id}
  | clusterList (ids : List Bytes)                     -- ClusterListAttribute{ids}
  | as4Path (segments : List ApiSeg)                   -- As4PathAttribute{segments}
  | as4Aggregator (asn : Nat) (address : Bytes)        -- As4AggregatorAttribute{asn,address}
  | largeComm (communities : List (Nat × Nat × Nat))   -- LargeCommunitiesAttribute{communities}
  | unset
deriving Repr, DecidableEq

/-- New(As|As4)PathAttributeFromNative, the loop body: Type = param.GetType(), Numbers = param.GetAS()
    (GetAS widens 2-octet AS numbers to uint32; the 2/4-octet kind is not represented) -/
def toApiSeg (s : Seg) : ApiSeg := ⟨s.typ, s.as⟩

/-- MarshalPathAttributes, one element: the type switch is on the Go type, i.e. on the constructor
    of `AttrVal`, never on the numeric attribute type; Flags/Length are copied only for unknown. -/
def toApiAttr (a : Attr) : ApiAttr :=
  match a.val with
  | .origin v => .origin v                                        -- uint32(a.Value)
  | .asPath segs => .asPath (segs.map toApiSeg)
  | .nextHop addr => .nextHop addr                                -- a.Value.String()
  | .med v => .med v
  | .localPref v => .localPref v
  | .atomicAgg => .atomicAgg
  | .aggregator _ as addr => .aggregator as (be32 addr)           -- Askind is not represented
  | .communities vs => .communities vs
  | .originatorId a => .originatorId (be32 a)
  | .clusterList ids => .clusterList (ids.map be32)
  | .as4Path segs => .as4Path (segs.map toApiSeg)
  | .as4Aggregator as addr => .as4Aggregator as (be32 addr)
  | .largeComm vs => .largeComm vs
  | .unknown v => .unknown a.flags a.typ v                        -- uint32(a.Flags), uint32(a.Type)

def toApiAttrs (l : List Attr) : List ApiAttr := l.map toApiAttr

/-- bgp.NewAs4PathParam(uint8(segment.Type), segment.Numbers): always the 4-octet kind -/
def fromApiSeg (s : ApiSeg) : Seg := mkSeg true (s.typ % 256) s.numbers

/-- `netip.ParseAddr(s)` succeeds and `Is4()` -/
def isV4 (addr : Bytes) : Bool := addr.length == 4

/-- UnmarshalAttribute.  `none` = an error is returned. -/
def fromApiAttr : ApiAttr → Option Attr
  | .origin o => some (mkOrigin (o % 256))                        -- uint8(a.Origin.Origin)
  | .asPath segs => some (mkAsPath (segs.map fromApiSeg))
  | .nextHop addr =>                                              -- ParseAddr, NewPathAttributeNextHop
    if addr.length = 4 ∨ addr.length = 16 then some (mkNextHop addr) else none
  | .med v => some (mkMed v)
  | .localPref v => some (mkLocalPref v)
  | .atomicAgg => some mkAtomicAgg
  | .aggregator asn addr =>                                       -- asn is a uint32: reflect.Uint32 kind
    if isV4 addr then some (mkAggregator true asn (rd32 addr)) else none
  | .communities vs => some (mkCommunities vs)
  | .originatorId id => if isV4 id then some (mkOriginatorId (rd32 id)) else none
  | .clusterList ids => if ids.all isV4 then some (mkClusterList (ids.map rd32)) else none
  | .as4Path segs => some (mkAs4Path (segs.map fromApiSeg))
  | .as4Aggregator asn addr => if isV4 addr then some (mkAs4Aggregator asn (rd32 addr)) else none
  | .largeComm vs => some (mkLargeComm vs)
  | .unknown f t v => some (mkUnknown (f % 256) (t % 256) v)      -- BGPAttrFlag(uint8), BGPAttrType(uint8)
  | .unset => none                                                -- "unknown path attribute"

/-- UnmarshalPathAttributes: element-wise, stops at the first error, rejects a second attribute of a
    type already seen (`typeMap`).  `seen` = the attribute types already accepted. -/
def fromApiAttrsAux (seen : List Nat) : List ApiAttr → Option (List Attr)
  | [] => some []
  | a :: as =>
    match fromApiAttr a with
    | none => none
    | some x =>
      if seen.contains x.typ then none
      else
        match fromApiAttrsAux (x.typ :: seen) as with
        | none => none
        | some xs => some (x :: xs)

def fromApiAttrs (l : List ApiAttr) : Option (List Attr) := fromApiAttrsAux [] l

/-- What a native attribute becomes after one trip through the API: the value rebuilt by the
    New… constructor UnmarshalAttribute uses (Flags/Length recomputed, AS numbers 4-octet, segment
    counts recomputed).  Stated independently of toApi/fromApi; `fromApi_toApi` proves it is the result. -/
def rebuildSeg (s : Seg) : Seg := mkSeg true (s.typ % 256) s.as

def rebuild (a : Attr) : Attr :=
  match a.val with
  | .origin v => mkOrigin (v % 256)
  | .asPath segs => mkAsPath (segs.map rebuildSeg)
  | .nextHop addr => mkNextHop addr
  | .med v => mkMed v
  | .localPref v => mkLocalPref v
  | .atomicAgg => mkAtomicAgg
  | .aggregator _ as addr => mkAggregator true as addr
  | .communities vs => mkCommunities vs
  | .originatorId x => mkOriginatorId x
  | .clusterList ids => mkClusterList ids
  | .as4Path segs => mkAs4Path (segs.map rebuildSeg)
  | .as4Aggregator as addr => mkAs4Aggregator as addr
  | .largeComm vs => mkLargeComm vs
  | .unknown v => mkUnknown (a.flags % 256) (a.typ % 256) v

/-! ## IPv4 NLRI -/

/-- api.IPAddressPrefix{prefix_len, prefix} -/
structure ApiPrefix where
  prefixLen : Nat
  addr      : Bytes
deriving Repr, DecidableEq

/-- MarshalNLRI, case *bgp.IPAddrPrefix: PrefixLen = Bits(), Prefix = Addr().String() -/
def toApiPrefix (p : Prefix) : ApiPrefix := ⟨p.bits, p.addr⟩

/-- netip.Prefix.Masked for a 4-octet address -/
def maskAddr (bits : Nat) (addr : Bytes) : Bytes :=
  maskLast bits (addr.take (byteLen bits) ++ List.replicate (4 - byteLen bits) 0)

/-- UnmarshalNLRI, case *api.NLRI_Prefix with an IPv4 text: netip.ParsePrefix("%s/%d") then
    NewIPAddrPrefix (Masked).  `none` = error (bad address, or length > 32).  IPv6 texts are
    outside the model. -/
def fromApiPrefix (a : ApiPrefix) : Option Prefix :=
  if a.addr.length ≠ 4 then none
  else if a.prefixLen > 32 then none
  else some ⟨a.prefixLen, maskAddr a.prefixLen a.addr⟩

/-! ## capabilities -/

/-- api.Family{afi, safi} -/
structure ApiFamily where
  afi  : Nat
  safi : Nat
deriving Repr, DecidableEq

/-- the modelled bgp.ParameterCapabilityInterface implementations (fields as the Go structs) -/
inductive Cap where
  | multiProtocol (afi safi : Nat)                                        -- CapMultiProtocol{CapValue Family}
  | routeRefresh
  | extendedMessage
  | enhancedRouteRefresh
  | fourOctetAs (asn : Nat)                                               -- CapFourOctetASNumber{CapValue}
  | addPath (tuples : List (Nat × Nat × Nat))                             -- (afi, safi, mode)
  | gracefulRestart (flags time : Nat) (tuples : List (Nat × Nat × Nat))  -- (afi, safi, flags)
  | llgr (tuples : List (Nat × Nat × Nat × Nat))                          -- (afi, safi, flags, restart time)
  | unknown (code : Nat) (value : Bytes)                                  -- CapUnknown
deriving Repr, DecidableEq

/-- api.Capability (the oneof) restricted to the modelled messages -/
inductive ApiCap where
  | unknown (code : Nat) (value : Bytes)
  | multiProtocol (family : ApiFamily)
  | routeRefresh
  | gracefulRestart (flags time : Nat) (tuples : List (ApiFamily × Nat))
  | fourOctetAsn (asn : Nat)
  | addPath (tuples : List (ApiFamily × Nat))
  | enhancedRouteRefresh
  | llgr (tuples : List (ApiFamily × Nat × Nat))                          -- (family, flags, time)
  | extendedMessage
  | unset
deriving Repr, DecidableEq

/-- ToApiFamily -/
def toApiFamily (afi safi : Nat) : ApiFamily := ⟨afi, safi⟩
/-- ToFamily: bgp.NewFamily(uint16(f.Afi), uint8(f.Safi)) -/
def fromApiFamily (f : ApiFamily) : Nat × Nat := (f.afi % 65536, f.safi % 256)

/-- MarshalCapability -/
def toApiCap : Cap → ApiCap
  | .multiProtocol afi safi => .multiProtocol (toApiFamily afi safi)
  | .routeRefresh => .routeRefresh
  | .extendedMessage => .extendedMessage
  | .enhancedRouteRefresh => .enhancedRouteRefresh
  | .fourOctetAs asn => .fourOctetAsn asn
  | .addPath ts => .addPath (ts.map fun (afi, safi, mode) => (toApiFamily afi safi, mode))
  | .gracefulRestart flags time ts =>
    .gracefulRestart flags time (ts.map fun (afi, safi, fl) => (toApiFamily afi safi, fl))
  | .llgr ts => .llgr (ts.map fun (afi, safi, fl, t) => (toApiFamily afi safi, fl, t))
  | .unknown code value => .unknown code value

/-- `x & bit > 0` for a single-bit mask, as 0 / bit -/
def keepBit (x bit : Nat) : Nat := if hasBit x bit then bit else 0

/-- the flag octet a graceful-restart capability has after UnmarshalCapabilities (both directions
    carry the whole octet; NewCapGracefulRestart is no longer used to rebuild it from two booleans,
    see the fix commit "api: keep graceful-restart flag bits") -/
def grFlags (flags : Nat) : Nat := flags % 256
def grTupleFlags (flags : Nat) : Nat := flags % 256

/-- unmarshalCapability.  `none` = error. -/
def fromApiCap : ApiCap → Option Cap
  | .multiProtocol f => some (.multiProtocol (fromApiFamily f).1 (fromApiFamily f).2)
  | .routeRefresh => some .routeRefresh
  | .extendedMessage => some .extendedMessage
  | .enhancedRouteRefresh => some .enhancedRouteRefresh
  | .fourOctetAsn asn => some (.fourOctetAs asn)
  | .addPath ts =>
    some (.addPath (ts.map fun (f, mode) => ((fromApiFamily f).1, (fromApiFamily f).2, mode % 256)))
  | .gracefulRestart flags time ts =>
    some (.gracefulRestart (grFlags flags) (time % 65536)
      (ts.map fun (f, fl) => ((fromApiFamily f).1, (fromApiFamily f).2, grTupleFlags fl)))
  | .llgr ts =>
    some (.llgr (ts.map fun (f, fl, t) => ((fromApiFamily f).1, (fromApiFamily f).2, grTupleFlags fl, t)))
  | .unknown code value => some (.unknown (code % 256) value)
  | .unset => none

/-- DefaultParameterCapability.Serialize -/
def encCapHdr (code : Nat) (value : Bytes) : Bytes := (code % 256) :: (value.length % 256) :: value

def encTuples3 : List (Nat × Nat × Nat) → Bytes
  | [] => []
  | (afi, safi, x) :: ts => be16 afi ++ [safi % 256, x % 256] ++ encTuples3 ts

def encLlgrTuples : List (Nat × Nat × Nat × Nat) → Bytes
  | [] => []
  | (afi, safi, fl, t) :: ts =>
    be16 afi ++ [safi % 256, fl % 256, t / 65536 % 256, t / 256 % 256, t % 256] ++ encLlgrTuples ts

/-- Cap….Serialize -/
def encCap : Cap → Bytes
  | .multiProtocol afi safi => encCapHdr 1 (be16 afi ++ [0, safi % 256])
  | .routeRefresh => encCapHdr 2 []
  | .extendedMessage => encCapHdr 6 []
  | .enhancedRouteRefresh => encCapHdr 70 []
  | .fourOctetAs asn => encCapHdr 65 (be32 asn)
  | .addPath ts => encCapHdr 69 (encTuples3 ts)
  | .gracefulRestart flags time ts =>
    -- uint16(c.Flags)<<12 | c.Time
    encCapHdr 64 (be16 (Nat.lor ((flags % 256) * 4096 % 65536) (time % 65536)) ++ encTuples3 ts)
  | .llgr ts => encCapHdr 71 (encLlgrTuples ts)
  | .unknown code value => encCapHdr code value

end ApiConv
