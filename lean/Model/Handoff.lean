/-
C20 (iii): a producer goroutine handing messages to its spawner over one Go channel.

`cap` is the channel's capacity (0 = unbuffered), `buf` the number of buffered elements, `toSend` the
number of sends the producer still wants to perform, `consumer` whether the spawner is still receiving
(it has not yet left its select loop for a returning branch / the join).  A send is possible when a
buffer slot is free, or when the consumer is there to take the value directly (rendezvous).  The consumer
may leave at any time — that is what the shutdown, timer-expiry and error branches of the per-state FSM
handlers do before they call wg.Wait().

Mirrors: fsmHandler.recvMessage (one blocking send on recvChan) spawned by opensent / openconfirm /
outgoingConnManager.run; the general shape is extracted by go/overlay/pkg/server/zz_verif_c20_handoff_test.go.
-/
namespace Handoff

structure Ch where
  cap : Nat
  buf : Nat
  toSend : Nat
  consumer : Bool
  deriving DecidableEq, Repr

def canSend (c : Ch) : Prop := c.buf < c.cap ∨ c.consumer = true

instance (c : Ch) : Decidable (canSend c) := by unfold canSend; infer_instance

/-- the producer is stuck in `ch <- v` -/
def Blocked (c : Ch) : Prop := 0 < c.toSend ∧ ¬ canSend c

inductive Step : Ch → Ch → Prop
  /-- the value goes into a free buffer slot -/
  | sendBuf (c : Ch) : 0 < c.toSend → c.buf < c.cap →
      Step c { c with buf := c.buf + 1, toSend := c.toSend - 1 }
  /-- direct hand-off to the waiting consumer -/
  | sendDirect (c : Ch) : 0 < c.toSend → c.consumer = true →
      Step c { c with toSend := c.toSend - 1 }
  /-- the consumer takes a buffered value -/
  | recv (c : Ch) : c.consumer = true → 0 < c.buf →
      Step c { c with buf := c.buf - 1 }
  /-- the consumer stops receiving (leaves its select loop; will join the producer) -/
  | leave (c : Ch) : Step c { c with consumer := false }

inductive Reachable (c0 : Ch) : Ch → Prop
  | init : Reachable c0 c0
  | step {c c' : Ch} : Reachable c0 c → Step c c' → Reachable c0 c'

def start (cap sends : Nat) : Ch := ⟨cap, 0, sends, true⟩

/-- the rule the extracted hand-off facts are checked against: `blocking` = number of sends that have
no cancel branch -/
def handoffOk (cap blocking : Nat) : Bool := decide (blocking ≤ cap)

end Handoff
