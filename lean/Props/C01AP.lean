/-
  C01, ADD-PATH send branch ("with ADD-PATH every eligible path up to send-max, each under one
  stable path identifier … No route that has left the Loc-RIB stays advertised and no eligible
  route is missing").

  Model: Model/AddPathSend.lean — ONE (target peer, destination) pair: the Loc-RIB path list of
  the destination with its local path identifiers (destination.Calculate), the peer's
  bookkeeping (`sentPaths`, `sendMaxPathFiltered`) and the far end's view, under announcements,
  implicit replacements, withdrawals (from any source), session up (initial table transfer),
  session down, soft reset out / ROUTE-REFRESH, and a session coming up BETWEEN the table update
  and the fan-out of another peer's UPDATE (`Ev.upBetween`).  `o` are the best-path options, `elig` the
  export decision `s.filterpath(peer, path, nil)` (ANY predicate on paths), `k` is send-max.
  Every theorem below is about `run o elig k evs` for EVERY history `evs`.

  Tied to the code by go/overlay/pkg/server/zz_verif_c01ap_test.go: the whole-speaker embedding
  (`AddPathSend.APW`: the world of Model/World.lean feeds each destination's table updates to the
  pairs) is compared with a real BgpServer after every flush point (views keyed by local path-id,
  sentPaths, sendMaxPathFiltered, Loc-RIB order with identifiers); that embedding is sampled, not
  proved.  The model mirrors the code AFTER the two fixes "an ADD-PATH path that becomes filtered is
  no longer marked as held back by send-max" and "the withdrawal of a path never advertised to an
  ADD-PATH peer frees no send-max slot"; the pinned behaviour is `runOld`, refuted below.
-/
import Lemmas.AddPathSend
namespace C01AP
open BestPath World AddPathSend

variable (o : Opts) (elig : Cand → Bool) (k : Nat)

/-- **(1) nothing that left the Loc-RIB, and nothing the export filter rejects, stays
    advertised.**  Every route at the far end is the CURRENT version (marker) of a path that is
    in the destination's Loc-RIB list now, under that path's local identifier, and passes the
    export filter. -/
theorem advertised_only_current_exportable (evs : List Ev) :
    ∀ i m, (i, m) ∈ (run o elig k evs).bk.view →
      ∃ x, x ∈ (run o elig k evs).tbl.known ∧ x.id = i ∧ x.marker = m ∧ elig x = true := by
  intro i m hv
  obtain ⟨_, hUp, hDown⟩ := inv_run o elig k evs
  cases hu : (run o elig k evs).up with
  | false => rw [hDown hu] at hv; cases hv
  | true =>
    have hb := hUp hu
    obtain ⟨hs, x, hx, hid, hm⟩ := (hb.view i m).mp hv
    obtain ⟨y, hy, hyid, hye⟩ := (hb.cover i).mp (Or.inl hs)
    have hT := (inv_run o elig k evs).1
    have : x = y := by
      have hnd := hT.ids
      have key : ∀ (l : List Cand), (l.map (·.id)).Nodup → x ∈ l → y ∈ l → x.id = y.id → x = y := by
        intro l
        induction l with
        | nil => intro _ h; cases h
        | cons a rest ih =>
          intro hn hx hy he
          rw [List.map_cons, List.nodup_cons] at hn
          rcases List.mem_cons.mp hx with rfl | hx' <;> rcases List.mem_cons.mp hy with rfl | hy'
          · rfl
          · exact absurd (List.mem_map.mpr ⟨y, hy', he.symm⟩) hn.1
          · exact absurd (List.mem_map.mpr ⟨x, hx', he⟩) hn.1
          · exact ih hn.2 hx' hy' he
      exact key _ hnd hx hy (hid.trans hyid.symm)
    exact ⟨x, hx, hid, hm, this ▸ hye⟩

/-- **(2) no eligible route is missing while a slot is free, and never more than send-max.**
    An established peer holds exactly min(send-max, number of exportable Loc-RIB paths) routes
    of the destination; a peer that is not established holds none. -/
theorem advertised_count (evs : List Ev) :
    (run o elig k evs).bk.view.length =
      if (run o elig k evs).up then min k ((run o elig k evs).tbl.known.filter elig).length else 0 := by
  obtain ⟨hT, hUp, hDown⟩ := inv_run o elig k evs
  cases hu : (run o elig k evs).up with
  | false => rw [hDown hu]; rfl
  | true => simpa using view_count hT (hUp hu)

/-- **(3a) distinct paths have distinct identifiers** (in the Loc-RIB, none is 0, and so at the
    far end: one route per identifier), **and no identifier dangles**: every identifier at the
    far end is the identifier of a current Loc-RIB path. -/
theorem identifiers_distinct (evs : List Ev) :
    (((run o elig k evs).tbl.known.map (·.id)).Nodup ∧
      ∀ x, x ∈ (run o elig k evs).tbl.known → x.id ≠ 0) ∧
    ((run o elig k evs).bk.view.map (·.1)).Nodup ∧
    (∀ i, i ∈ (run o elig k evs).bk.view.map (·.1) →
      i ∈ (run o elig k evs).tbl.known.map (·.id)) := by
  obtain ⟨hT, hUp, hDown⟩ := inv_run o elig k evs
  refine ⟨⟨hT.ids, hT.nz⟩, ?_, ?_⟩
  · cases hu : (run o elig k evs).up with
    | false => rw [hDown hu]; exact List.nodup_nil
    | true => exact (hUp hu).viewKeys
  · intro i hi
    obtain ⟨e, he, rfl⟩ := List.mem_map.mp hi
    obtain ⟨x, hx, hid, _, _⟩ := advertised_only_current_exportable o elig k evs e.1 e.2 he
    exact List.mem_map.mpr ⟨x, hx, hid⟩

/-- **(3b) one stable identifier per path.**  Across any further event, a path that is still in
    the Loc-RIB (same source and remote path-id — replaced by a new version or untouched) has the
    identifier it had before.  With (1) and (4): an advertised path is known to the peer under
    ONE identifier from its first advertisement until its withdrawal. -/
theorem identifier_stable (evs : List Ev) (e : Ev) :
    ∀ x, x ∈ (run o elig k evs).tbl.known →
      ∀ y, y ∈ (step o elig k (run o elig k evs) e).tbl.known → sameKey x y = true → y.id = x.id := by
  have hT := (inv_run o elig k evs).1
  cases e with
  | rib op => exact id_stable o _ op hT
  | upBetween op =>
    intro x hx y hy hk
    have : (AddPathSend.step o elig k (run o elig k evs) (.upBetween op)).tbl =
        (tblStep o (run o elig k evs).tbl op).tbl := by
      simp only [AddPathSend.step]; split <;> rfl
    rw [this] at hy
    exact id_stable o _ op hT x hx y hy hk
  | up => intro x hx y hy hk; exact (nodupKey_eq hT.key hx hy hk) ▸ rfl
  | down => intro x hx y hy hk; exact (nodupKey_eq hT.key hx hy hk) ▸ rfl
  | softOut =>
    intro x hx y hy hk
    have : (step o elig k (run o elig k evs) .softOut).tbl = (run o elig k evs).tbl := by
      simp only [AddPathSend.step]; split <;> rfl
    rw [this] at hy
    exact (nodupKey_eq hT.key hx hy hk) ▸ rfl

/-- **(4) the bookkeeping never drifts from what was actually sent.**  The identifiers at the
    far end are exactly `sentPaths`; a held-back mark sits only on an exportable Loc-RIB path
    that is not advertised, every exportable path is advertised or marked, and a path is held
    back only while all send-max slots are taken. -/
theorem bookkeeping_exact (evs : List Ev) :
    (∀ i, i ∈ (run o elig k evs).bk.view.map (·.1) ↔ i ∈ (run o elig k evs).bk.sent) ∧
    (∀ i, i ∈ (run o elig k evs).bk.held →
      i ∉ (run o elig k evs).bk.sent ∧
      ∃ x, x ∈ (run o elig k evs).tbl.known ∧ x.id = i ∧ elig x = true) ∧
    ((run o elig k evs).up = true → ∀ x, x ∈ (run o elig k evs).tbl.known → elig x = true →
      x.id ∈ (run o elig k evs).bk.sent ∨ x.id ∈ (run o elig k evs).bk.held) ∧
    ((run o elig k evs).bk.held ≠ [] → (run o elig k evs).bk.sent.length = k) := by
  obtain ⟨_, hUp, hDown⟩ := inv_run o elig k evs
  cases hu : (run o elig k evs).up with
  | false =>
    rw [hDown hu]
    refine ⟨fun i => (by simp), fun i h => (by cases h), fun h => (by cases h), fun h => absurd rfl h⟩
  | true =>
    have hb := hUp hu
    refine ⟨view_keys_eq_sent hb, ?_, ?_, hb.full⟩
    · intro i hi
      exact ⟨fun hs => hb.disj i hs hi, (hb.cover i).mp (Or.inr hi)⟩
    · intro _ x hx he
      exact (hb.cover x.id).mpr ⟨x, hx, rfl, he⟩

/-- **(5a) which k paths: after an initial table transfer, the k best.**  Whatever happened
    before, a session that comes up is sent the first `k` exportable paths in Loc-RIB (best
    first) order. -/
theorem transfer_sends_k_best (evs : List Ev) :
    ∀ i, i ∈ (step o elig k (run o elig k evs) .up).bk.sent ↔
      i ∈ (((run o elig k evs).tbl.known.filter elig).take k).map (·.id) :=
  transfer_init_sent elig k _ (inv_run o elig k evs).1

/-- **(5b) a freed slot goes to the best-ranked held-back path.** -/
theorem promotion_takes_best_held (known : List Cand) (held : List Nat) :
    promote elig 1 known held =
      match known.find? (fun p => elig p && held.contains p.id) with
      | some q => ([q], del q.id held)
      | none => ([], held) :=
  promote_one elig known held

/-- **(5c) soft reset out / ROUTE-REFRESH neither adds nor removes anything** (no export
    policy change in this model): same advertised set, same held-back set, same view. -/
theorem soft_reset_out_changes_nothing (evs : List Ev) (hu : (run o elig k evs).up = true) :
    (∀ i, i ∈ (step o elig k (run o elig k evs) .softOut).bk.sent ↔ i ∈ (run o elig k evs).bk.sent) ∧
    (∀ i, i ∈ (step o elig k (run o elig k evs) .softOut).bk.held ↔ i ∈ (run o elig k evs).bk.held) ∧
    (∀ e, e ∈ (step o elig k (run o elig k evs) .softOut).bk.view ↔ e ∈ (run o elig k evs).bk.view) := by
  obtain ⟨hT, hUp, _⟩ := inv_run o elig k evs
  have hs : (step o elig k (run o elig k evs) .softOut).bk =
      transfer elig k (run o elig k evs).tbl true (run o elig k evs).bk := by
    simp [AddPathSend.step, hu]
  rw [hs]
  exact transfer_soft_same elig k _ _ hT (hUp hu)

/-! ### non-vacuity, and what does NOT hold -/

def g0 : Global := ⟨65000, 1⟩
/-- the target: an eBGP peer in AS 65001 with ADD-PATH send -/
def target : PeerCfg := { idx := 0, kind := .ebgp, as := 65001, rid := 10, addr := 100, sendMax := 1 }
/-- the source: an eBGP peer in AS 65002 sending several paths per prefix (ADD-PATH receive) -/
def source : PeerCfg := { idx := 1, kind := .ebgp, as := 65002, rid := 11, addr := 101, addPathRx := true }
def opts0 : Opts := ⟨false, false, false⟩

def path (pathId marker : Nat) (asPath : List Nat) : Cand :=
  { (default : Cand) with src := source.srcInfo g0, pathId := pathId, marker := marker, origin := some 0, segs := [⟨2, asPath⟩] }

/-- the export decision toward `target`: the loop-prevention chain of Model/World.lean -/
def elig0 : Cand → Bool := eligOf g0 target

example : elig0 (path 0 1 [65002]) = true := by decide
example : elig0 (path 1 3 [65002, 65001]) = false := by decide   -- the target's AS is in the AS_PATH

/-- The history that was stuck on the pinned tree (send-max 1): A is advertised, X is held back,
    X is replaced by a version the target must not get (AS loop), A is withdrawn, X is replaced
    again by an exportable version (advertised — with the stale held-back mark), X is
    withdrawn. -/
def stuck : List Ev :=
  [.up,
   .rib (.ann (path 0 1 [65002])),
   .rib (.ann (path 1 2 [65002, 300])),
   .rib (.ann (path 1 3 [65002, 65001])),
   .rib (.wd (path 0 0 []) true),
   .rib (.ann (path 1 4 [65002, 300])),
   .rib (.wd (path 1 0 []) true)]

/-- **counterexample on the pinned behaviour**: the Loc-RIB of the destination is empty, yet the
    far end still holds the route with marker 4 under identifier 2 (replayed on the real server:
    corpus case `held-mark-survives-filtered-replacement` of the harness; repaired by the
    `fix:` commit the model mirrors). -/
theorem pinned_stuck_route_counterexample :
    (runOld opts0 elig0 1 stuck).tbl.known = [] ∧ (runOld opts0 elig0 1 stuck).bk.view = [(2, 4)] ∧
      (runOld opts0 elig0 1 (stuck.take 4)).bk.held = [2] := by decide

/-- The second history that failed on the pinned tree (send-max 1): three paths are in the
    Loc-RIB while the target is down; path-id 2 is withdrawn, and the target's session comes up
    between the table update and the fan-out of that withdrawal (`upBetween`). -/
def late_fanout : List Ev :=
  [.rib (.ann (path 0 1 [65002])),
   .rib (.ann (path 1 2 [65002, 300])),
   .rib (.ann (path 2 3 [65002, 300, 400])),
   .upBetween (.wd (path 2 0 []) true)]

/-- **counterexample on the pinned behaviour**: the late fan-out "withdrew" a path the peer had
    never been sent and promoted the held-back path into a slot that was not free — two routes
    toward a peer with send-max 1 (replayed on the real server: corpus case
    `withdrawal-fanned-out-after-initial-transfer`; repaired by the second `fix:` commit). -/
theorem pinned_over_send_max_counterexample :
    (runOld opts0 elig0 1 late_fanout).bk.view.length = 2 ∧
      (run opts0 elig0 1 late_fanout).bk = { sent := [1], held := [2], view := [(1, 1)] } := by decide

/-- after the fix the same history leaves nothing behind -/
example : (run opts0 elig0 1 stuck).bk.view = [] ∧ (run opts0 elig0 1 (stuck.take 4)).bk.held = [] := by
  decide

/-- the intermediate states of the history: one identifier per path, kept across replacements -/
example : (run opts0 elig0 1 (stuck.take 3)).tbl.known.map (fun c => (c.marker, c.id)) = [(1, 1), (2, 2)] ∧
    (run opts0 elig0 1 (stuck.take 3)).bk = { sent := [1], held := [2], view := [(1, 1)] } ∧
    (run opts0 elig0 1 (stuck.take 6)).tbl.known.map (fun c => (c.marker, c.id)) = [(4, 2)] ∧
    (run opts0 elig0 1 (stuck.take 6)).bk = { sent := [2], held := [], view := [(2, 4)] } := by decide

/-- **(5d) NOT "the k best" in general**: a better path that arrives while all slots are taken
    is held back; it is not swapped in for the worse path already advertised.  Here the shorter
    AS_PATH (marker 2) ranks first in the Loc-RIB, but the peer keeps marker 1 … -/
def later_better : List Ev :=
  [.up, .rib (.ann (path 0 1 [65002, 300, 400])), .rib (.ann (path 1 2 [65002]))]

theorem not_always_k_best :
    (run opts0 elig0 1 later_better).tbl.known.map (·.marker) = [2, 1] ∧
    (run opts0 elig0 1 later_better).bk.view = [(1, 1)] ∧
    (run opts0 elig0 1 later_better).bk.held = [2] := by decide

/-- … until the session flaps (or the advertised path is withdrawn): then the best one is sent -/
example : (run opts0 elig0 1 (later_better ++ [.down, .up])).bk.view = [(2, 2)] := by decide
example : (run opts0 elig0 1 (later_better ++ [.rib (.wd (path 0 0 []) true)])).bk.view = [(2, 2)] := by
  decide

/-- a wider example for (1)–(4): send-max 2, four paths, one of them not exportable, a withdrawal
    of an advertised path promotes the best held-back one, identifiers are not reused while the
    withdrawals did not come through the Adj-RIB-In -/
def wide : List Ev :=
  [.rib (.ann (path 0 1 [65002, 300])), .up,
   .rib (.ann (path 1 2 [65002, 65001])),       -- never exportable toward the target
   .rib (.ann (path 2 3 [65002, 300, 400])),
   .rib (.ann (path 3 4 [65002])),               -- best, but both slots are taken
   .softOut,
   .rib (.wd (path 0 0 []) true)]                -- frees a slot: marker 4 is promoted

example : (run opts0 elig0 2 (wide.take 6)).bk = { sent := [3, 1], held := [4], view := [(3, 3), (1, 1)] } := by
  decide
example : (run opts0 elig0 2 wide).tbl.known.map (fun c => (c.marker, c.id)) = [(4, 4), (2, 2), (3, 3)] ∧
    (run opts0 elig0 2 wide).bk = { sent := [4, 3], held := [], view := [(4, 4), (3, 3)] } := by decide

end C01AP
