/-
  C08 — session parameters are negotiated as the intersection of both OPEN messages.

  Property theorems only; helper lemmas live in Lemmas/Negotiate.lean.  `Negotiate.stateChange`,
  `handleOpen`, `buildOpen`, `recvMaxLen` … mirror pkg/server/fsm.go (stateChange, open2Cap,
  capabilitiesFromConfig, buildopen, recvMessageWithError, sendMessageloop, keepaliveTicker),
  pkg/config/oc/util.go (CreateRfMap) and pkg/packet/bgp/validate.go (ValidateOpenMsg); they are
  tied to that code on every run by the correspondence check
  (go/overlay/pkg/server/zz_verif_c08_test.go, zz_verif_c08s_test.go).

  The statements are written against a specification given here in set style (`LocalHas`,
  `RemoteStar`, `Announces` …) that does not mention the model's folds and maps.
  Everything is for ALL configurations, ALL previous peer states and ALL received OPENs
  (any capability list: duplicates, unknown codes, no multiprotocol capability, any hold time/AS).
-/
import Lemmas.Negotiate
namespace C08
open Negotiate

/-! ## the specification vocabulary -/

/-- the decoder's invariant: a capability with a code the decoder knows is decoded as such
    (bgp.DecodeCapability switches on the code), so `other` never carries one of these codes -/
def Decoded (o : Open) : Prop :=
  ∀ k, Cap.other k ∈ o.caps → k ≠ 1 ∧ k ≠ 65 ∧ k ≠ 69 ∧ k ≠ 6 ∧ k ≠ 64 ∧ k ≠ 71 ∧ k ≠ 5

/-- a family is configured for the neighbour -/
def LocalHas (c : LocalCfg) (f : Family) : Prop := ∃ a ∈ c.afs, a.family = f
/-- we are willing to send / receive several paths for `f` -/
def LocalSend (c : LocalCfg) (f : Family) : Prop := ∃ a ∈ c.afs, a.family = f ∧ a.apSendMax > 0
def LocalRecv (c : LocalCfg) (f : Family) : Prop := ∃ a ∈ c.afs, a.family = f ∧ a.apRecv = true
/-- no family is configured twice (what the configuration layer produces) -/
def NodupFamilies (c : LocalCfg) : Prop :=
  ∀ a ∈ c.afs, ∀ b ∈ c.afs, a.family = b.family → a = b

/-- the peer announced the multiprotocol capability for `f` -/
def RemoteMP (o : Open) (f : Family) : Prop := Cap.mp f ∈ o.caps
/-- … with RFC 4760's default: a peer that announces NO multiprotocol capability speaks IPv4 unicast -/
def RemoteStar (o : Open) (f : Family) : Prop :=
  RemoteMP o f ∨ ((∀ g, ¬ RemoteMP o g) ∧ f = ipv4uc)
/-- some ADD-PATH tuple of the peer for `f` has the given direction bit -/
def Announces (o : Open) (f : Family) (bit : Nat → Bool) : Prop :=
  ∃ m, (f, m) ∈ allApTuples o.caps ∧ bit m = true
/-- the peer's ADD-PATH tuples for `f` do not contradict each other -/
def NoConflict (o : Open) (f : Family) : Prop :=
  ∀ m m', (f, m) ∈ allApTuples o.caps → (f, m') ∈ allApTuples o.caps →
    hasRecv m = hasRecv m' ∧ hasSend m = hasSend m'
def RemoteAs4 (o : Open) : Prop := ∃ v, Cap.as4 v ∈ o.caps
def RemoteExt (o : Open) : Prop := Cap.extMsg ∈ o.caps

/-- the session's view -/
def Negotiated (s : PeerState) (f : Family) : Prop := (fmLookup s.familyMap f).isSome = true
def NegSend (s : PeerState) (f : Family) : Prop := ∃ m, fmLookup s.familyMap f = some m ∧ hasSend m = true
def NegRecv (s : PeerState) (f : Family) : Prop := ∃ m, fmLookup s.familyMap f = some m ∧ hasRecv m = true

/-! ## hold time and keepalive -/

/-- hold time = min(local, remote) -/
theorem hold_is_min (c : LocalCfg) (s : PeerState) (o : Open) :
    (stateChange c s o).hold = min c.hold o.hold := by
  rw [stateChange_hold, Nat.min_def]
  split <;> split <;> omega

example : (stateChange { (default : LocalCfg) with hold := 90 } default { (default : Open) with hold := 30 }).hold = 30 := by
  decide

/-- an OPEN with hold time 1 or 2 is refused, whatever else it carries -/
theorem hold_1_2_refused (c : LocalCfg) (s : PeerState) (o : Open) (h : o.hold = 1 ∨ o.hold = 2) :
    ∃ e, negotiate c s o = .error e := by
  unfold negotiate handleOpen validateOpen
  by_cases h1 : o.version ≠ 4
  · exact ⟨.version, by simp [h1]⟩
  · by_cases h2 : o.id = 0
    · exact ⟨.badId, by simp [h1, h2]⟩
    · by_cases h3 : getASN o = c.localAs ∧ o.id = c.routerId
      · exact ⟨.badId, by simp [h1, h2, h3]⟩
      · by_cases h4 : c.peerAs ≠ 0 ∧ getASN o ≠ c.peerAs
        · exact ⟨.badPeerAs, by simp [h1, h2, h3, h4]⟩
        · have h5 : o.hold < 3 ∧ o.hold ≠ 0 := by omega
          exact ⟨.holdTime, by simp [h1, h2, h3, h4, h5]⟩

example : ∃ e, negotiate default default { (default : Open) with version := 4, id := 7, hold := 2 } = .error e :=
  hold_1_2_refused _ _ _ (Or.inr rfl)

/-- what an accepted OPEN satisfies (the whole of ValidateOpenMsg) -/
theorem accepted_open (c : LocalCfg) (s s' : PeerState) (o : Open) (h : negotiate c s o = .ok s') :
    s' = stateChange c s o ∧ o.version = 4 ∧ o.id ≠ 0 ∧ (c.peerAs ≠ 0 → getASN o = c.peerAs) ∧
      ¬ (getASN o = c.localAs ∧ o.id = c.routerId) ∧ (o.hold = 0 ∨ 3 ≤ o.hold) := by
  unfold negotiate handleOpen validateOpen at h
  by_cases h1 : o.version ≠ 4
  · simp [h1] at h
  · by_cases h2 : o.id = 0
    · simp [h1, h2] at h
    · by_cases h3 : getASN o = c.localAs ∧ o.id = c.routerId
      · simp [h1, h2, h3] at h
      · by_cases h4 : c.peerAs ≠ 0 ∧ getASN o ≠ c.peerAs
        · simp [h1, h2, h3, h4] at h
        · by_cases h5 : o.hold < 3 ∧ o.hold ≠ 0
          · simp [h1, h2, h3, h4, h5] at h
          · simp [h1, h2, h3, h4, h5] at h
            refine ⟨h.symm, by omega, h2, ?_, h3, by omega⟩
            intro hp
            by_cases e : getASN o = c.peerAs
            · exact e
            · exact absurd ⟨hp, e⟩ h4

example : (negotiate default default { (default : Open) with version := 4, id := 7, hold := 0 }).toBool = true := by
  decide

/-- hold time 0 ⇔ no keepalive timer and no hold timer -/
theorem hold_zero_no_timers (c : LocalCfg) (s : PeerState) (o : Open) :
    let s' := stateChange c s o
    (tickerSecs s' = none ↔ min c.hold o.hold = 0) ∧ (holdTimerSecs s' = none ↔ min c.hold o.hold = 0) := by
  intro s'
  have h : s'.hold = min c.hold o.hold := hold_is_min c s o
  unfold tickerSecs holdTimerSecs
  rw [h]
  constructor <;> by_cases e : min c.hold o.hold = 0 <;> simp [e]

/-- keepalive: a third of the negotiated hold time when the peer lowered it, otherwise the
    configured interval (`ka3` is in thirds of a second) -/
theorem keepalive_rule (c : LocalCfg) (s : PeerState) (o : Open) :
    (stateChange c s o).ka3 = if min c.hold o.hold < c.hold then min c.hold o.hold else c.ka3 := by
  rw [stateChange_ka3]
  by_cases h : c.hold ≤ o.hold
  · rw [Nat.min_eq_left h]
    by_cases h2 : o.hold > c.hold <;> simp [h2] <;> omega
  · have h' : o.hold < c.hold := by omega
    have h2 : ¬ o.hold > c.hold := by omega
    rw [Nat.min_eq_right (by omega)]; simp [h2, h']

/-- with the default configured interval (a third of the configured hold time) the keepalive is
    always a third of the negotiated hold time -/
theorem keepalive_third_default (c : LocalCfg) (s : PeerState) (o : Open) (hd : c.ka3 = c.hold) :
    (stateChange c s o).ka3 = (stateChange c s o).hold := by
  rw [keepalive_rule, hold_is_min]
  by_cases h : c.hold ≤ o.hold
  · rw [Nat.min_eq_left h]; simp [hd]
  · have h' : o.hold < c.hold := by omega
    rw [Nat.min_eq_right (by omega)]; simp [h']

/-- the keepalive ticker fires every ⌊keepalive⌋ seconds, at least every second -/
theorem ticker_period (c : LocalCfg) (s : PeerState) (o : Open) (h : min c.hold o.hold ≠ 0) :
    tickerSecs (stateChange c s o) = some (max 1 ((stateChange c s o).ka3 / 3)) := by
  have hh := hold_is_min c s o
  unfold tickerSecs
  rw [hh, if_neg h]
  congr 1
  split <;> omega

example : tickerSecs (stateChange { (default : LocalCfg) with hold := 90, ka3 := 90 } default
    { (default : Open) with hold := 10 }) = some 3 := by decide

/-! ## address families -/

theorem remoteStar_iff (o : Open) (hd : Decoded o) (f : Family) :
    Cap.mp f ∈ open2CapMap o.caps ↔ RemoteStar o f := by
  rw [mp_mem_open2CapMap]
  unfold RemoteStar RemoteMP
  constructor
  · rintro (h | ⟨h1, rfl⟩)
    · exact Or.inl h
    · refine Or.inr ⟨?_, rfl⟩
      intro g hg
      have : hasCap 1 o.caps = true := (hasCap_iff 1 _).mpr ⟨_, hg, rfl⟩
      rw [h1] at this; cases this
  · rintro (h | ⟨h1, rfl⟩)
    · exact Or.inl h
    · refine Or.inr ⟨?_, rfl⟩
      cases hc : hasCap 1 o.caps with
      | false => rfl
      | true =>
        obtain ⟨cp, hcp, hcode⟩ := (hasCap_iff 1 _).mp hc
        cases cp with
        | mp g => exact absurd hcp (h1 g)
        | other k => exact absurd hcode (hd k hcp).1
        | _ => simp [Cap.code] at hcode

/-- **families = local ∩ remote\***: a family is active on the session iff it is configured and the
    peer announced it (a peer without any multiprotocol capability announces IPv4 unicast) -/
theorem families_are_intersection (c : LocalCfg) (s : PeerState) (o : Open) (hd : Decoded o) (f : Family) :
    Negotiated (stateChange c s o) f ↔ LocalHas c f ∧ RemoteStar o f := by
  unfold Negotiated
  rw [stateChange_familyMap, fmLookup_familyMapOf]
  unfold LocalHas
  rw [← remoteStar_iff o hd f, ← remoteMode_isSome, ← localMode_isSome c.afs f]
  unfold negMode
  cases localMode c.afs f <;> cases remoteMode (open2CapMap o.caps) f <;> simp

example : Negotiated (stateChange { (default : LocalCfg) with afs := [⟨ipv4uc, false, 0, false, false, 0⟩] }
    default default) ipv4uc := by unfold Negotiated; decide

/-! ## ADD-PATH -/

/-- **ADD-PATH send only with the complement** (full strength, any OPEN): we send several paths for
    `f` only if we are configured to, the family is active, and the peer announced that it can
    RECEIVE them in some ADD-PATH tuple. -/
theorem addpath_send_only_with_complement (c : LocalCfg) (s : PeerState) (o : Open) (hd : Decoded o)
    (f : Family) (h : NegSend (stateChange c s o) f) :
    LocalSend c f ∧ RemoteStar o f ∧ Announces o f hasRecv := by
  obtain ⟨m, hm, hs⟩ := h
  rw [stateChange_familyMap, fmLookup_familyMapOf] at hm
  obtain ⟨l, hl, hmp, rfl⟩ := negMode_some hm
  rw [hasSend_negBits, Bool.and_eq_true, allApTuples_open2CapMap] at hs
  obtain ⟨a, ha, hf, hmode⟩ := localMode_some hl
  refine ⟨⟨a, ha, hf, (mode_hasSend a).mp (by rw [hmode]; exact hs.1)⟩, (remoteStar_iff o hd f).mp hmp, ?_⟩
  rcases lastMode_mem f (allApTuples o.caps) with h0 | hmem
  · rw [h0] at hs; simp [hasRecv] at hs
  · exact ⟨_, hmem, hs.2⟩

/-- dually for receiving -/
theorem addpath_recv_only_with_complement (c : LocalCfg) (s : PeerState) (o : Open) (hd : Decoded o)
    (f : Family) (h : NegRecv (stateChange c s o) f) :
    LocalRecv c f ∧ RemoteStar o f ∧ Announces o f hasSend := by
  obtain ⟨m, hm, hs⟩ := h
  rw [stateChange_familyMap, fmLookup_familyMapOf] at hm
  obtain ⟨l, hl, hmp, rfl⟩ := negMode_some hm
  rw [hasRecv_negBits, Bool.and_eq_true, allApTuples_open2CapMap] at hs
  obtain ⟨a, ha, hf, hmode⟩ := localMode_some hl
  refine ⟨⟨a, ha, hf, (mode_hasRecv a).mp (by rw [hmode]; exact hs.1)⟩, (remoteStar_iff o hd f).mp hmp, ?_⟩
  rcases lastMode_mem f (allApTuples o.caps) with h0 | hmem
  · rw [h0] at hs; simp [hasSend] at hs
  · exact ⟨_, hmem, hs.2⟩

/-
  The full "iff" claim
      NegSend (stateChange c s o) f ↔ LocalSend c f ∧ RemoteStar o f ∧ Announces o f hasRecv
  is FALSE of the code when the peer's ADD-PATH tuples for one family contradict each other: the
  inner loops of open2Cap keep the LAST tuple.  RFC 7911 does not say how to read such an OPEN and
  "the last one" is a defensible reading that errs on the side of NOT using ADD-PATH, so this is
  recorded as a decision of the code, not as a defect: counterexample + the `_partial` form.
-/
theorem addpath_send_iff_counterexample :
    let c : LocalCfg := { (default : LocalCfg) with afs := [⟨ipv4uc, false, 8, false, false, 0⟩] }
    let o : Open := { (default : Open) with params := [.caps [.mp ipv4uc, .addPath [(ipv4uc, 3), (ipv4uc, 0)]]] }
    (LocalSend c ipv4uc ∧ RemoteStar o ipv4uc ∧ Announces o ipv4uc hasRecv) ∧
      ¬ NegSend (stateChange c default o) ipv4uc := by
  refine ⟨⟨⟨_, List.mem_cons_self, rfl, by decide⟩, Or.inl (by unfold RemoteMP; decide), ⟨3, by decide, by decide⟩⟩, ?_⟩
  rintro ⟨m, hm, hs⟩
  have : fmLookup (stateChange { (default : LocalCfg) with afs := [⟨ipv4uc, false, 8, false, false, 0⟩] } default
      { (default : Open) with params := [.caps [.mp ipv4uc, .addPath [(ipv4uc, 3), (ipv4uc, 0)]]] }).familyMap ipv4uc
      = some 0 := by decide
  rw [this] at hm
  cases hm
  exact absurd hs (by decide)

/-- **ADD-PATH send, exactly** — for OPENs whose ADD-PATH tuples for `f` do not contradict each
    other and a configuration without repeated families -/
theorem addpath_send_iff_partial (c : LocalCfg) (s : PeerState) (o : Open) (hd : Decoded o) (f : Family)
    (hn : NodupFamilies c) (hc : NoConflict o f) :
    NegSend (stateChange c s o) f ↔ LocalSend c f ∧ RemoteStar o f ∧ Announces o f hasRecv := by
  constructor
  · exact addpath_send_only_with_complement c s o hd f
  · rintro ⟨⟨a, ha, hf, hsend⟩, hstar, ⟨m, hm, hbit⟩⟩
    have hl : localMode c.afs f = some a.mode :=
      localMode_agree (fun b hb hbf => by rw [hn b hb a ha (hbf.trans hf.symm)]) ⟨a, ha, hf⟩
    have hr : (remoteMode (open2CapMap o.caps) f).isSome = true :=
      (remoteMode_isSome _ f).mpr ((remoteStar_iff o hd f).mpr hstar)
    cases hrm : remoteMode (open2CapMap o.caps) f with
    | none => rw [hrm] at hr; cases hr
    | some r =>
      obtain ⟨_, hr2⟩ := remoteMode_some hrm
      rw [allApTuples_open2CapMap] at hr2
      refine ⟨negBits a.mode r, ?_, ?_⟩
      · rw [stateChange_familyMap, fmLookup_familyMapOf]
        simp [negMode, hl, hrm]
      · rw [hasSend_negBits, Bool.and_eq_true]
        refine ⟨(mode_hasSend a).mpr hsend, ?_⟩
        rw [hr2, lastMode_agree f _ hasRecv m hm (fun m' hm' => (hc m' m hm' hm).1)]
        exact hbit

theorem addpath_recv_iff_partial (c : LocalCfg) (s : PeerState) (o : Open) (hd : Decoded o) (f : Family)
    (hn : NodupFamilies c) (hc : NoConflict o f) :
    NegRecv (stateChange c s o) f ↔ LocalRecv c f ∧ RemoteStar o f ∧ Announces o f hasSend := by
  constructor
  · exact addpath_recv_only_with_complement c s o hd f
  · rintro ⟨⟨a, ha, hf, hrecv⟩, hstar, ⟨m, hm, hbit⟩⟩
    have hl : localMode c.afs f = some a.mode :=
      localMode_agree (fun b hb hbf => by rw [hn b hb a ha (hbf.trans hf.symm)]) ⟨a, ha, hf⟩
    have hr : (remoteMode (open2CapMap o.caps) f).isSome = true :=
      (remoteMode_isSome _ f).mpr ((remoteStar_iff o hd f).mpr hstar)
    cases hrm : remoteMode (open2CapMap o.caps) f with
    | none => rw [hrm] at hr; cases hr
    | some r =>
      obtain ⟨_, hr2⟩ := remoteMode_some hrm
      rw [allApTuples_open2CapMap] at hr2
      refine ⟨negBits a.mode r, ?_, ?_⟩
      · rw [stateChange_familyMap, fmLookup_familyMapOf]
        simp [negMode, hl, hrm]
      · rw [hasRecv_negBits, Bool.and_eq_true]
        refine ⟨(mode_hasRecv a).mpr hrecv, ?_⟩
        rw [hr2, lastMode_agree f _ hasSend m hm (fun m' hm' => (hc m' m hm' hm).2)]
        exact hbit

example : NegSend (stateChange { (default : LocalCfg) with afs := [⟨ipv4uc, false, 8, false, false, 0⟩] } default
    { (default : Open) with params := [.caps [.addPath [(ipv4uc, 1)]]] }) ipv4uc := ⟨2, by decide, by decide⟩

/-! ## 4-octet AS numbers, extended messages, message size -/

theorem local_announces_as4 (c : LocalCfg) : Cap.as4 c.localAs ∈ (buildOpen c).caps := by
  rw [buildOpen_caps, mem_capsFromConfig]; simp

theorem hasCap65_iff (o : Open) (hd : Decoded o) : hasCap 65 o.caps = true ↔ RemoteAs4 o := by
  rw [hasCap_iff]
  constructor
  · rintro ⟨cp, hcp, hcode⟩
    cases cp with
    | as4 v => exact ⟨v, hcp⟩
    | other k => exact absurd hcode (hd k hcp).2.1
    | _ => simp [Cap.code] at hcode
  · rintro ⟨v, hv⟩; exact ⟨_, hv, rfl⟩

/-- **4-octet AS_PATH encoding iff both announced it** (we always do: `local_announces_as4`) -/
theorem as4_iff_both (c : LocalCfg) (s : PeerState) (o : Open) (hd : Decoded o) :
    (stateChange c s o).twoByteAs = false ↔ RemoteAs4 o ∧ (∃ v, Cap.as4 v ∈ (buildOpen c).caps) := by
  rw [stateChange_twoByteAs, hasCap_open2CapMap _ 65 (by decide) (by decide), localHasAs4_true, ← hasCap65_iff o hd]
  have := local_announces_as4 c
  cases hasCap 65 o.caps <;> simp
  exact ⟨_, this⟩

example : (stateChange default default { (default : Open) with params := [.caps [.as4 70000]] }).twoByteAs = false := by
  decide

theorem hasCap6_iff (o : Open) (hd : Decoded o) : hasCap 6 o.caps = true ↔ RemoteExt o := by
  rw [hasCap_iff]
  constructor
  · rintro ⟨cp, hcp, hcode⟩
    cases cp with
    | extMsg => exact hcp
    | other k => exact absurd hcode (hd k hcp).2.2.2.1
    | _ => simp [Cap.code] at hcode
  · intro h; exact ⟨_, h, rfl⟩

theorem local_announces_ext (c : LocalCfg) : Cap.extMsg ∈ (buildOpen c).caps := by
  rw [buildOpen_caps, mem_capsFromConfig]; simp

/-- **extended messages iff the peer announced the capability** (we always announce it) -/
theorem ext_iff_both (c : LocalCfg) (s : PeerState) (o : Open) (hd : Decoded o) :
    (stateChange c s o).extMsg = true ↔ RemoteExt o ∧ Cap.extMsg ∈ (buildOpen c).caps := by
  rw [stateChange_extMsg, hasCap_open2CapMap _ 6 (by decide) (by decide), hasCap6_iff o hd]
  exact ⟨fun h => ⟨h, local_announces_ext c⟩, fun h => h.1⟩

/-- **message size**: what the receive gate accepts and what the serialiser emits is 65535 octets for
    UPDATE / NOTIFICATION / ROUTE-REFRESH when the peer announced Extended Message, 4096 octets in
    every other case; in particular never more than 4096 for OPEN and KEEPALIVE. -/
theorem max_len (c : LocalCfg) (s : PeerState) (o : Open) (hd : Decoded o) (t : MsgType) :
    let s' := stateChange c s o
    recvMaxLen s' t = sendMaxLen s' t ∧
    (RemoteExt o ∧ (t = .update ∨ t = .notification ∨ t = .routeRefresh) → recvMaxLen s' t = 65535) ∧
    (¬ (RemoteExt o ∧ (t = .update ∨ t = .notification ∨ t = .routeRefresh)) → recvMaxLen s' t = 4096) ∧
    recvMaxLen s' .open = 4096 ∧ recvMaxLen s' .keepalive = 4096 := by
  intro s'
  have he : s'.extMsg = true ↔ RemoteExt o := by
    rw [ext_iff_both c s o hd]; exact ⟨fun h => h.1, fun h => ⟨h, local_announces_ext c⟩⟩
  refine ⟨rfl, ?_, ?_, ?_, ?_⟩
  · rintro ⟨hx, ht⟩
    unfold recvMaxLen
    rw [if_pos (he.mpr hx)]
    rcases ht with rfl | rfl | rfl <;> rfl
  · intro hn
    unfold recvMaxLen
    by_cases h : s'.extMsg = true
    · rw [if_pos h]
      have hx := he.mp h
      cases t <;> first | rfl | exact absurd ⟨hx, by simp⟩ hn
    · rw [if_neg h]
  · unfold recvMaxLen; split <;> rfl
  · unfold recvMaxLen; split <;> rfl

example : recvMaxLen (stateChange default default { (default : Open) with params := [.caps [.extMsg]] }) .update = 65535 := by
  decide

/-- **the limit is on the TOTAL length, header included, and it is inclusive**: a message whose
    serialisation (19-octet header + body) is `total` octets long is written by the sender iff
    `total` ≤ the session maximum of `max_len`, and that is exactly when the receive gate of the same
    session would let it through; one octet more is neither emitted nor accepted.  A NOTIFICATION sent
    by fsm.sendNotification is never longer than 4096 octets, extended message or not. -/
theorem emitted_total_bounded (c : LocalCfg) (s : PeerState) (o : Open) (t : MsgType) (total : Nat)
    (h : headerLen ≤ total) :
    let s' := stateChange c s o
    (sendWrites s' t total = total ↔ total ≤ sendMaxLen s' t) ∧
    (sendWrites s' t total = 0 ↔ sendMaxLen s' t < total) ∧
    (recvFits s' t total = true ↔ total ≤ recvMaxLen s' t) ∧
    sendWrites s' t total ≤ sendMaxLen s' t ∧
    (notifWrites total = total ↔ total ≤ 4096) ∧ notifWrites total ≤ 4096 := by
  intro s'
  unfold headerLen at h
  have e : 19 + (total - 19) = total := by omega
  have hlt : ¬ total < 19 := by omega
  unfold sendWrites notifWrites serializeFits recvFits headerLen
  rw [if_neg hlt, if_neg hlt, e]
  have hsr : recvMaxLen s' t = sendMaxLen s' t := rfl
  rw [hsr]
  by_cases hm : total > sendMaxLen s' t <;> by_cases h4 : total > 4096 <;> simp [hm, h4] <;> omega

example : sendWrites (stateChange default default default) .update 4096 = 4096 ∧
    sendWrites (stateChange default default default) .update 4097 = 0 ∧
    sendWrites (stateChange default default default) .update 4115 = 0 ∧
    sendWrites (stateChange default default { (default : Open) with params := [.caps [.extMsg]] }) .update 65535 = 65535 ∧
    sendWrites (stateChange default default { (default : Open) with params := [.caps [.extMsg]] }) .update 65536 = 0 ∧
    sendWrites (stateChange default default { (default : Open) with params := [.caps [.extMsg]] }) .keepalive 4097 = 0 := by
  decide

/-- **messages are parsed and emitted under exactly the negotiated options** -/
theorem codec_options (c : LocalCfg) (s : PeerState) (o : Open) :
    let s' := stateChange c s o
    recvOpts s' = sendOpts s' ∧ (recvOpts s').addPath = s'.familyMap ∧
      (recvOpts s').use2ByteAs = s'.twoByteAs ∧ (recvOpts s').extended = s'.extMsg :=
  ⟨rfl, rfl, rfl, rfl⟩

/-- **the negotiated ADD-PATH mode is consumed bit by bit**: under the options the receive path hands
    to the parsers, NLRI of family `f` are expected to carry path identifiers iff RECEIVE was negotiated
    for `f`; under the options of the send path they are written iff SEND was negotiated — for every
    negotiated mode (none / receive / send / both) and for families that are not negotiated at all. -/
theorem addpath_consumed (c : LocalCfg) (s : PeerState) (o : Open) (f : Family) :
    let s' := stateChange c s o
    (expectsPathId (recvOpts s') true f = true ↔ NegRecv s' f) ∧
    (expectsPathId (sendOpts s') false f = true ↔ NegSend s' f) := by
  intro s'
  unfold expectsPathId NegRecv NegSend recvOpts sendOpts
  simp only [if_true, Bool.false_eq_true, if_false]
  cases h : fmLookup s'.familyMap f with
  | none => simp [hasRecv, hasSend]
  | some m => simp

example : expectsPathId (recvOpts (stateChange { (default : LocalCfg) with afs := [⟨ipv4uc, false, 8, false, false, 0⟩] } default
    { (default : Open) with params := [.caps [.addPath [(ipv4uc, 3)]]] })) true ipv4uc = false ∧
  expectsPathId (sendOpts (stateChange { (default : LocalCfg) with afs := [⟨ipv4uc, false, 8, false, false, 0⟩] } default
    { (default : Open) with params := [.caps [.addPath [(ipv4uc, 3)]]] })) false ipv4uc = true := by decide

/-! ## the peer's real AS and the peer type -/

/-- **the real remote AS**: the value of the (last) 4-octet-AS capability, else the 2-octet field;
    so a peer sending AS_TRANS + the capability is known by its 4-octet AS. -/
theorem real_as (o : Open) :
    getASN o = ((o.caps.filterMap as4Val).getLast?).getD o.myAs := getASN_fold _ _

/-- **peer type and AS from the real remote AS** (for a configuration whose PeerType was derived
    from the configured AS numbers, as oc.SetDefaultNeighborConfigValues does) -/
theorem peer_type_from_real_as (c : LocalCfg) (s s' : PeerState) (o : Open)
    (hc : c.cfgInternal = (c.peerAs == c.localAs)) (h : negotiate c s o = .ok s') :
    s'.stPeerAs = getASN o ∧ (s'.stInternal = true ↔ getASN o = c.localAs) ∧
      (s'.isEBGP = true ↔ getASN o ≠ c.localAs) ∧ (s'.isConfed = true ↔ getASN o ∈ c.confedMembers) := by
  obtain ⟨rfl, _, _, hp, _, _⟩ := accepted_open c s s' o h
  refine ⟨stateChange_stPeerAs c s o, ?_, ?_, ?_⟩
  · rw [stateChange_stInternal]
    by_cases h0 : c.peerAs = 0
    · simp [h0]; exact eq_comm
    · rw [if_neg h0, hc, hp h0]; simp
  · rw [stateChange_isEBGP]; simp
  · rw [stateChange_isConfed]; simp

example : (stateChange { (default : LocalCfg) with localAs := 70000 } default
    { (default : Open) with myAs := 23456, params := [.caps [.as4 70000]] }).stInternal = true := by decide

/-- **the session's AS and peer type come from the NEIGHBOUR's effective configuration and the OPEN**,
    however the configuration is given (peer-as configured or 0 = learnt from the OPEN; local-as
    = the global AS, a per-neighbour override, or the confederation identifier): with the
    configuration layer's defaults applied, the AS our OPEN announces is the neighbour's effective
    local AS, the session is internal iff the AS in the peer's OPEN EQUALS THE AS OUR OPEN ANNOUNCED —
    the global AS plays no role beyond the defaults — and isEBGP is its negation. -/
theorem session_as_from_neighbor_config (g : GlobalCfg) (cfgLocalAs : Nat) (c : LocalCfg) (s s' : PeerState) (o : Open)
    (h : negotiate (applyDefaults g cfgLocalAs c) s o = .ok s') :
    let c' := applyDefaults g cfgLocalAs c
    getASN (buildOpen c') = (if cfgLocalAs = 0 then getLocalAsForPeer g c.peerAs else cfgLocalAs) ∧
    s'.stPeerAs = getASN o ∧
    (s'.stInternal = true ↔ getASN o = getASN (buildOpen c')) ∧
    (s'.isEBGP = true ↔ getASN o ≠ getASN (buildOpen c')) ∧
    (s'.isConfed = true ↔ getASN o ∈ g.members) := by
  intro c'
  have hc : c'.cfgInternal = (c'.peerAs == c'.localAs) := rfl
  have hopen : getASN (buildOpen c') = c'.localAs := by
    rw [real_as, buildOpen_caps]
    have : (capsFromConfig c').filterMap as4Val = [c'.localAs] := by
      unfold capsFromConfig
      simp only [List.filterMap_append]
      rw [filterMap_as4Val_nil (swCaps c') (fun x hx => by rw [swCaps_code c' x hx]; decide),
        filterMap_as4Val_nil (mpCaps c') (fun x hx => by rw [mpCaps_code c' x hx]; decide),
        filterMap_as4Val_nil (grCaps c') (fun x hx => by rcases grCaps_code c' x hx with h | h <;> rw [h] <;> decide),
        filterMap_as4Val_nil (extNhCaps c') (fun x hx => by rw [extNhCaps_code c' x hx]; decide),
        filterMap_as4Val_nil (capAddPathFromConfig c') (fun x hx => by rw [capAddPath_code c' x hx]; decide)]
      simp [as4Val, List.filterMap_cons]
    rw [this]; rfl
  obtain ⟨h1, h2, h3, h4⟩ := peer_type_from_real_as c' s s' o hc h
  rw [hopen]
  exact ⟨rfl, h1, h2, h3, h4⟩

example : (stateChange (applyDefaults ⟨65000, false, 0, []⟩ 65100 default) default
      { (default : Open) with myAs := 65100 }).stInternal = true ∧
    (stateChange (applyDefaults ⟨65000, false, 0, []⟩ 65100 default) default
      { (default : Open) with myAs := 65000 }).isEBGP = true ∧
    (applyDefaults ⟨65000, true, 64999, [65001]⟩ 0 { (default : LocalCfg) with peerAs := 70000 }).localAs = 64999 ∧
    (applyDefaults ⟨65000, true, 64999, [65001]⟩ 0 { (default : LocalCfg) with peerAs := 65001 }).localAs = 65000 := by
  decide

/-! ## a re-established session does not inherit anything -/

/-- **nothing of an earlier session survives**: every negotiated parameter of this property (and the
    session-wide GR / LLGR flags) is a function of the configuration and of THIS OPEN only, whatever
    state earlier sessions left on the peer.  (The per-family GR flags are reset too — compared by
    the harness against a fresh fsm — but have no theorem here.) -/
theorem session_independent_of_history (c : LocalCfg) (s₁ s₂ : PeerState) (o : Open) :
    let a := stateChange c s₁ o
    let b := stateChange c s₂ o
    a.capMap = b.capMap ∧ a.familyMap = b.familyMap ∧ a.extMsg = b.extMsg ∧ a.twoByteAs = b.twoByteAs ∧
    a.hold = b.hold ∧ a.ka3 = b.ka3 ∧ a.stInternal = b.stInternal ∧ a.stPeerAs = b.stPeerAs ∧
    a.isEBGP = b.isEBGP ∧ a.isConfed = b.isConfed ∧ a.grEnabled = b.grEnabled ∧
    a.peerRestartTime = b.peerRestartTime ∧ a.notifEnabled = b.notifEnabled ∧ a.llgrEnabled = b.llgrEnabled := by
  intro a b
  have hg := stateChange_grScalars c s₁ s₂ o
  unfold grScalars at hg
  simp only [Prod.mk.injEq] at hg
  refine ⟨?_, ?_, ?_, ?_, ?_, ?_, ?_, ?_, ?_, ?_, hg.1, hg.2.1, hg.2.2.1, hg.2.2.2⟩
  · show (stateChange c s₁ o).capMap = (stateChange c s₂ o).capMap
    rw [stateChange_capMap, stateChange_capMap]
  · show (stateChange c s₁ o).familyMap = (stateChange c s₂ o).familyMap
    rw [stateChange_familyMap, stateChange_familyMap]
  · show (stateChange c s₁ o).extMsg = (stateChange c s₂ o).extMsg
    rw [stateChange_extMsg, stateChange_extMsg]
  · show (stateChange c s₁ o).twoByteAs = (stateChange c s₂ o).twoByteAs
    rw [stateChange_twoByteAs, stateChange_twoByteAs]
  · show (stateChange c s₁ o).hold = (stateChange c s₂ o).hold
    rw [stateChange_hold, stateChange_hold]
  · show (stateChange c s₁ o).ka3 = (stateChange c s₂ o).ka3
    rw [stateChange_ka3, stateChange_ka3]
  · show (stateChange c s₁ o).stInternal = (stateChange c s₂ o).stInternal
    rw [stateChange_stInternal, stateChange_stInternal]
  · show (stateChange c s₁ o).stPeerAs = (stateChange c s₂ o).stPeerAs
    rw [stateChange_stPeerAs, stateChange_stPeerAs]
  · show (stateChange c s₁ o).isEBGP = (stateChange c s₂ o).isEBGP
    rw [stateChange_isEBGP, stateChange_isEBGP]
  · show (stateChange c s₁ o).isConfed = (stateChange c s₂ o).isConfed
    rw [stateChange_isConfed, stateChange_isConfed]

example : (stateChange { (default : LocalCfg) with grEnabled := true }
    (stateChange { (default : LocalCfg) with grEnabled := true } default
      { (default : Open) with params := [.caps [.gr 4 120 []]] })
    default).grEnabled = false := by decide

/-! ## the OPEN we send reflects the configuration -/

/-- fixed fields; AS_TRANS exactly for a 4-octet local AS; the real AS is always recoverable -/
theorem open_fixed_fields (c : LocalCfg) (hh : c.hold < 65536) :
    (buildOpen c).version = 4 ∧ (buildOpen c).hold = c.hold ∧ (buildOpen c).id = c.routerId ∧
    (buildOpen c).myAs = (if c.localAs ≤ 65535 then c.localAs else asTrans) ∧
    getASN (buildOpen c) = c.localAs := by
  refine ⟨rfl, Nat.mod_eq_of_lt hh, rfl, ?_, ?_⟩
  · simp only [buildOpen]; split <;> split <;> first | rfl | omega
  · rw [real_as, buildOpen_caps]
    have : (capsFromConfig c).filterMap as4Val = [c.localAs] := by
      unfold capsFromConfig
      simp only [List.filterMap_append]
      rw [filterMap_as4Val_nil (swCaps c) (fun x hx => by rw [swCaps_code c x hx]; decide),
        filterMap_as4Val_nil (mpCaps c) (fun x hx => by rw [mpCaps_code c x hx]; decide),
        filterMap_as4Val_nil (grCaps c) (fun x hx => by rcases grCaps_code c x hx with h | h <;> rw [h] <;> decide),
        filterMap_as4Val_nil (extNhCaps c) (fun x hx => by rw [extNhCaps_code c x hx]; decide),
        filterMap_as4Val_nil (capAddPathFromConfig c) (fun x hx => by rw [capAddPath_code c x hx]; decide)]
      simp [as4Val, List.filterMap_cons]
    rw [this]; rfl

/-- the multiprotocol capabilities are exactly the configured families -/
theorem open_families (c : LocalCfg) (f : Family) : Cap.mp f ∈ (buildOpen c).caps ↔ LocalHas c f := by
  rw [buildOpen_caps, mem_capsFromConfig]
  unfold LocalHas
  constructor
  · rintro (h | h | h | h | h | h | h | h | h)
    · cases h
    · cases h
    · have := swCaps_code c _ h; simp [Cap.code] at this
    · cases h
    · obtain ⟨a, ha, he⟩ := List.mem_map.mp h
      exact ⟨a, ha, by injection he⟩
    · cases h
    · have := grCaps_code c _ h; simp [Cap.code] at this
    · have := extNhCaps_code c _ h; simp [Cap.code] at this
    · have := capAddPath_code c _ h; simp [Cap.code] at this
  · rintro ⟨a, ha, rfl⟩
    exact Or.inr (Or.inr (Or.inr (Or.inr (Or.inl (List.mem_map.mpr ⟨a, ha, rfl⟩)))))

/-- the ADD-PATH tuples announce exactly the configured directions -/
theorem open_addpath (c : LocalCfg) (f : Family) (m : Nat) :
    (f, m) ∈ allApTuples (buildOpen c).caps ↔ ∃ a ∈ c.afs, a.family = f ∧ a.mode = m ∧ m > 0 := by
  rw [buildOpen_caps, allApTuples_capsFromConfig, List.mem_filterMap]
  constructor
  · rintro ⟨a, ha, h⟩
    by_cases hm : a.mode > 0
    · rw [if_pos hm] at h
      injection h with h; injection h with h1 h2
      exact ⟨a, ha, h1, h2, by omega⟩
    · rw [if_neg hm] at h; cases h
  · rintro ⟨a, ha, rfl, rfl, hm⟩
    exact ⟨a, ha, by rw [if_pos hm]⟩

example : (buildOpen { (default : LocalCfg) with localAs := 4200000000 }).myAs = 23456 := by decide

end C08
