import Model.Wire
import Model.ErrHandling
import Model.ParseTotal
import Lemmas.PTotA
import Lemmas.PTotB
/-!
# C05 — no byte string can crash, hang or over-read the BGP message parser; anything it returns can be
# rendered, measured and re-serialised

WHAT IS PROVED HERE is about the hand-written byte models of gobgp's parser:

* `Wire.parse` (Model/Wire.lean, C04): strict ParseBGPMessage for the header, KEEPALIVE, NOTIFICATION,
  ROUTE-REFRESH, UPDATE framing with IPv4 NLRI (with / without path ids) and 14 attribute types;
* `PTot.parseL` (Model/ParseTotal.lean A): the same parser as the daemon uses it — an UPDATE is handed back
  together with a non-fatal error, discard-class attributes dropped, other faulty attributes kept half-decoded;
* `PTot.parseOpen / decOpen / decCap` (Model/ParseTotal.lean B): OPEN, optional parameters and every
  capability TLV, written with CHECKED indexing — `panic` is an explicit outcome of the model wherever the Go
  expression `d[i]`, `d[a:b]`, `binary.BigEndian.Uint16(d)` would raise a run-time panic;
* `PTot.recvBodyLen` (Model/ParseTotal.lean C): how many octets fsm.go reads after the 19-octet header.

All byte strings are arbitrary `List Nat` (no well-formedness hypothesis anywhere below): these are for-all-inputs
statements.  They are tied to the Go code by the correspondence run of the check (same inputs, same answers).

WHAT IS NOT PROVED: that the Go parser itself does not panic, hang, over-allocate or read beyond a slice —
for the 26 NLRI families, MP_REACH/MP_UNREACH, extended communities, tunnel-encap, BGP-LS, prefix-SID, SR policy,
MUP, VPLS, EVPN, FlowSpec … this is established only by the mutation-driven run of the harness
(go/overlay/pkg/packet/bgp/zz_verif_c05_test.go): a test, not a proof.  In the Lean models totality and
`input_unchanged` (the caller's buffer is not modified) hold by construction — every definition is a total
function on immutable lists — so they are remarks, not theorems.
-/
namespace C05
open Wire PTot

/-! ## 1. No over-read: octets beyond the declared message length never influence the result -/

/-- **decode_prefix_irrelevant** — strict parser.  If the header of `bs` declares a length `L` with
    `19 ≤ L ≤ |bs|`, then parsing `bs` followed by ANY further octets (the next message in the stream, spare
    buffer contents, …) gives the same result as parsing `bs`, which is the result of parsing the first `L`
    octets alone.  (`h64`: the Go code compares `uint16(len(data))`, so buffers are kept below 2^16.) -/
theorem decode_prefix_irrelevant (o : Opts) (bs extra : Bytes)
    (h19 : 19 ≤ rd16 (bs.drop 16)) (hdecl : rd16 (bs.drop 16) ≤ bs.length)
    (h64 : (bs ++ extra).length < 65536) :
    parse o (bs ++ extra) = parse o bs ∧ parse o bs = parse o (bs.take (rd16 (bs.drop 16))) :=
  PTotL.parse_prefix_irrelevant o bs extra h19 hdecl h64

/-- the same for the lenient parser (value + non-fatal error) -/
theorem decode_prefix_irrelevant_lenient (o : Opts) (bs extra : Bytes)
    (h19 : 19 ≤ rd16 (bs.drop 16)) (hdecl : rd16 (bs.drop 16) ≤ bs.length)
    (h64 : (bs ++ extra).length < 65536) :
    parseL o (bs ++ extra) = parseL o bs ∧ parseL o bs = parseL o (bs.take (rd16 (bs.drop 16))) :=
  PTotL.parseL_prefix_irrelevant o bs extra h19 hdecl h64

/-- the same for OPEN messages -/
theorem decode_prefix_irrelevant_open (bs extra : Bytes)
    (h19 : 19 ≤ rd16 (bs.drop 16)) (hdecl : rd16 (bs.drop 16) ≤ bs.length)
    (h64 : (bs ++ extra).length < 65536) :
    parseOpen (bs ++ extra) = parseOpen bs ∧ parseOpen bs = parseOpen (bs.take (rd16 (bs.drop 16))) :=
  PTotL.parseOpen_prefix_irrelevant bs extra h19 hdecl h64

example : 19 ≤ rd16 ((List.replicate 16 255 ++ [0, 23, 2, 0, 0, 0, 0]).drop 16) ∧
    rd16 ((List.replicate 16 255 ++ [0, 23, 2, 0, 0, 0, 0]).drop 16) ≤ (List.replicate 16 255 ++ [0, 23, 2, 0, 0, 0, 0]).length ∧
    ((List.replicate 16 255 ++ [0, 23, 2, 0, 0, 0, 0]) ++ [9, 9, 9]).length < 65536 := by decide

/-! ## 2. No hang: every decoder loop finishes within its counter

The loops of the models carry a `fuel` argument only because Lean wants structural recursion.  The theorems
say the fuel is never what stops a loop: started with fuel equal to the loop's own counter (octets left, or the
declared length left) the result is the same as with ANY larger fuel — each iteration takes at least one octet
(3 for an attribute, 2 for a capability / optional parameter / AS segment) off the counter. -/

/-- withdrawn-routes loop and NLRI loop of BGPUpdate.DecodeFromBytes -/
theorem nlri_loops_bounded (ap : Bool) (f : Nat) (d : Bytes) :
    (∀ rl, rl ≤ f → decWithdrawn ap f rl d = decWithdrawn ap rl rl d) ∧
    (d.length ≤ f → decNlriTail ap f d = decNlriTail ap d.length d) :=
  ⟨fun rl h => PTotL.decWithdrawn_fuel ap f rl d h, fun h => PTotL.decNlriTail_fuel ap f d h⟩

/-- path-attribute loop, strict and lenient.  `hd`: an attribute of 65536 octets would make `uint16(p.Len())`
    wrap to 0; inside a BGP message (< 2^16 octets) that cannot happen. -/
theorem attr_loop_bounded (o : Opts) (f pl : Nat) (d : Bytes) (cur : Option ErrH.MErr) (h : pl ≤ f)
    (hd : d.length < 65536) :
    decAttrs o f pl d = decAttrs o pl pl d ∧ decAttrsL o f pl d cur = decAttrsL o pl pl d cur :=
  ⟨PTotL.decAttrs_fuel o f pl d h hd, PTotL.decAttrsL_fuel o f pl d cur h hd⟩

/-- AS_PATH: validateAsPathValueBytes and the segment loop -/
theorem aspath_loops_bounded (w4 : Bool) (f : Nat) (v : Bytes) (h : v.length ≤ f) :
    validateAsLoop w4 f v = validateAsLoop w4 v.length v ∧ decSegs w4 f v = decSegs w4 v.length v :=
  ⟨PTotL.validateAsLoop_fuel w4 f v h, PTotL.decSegs_fuel w4 f v h⟩

/-- OPEN: optional-parameter loop, capability loop, and the tuple loops of the extended-next-hop, ADD-PATH /
    graceful-restart and long-lived-graceful-restart capabilities -/
theorem open_loops_bounded (f n : Nat) (d : Bytes) :
    (n ≤ f → decOptParams f n d = decOptParams n n d) ∧
    (d.length ≤ f → decCaps f d = decCaps d.length d) ∧
    (n ≤ f → capTuples6 f n d = capTuples6 n n d ∧ capTuples4 f n d = capTuples4 n n d ∧
             capTuples7 f n d = capTuples7 n n d) :=
  ⟨fun h => PTotO.decOptParams_fuel f n d h, fun h => PTotO.decCaps_fuel f d h,
   fun h => ⟨PTotO.capTuples6_fuel f n d h, PTotO.capTuples4_fuel f n d h, PTotO.capTuples7_fuel f n d h⟩⟩

/-- **decode_total_bounded** — what comes back is no larger than what went in: the number of withdrawn
    routes, path attributes and NLRI of a decoded UPDATE (strict or lenient) never exceeds the number of input
    octets (no allocation amplification in the modelled core). -/
theorem decode_total_bounded (o : Opts) (bs : Bytes) (h64 : bs.length < 65536) :
    (∀ hl t u, parse o bs = .ok ⟨hl, t, .update u⟩ →
        u.withdrawn.length + u.attrs.length + u.nlri.length ≤ bs.length) ∧
    (∀ hl t u e, parseL o bs = .msg ⟨hl, t, .update u⟩ e →
        u.withdrawn.length + u.attrs.length + u.nlri.length ≤ bs.length) :=
  ⟨fun _ _ _ h => PTotL.parse_count h h64, fun _ _ _ _ h => PTotL.parseL_count h h64⟩

/-- the same for OPEN: every optional parameter costs at least 2 octets, every capability too -/
theorem decode_total_bounded_open (d : Bytes) :
    (∀ op, decOpen d = .ok op → 10 + 2 * op.params.length ≤ d.length) ∧
    (∀ f cs, decCaps f d = .ok cs → 2 * cs.length ≤ d.length) :=
  ⟨fun _ h => PTotO.decOpen_count h, fun _ _ h => PTotO.decCaps_count h⟩

example : decAttrsL ⟨false, false, false, false⟩ 99 4 [64, 1, 1, 0, 7] none =
    decAttrsL ⟨false, false, false, false⟩ 4 4 [64, 1, 1, 0, 7] none := rfl

/-! ## 3. No crash in the OPEN / capability decoders: the length tests cover every index expression -/

/-- **open_no_panic** — for EVERY octet string, BGPOpen.DecodeFromBytes (and ParseBGPMessage of an OPEN) ends
    with a value or with the decoder's own error, never in an out-of-range index / slice / BigEndian read. -/
theorem open_no_panic (d : Bytes) : decOpen d ≠ .error .panic ∧ parseOpen d ≠ .error .panic :=
  ⟨PTotO.decOpen_no_panic d, PTotO.parseOpen_no_panic d⟩

/-- **cap_no_panic** — the same for DecodeCapability (13 capability codes + unknown) and for the capability
    loop of OptionParameterCapability.DecodeFromBytes -/
theorem cap_no_panic (f : Nat) (d : Bytes) : decCap d ≠ .error .panic ∧ decCaps f d ≠ .error .panic :=
  ⟨PTotO.decCap_no_panic d, PTotO.decCaps_no_panic f d⟩

/-- the guards are what makes it true: the optional-parameter loop on its own, started with a counter larger
    than the data (the test `len(data) < OptParamLen` of BGPOpen.DecodeFromBytes removed), does index out of
    range — `panic` is a reachable outcome of the model, the theorems above are not vacuous -/
theorem optparams_unguarded_counterexample : decOptParams 2 2 [2] = .error .panic := rfl

example : decCap [64, 6, 0x40, 120, 0, 1, 1, 0x80] = .ok ⟨64, 6, [4, 120, 1, 1, 128]⟩ := rfl
example : decCap [73, 2, 5, 0] = .error .reject := rfl

/-! ## 4. Everything handed back can be measured and re-serialised -/

/-- **render_total** — every message the lenient parser returns, INCLUDING one returned together with an
    attribute-discard or treat-as-withdraw class error (half-decoded attributes inside), has a header length
    within the input, and BGPMessage.Serialize succeeds on it (Header.Len is set, so the size cap is not even
    consulted) with exactly the octets header ++ body. -/
theorem render_total (o : Opts) (bs : Bytes) (m : LMsg) (e : Option ErrH.MErr)
    (h : parseL o bs = .msg m e) :
    19 ≤ m.hlen ∧ m.hlen ≤ bs.length ∧
    serializeL o m = some (encHeader m.hlen m.typ ++ encBodyL o m.body) :=
  PTotL.render_total h

/-- the same for the strict parser -/
theorem render_total_strict (o : Opts) (bs : Bytes) (m : Msg) (h : parse o bs = .ok m) :
    19 ≤ m.hlen ∧ m.hlen ≤ bs.length ∧
    ∃ m', serialize o m = some (encHeader m.hlen m.typ ++ encBody o m.body, m') ∧
      m'.hlen = m.hlen ∧ m'.typ = m.typ :=
  PTotL.render_total_strict h

/-- an error that accompanies a returned message is never of the session-reset class (those return no
    usable message) and never "none" -/
theorem nonfatal_error_class (o : Opts) (bs : Bytes) (m : LMsg) (e : ErrH.MErr)
    (h : parseL o bs = .msg m (some e)) : e.h ≠ .reset ∧ e.h ≠ .none :=
  PTotL.parseL_err_not_reset h

/-- `PathAttribute.Len()` of anything in the returned list is at least the 3-octet header: the loop that
    walks a returned attribute list by `Len()` always advances -/
theorem attr_len_positive (a : LAttr) : 3 ≤ a.len := PTotL.lattrLen_ge a

/-- non-vacuity: an UPDATE whose ORIGIN has length 2 comes back with the half-decoded attribute and a
    treat-as-withdraw error, and serialises -/
example : parseL ⟨false, false, false, false⟩
      (List.replicate 16 255 ++ [0, 28, 2, 0, 0, 0, 5, 64, 1, 2, 0, 0]) =
    .msg ⟨28, 2, .update ⟨0, [], 5, [.half 64 1 2], []⟩⟩ (some ⟨3, 1, .withdraw⟩) := rfl

/-! ## 5. The receive path reads exactly the declared message, bounded by the negotiated maximum -/

/-- **recv_bounded** — after a header that `recvMessageWithError` accepts, the number of further octets read
    is `Header.Len - 19`, and the whole message is at most 4096 octets — 65535 only for UPDATE / NOTIFICATION /
    ROUTE-REFRESH once the extended-message capability is negotiated. -/
theorem recv_bounded (ext : Bool) (hdr : Bytes) (n : Nat) (h : recvBodyLen ext hdr = some n) :
    n + 19 = rd16 (hdr.drop 16) ∧
    n + 19 ≤ (if ext = true ∧ (hdr.getD 18 0 = 2 ∨ hdr.getD 18 0 = 3 ∨ hdr.getD 18 0 = 5) then 65535 else 4096) := by
  unfold recvBodyLen at h
  by_cases h1 : hdr.length % 65536 < 19
  · rw [if_pos h1] at h; cases h
  · rw [if_neg h1] at h
    by_cases h2 : hdr.take 16 ≠ marker
    · rw [if_pos h2] at h; cases h
    · rw [if_neg h2] at h
      dsimp only at h
      by_cases h3 : rd16 (hdr.drop 16) < 19
      · rw [if_pos h3] at h; cases h
      · rw [if_neg h3] at h
        by_cases h4 : rd16 (hdr.drop 16) > maxLen ⟨false, false, false, ext⟩ (hdr.getD 18 0)
        · rw [if_pos h4] at h; cases h
        · rw [if_neg h4] at h
          have hn : rd16 (hdr.drop 16) - 19 = n := by injection h
          refine ⟨by omega, ?_⟩
          have hm : rd16 (hdr.drop 16) ≤ maxLen ⟨false, false, false, ext⟩ (hdr.getD 18 0) := by omega
          unfold maxLen at hm
          by_cases hc : ext = true ∧ (hdr.getD 18 0 = 2 ∨ hdr.getD 18 0 = 3 ∨ hdr.getD 18 0 = 5)
          · rw [if_pos hc]
            have : rd16 (hdr.drop 16) ≤ 65535 := by
              split at hm <;> omega
            omega
          · rw [if_neg hc]
            have : rd16 (hdr.drop 16) ≤ 4096 := by
              split at hm
              · rename_i hx
                exfalso; apply hc
                simp only [Bool.and_eq_true, Bool.or_eq_true, decide_eq_true_eq] at hx
                refine ⟨hx.1, ?_⟩
                rcases hx.2 with (h | h) | h
                · exact Or.inl h
                · exact Or.inr (Or.inl h)
                · exact Or.inr (Or.inr h)
              · exact hm
            omega

example : recvBodyLen true (List.replicate 16 255 ++ [255, 255, 2]) = some 65516 := by decide
example : recvBodyLen false (List.replicate 16 255 ++ [16, 1, 2]) = none := by decide
example : recvBodyLen true (List.replicate 16 255 ++ [16, 1, 4]) = none := by decide

/-! ## 6. The bound used is the bound negotiated by the CURRENT session, whatever happened before -/

/-- **session_flag_current** — for every initial value of the flag and every history of earlier sessions on
    the same fsm (with or without Extended Message, 4-octet AS, …), after the current session is established
    the flag is exactly what the current OPEN negotiates. -/
theorem session_flag_current (init : Bool) (hist : List Open) (cur : Open) :
    extAfter init (hist ++ [cur]) = sessionExt cur := by
  induction hist generalizing init with
  | nil => rfl
  | cons o rest ih => exact ih (sessionExt o)

/-- **recv_bound_follows_session** — the receive path of the current session admits a message of more than
    4096 octets only if THIS session's peer OPEN carries the Extended Message capability (and the type is
    UPDATE / NOTIFICATION / ROUTE-REFRESH), for every session history. -/
theorem recv_bound_follows_session (init : Bool) (hist : List Open) (cur : Open) (hdr : Bytes) (n : Nat)
    (h : recvBodyLenSess init hist cur hdr = some n) :
    n + 19 ≤ (if sessionExt cur = true ∧ (hdr.getD 18 0 = 2 ∨ hdr.getD 18 0 = 3 ∨ hdr.getD 18 0 = 5)
              then 65535 else 4096) := by
  unfold recvBodyLenSess at h
  rw [session_flag_current] at h
  exact (recv_bounded (sessionExt cur) hdr n h).2

/-- and it does not depend on the history at all -/
theorem recv_history_irrelevant (i1 i2 : Bool) (h1 h2 : List Open) (cur : Open) (hdr : Bytes) :
    recvBodyLenSess i1 h1 cur hdr = recvBodyLenSess i2 h2 cur hdr := by
  unfold recvBodyLenSess; rw [session_flag_current, session_flag_current]

/-- non-vacuity: a session with Extended Message followed by an old speaker (no 4-octet AS, no Extended
    Message): a 5000-octet UPDATE header is refused, a 4096-octet one is read -/
example :
    let s1 : Open := ⟨4, 23456, 90, 1, 0, [.caps 2 12 [⟨1, 4, [1, 1]⟩, ⟨65, 4, [65002]⟩, ⟨6, 0, []⟩]]⟩
    let s2 : Open := ⟨4, 65002, 90, 1, 0, [.caps 2 6 [⟨1, 4, [1, 1]⟩]]⟩
    sessionExt s1 = true ∧ sessionExt s2 = false ∧
    recvBodyLenSess false [s1] s2 (List.replicate 16 255 ++ [19, 136, 2]) = none ∧
    recvBodyLenSess false [s1] s2 (List.replicate 16 255 ++ [16, 0, 2]) = some 4077 ∧
    recvBodyLenSess false [s2] s1 (List.replicate 16 255 ++ [19, 136, 2]) = some 4981 := by decide

end C05
