/-
  C15 — soft reset (in / out / both) and ROUTE-REFRESH equal a fresh evaluation under the
  current policy.

  Model: Model/SoftReset.lean — the C01/C02 world (Model/World.lean) extended with a policy
  interpreter (community-set / neighbor-set / prefix-set / as-path-set (ANY over the current
  members) and as-path-length conditions, set-med / set-local-pref / community-add,
  accept / reject / fall through; import policy in propagateUpdate, export policy with the
  re-evaluation of `old` in (*BgpServer).filterpath), peer.sentPaths, softResetIn, softResetOut,
  handleRouteRefresh, sReset and the "all" forms.  Tied to the code by
  go/overlay/pkg/server/zz_verif_c15_test.go: real BgpServer, real policies configured through
  the API, ResetPeer / ROUTE-REFRESH, views parsed back from the UPDATEs actually packed.

  WHAT IS PROVED, about what:
   * export side, per destination and target peer (the unit the prefix bucket lock and the
     per-peer refresh lock serialise): `delta_correct_policy`, `weak_invariant_step`,
     `soft_out_restores`, `soft_out_idempotent`, `soft_out_no_dup`, `soft_out_no_loss`,
     `soft_out_withdraw_only_sent`, and the interleaving form `soft_equals_fresh_view` over
     arbitrary destination histories (route changes under arbitrary earlier policies, resets,
     route changes after the reset);
   * import side, per destination (all sources), for ARBITRARY key-preserving import functions —
     not only the modelled interpreter: `soft_in_equals_fresh`, `soft_in_idempotent`,
     `soft_in_then_changes` over whole event histories in which every event was evaluated under
     whatever policy was in force when it arrived.
  WHAT IS ONLY SAMPLED (harness, every run): that the whole-speaker functions `softOut`, `softIn`,
  `fanoutP` of Model/SoftReset.lean decompose into these per-destination steps (prefixes and peers
  are independent: distinct keys of `rib`, `peers`), and that the model is the code.
  `delta_correct_policy` needs that the `old` best is judged, when the policy rejects the new
  best, exactly as it was judged when it was advertised (loop prevention + UpdatePathAttrs +
  policy). The pinned tree evaluated the raw Loc-RIB path instead: with a condition on an
  attribute UpdatePathAttrs rewrites (as-path-length toward an eBGP peer — modelled and
  generated) the theorem was false and the real server left a stuck route; repaired by a `fix:`
  commit, the model mirrors the repaired code.
-/
import Lemmas.SoftReset
import Lemmas.SoftResetIn
import Lemmas.SoftResetWorld
import Props.C03
namespace C15
open BestPath World SoftReset SoftResetIn

/-! ## export side -/

/-- **delta_correct with export policy.** While the export policy `e` does not change, a peer
    that holds exactly the export of the old best path (loop prevention + UpdatePathAttrs +
    policy `e`, attributes included) holds exactly the export of the new best path after the
    incremental fan-out — including the case where the policy rejects the new best and the old
    one has to be withdrawn. -/
theorem delta_correct_policy (g : Global) (e : Pol) (t : PeerCfg) (hrs : t.isRSClient = false)
    (oldL newL : List Cand)
    (wfO : ∀ o, oldL.head? = some o → FromPeerWF g t o)
    (wfEq : ∀ b o, newL.head? = some b → oldL.head? = some o →
      b.src.equal o.src = true → b.src = o.src)
    (wfP : ∀ b o, newL.head? = some b → oldL.head? = some o → b.pfx = o.pfx) :
    heldApplyP g t (wantOfP g e t oldL) (deltaForP g e t oldL newL) = wantOfP g e t newL :=
  delta_correct_P g e t hrs oldL newL wfO wfEq wfP

/-- **weak_invariant_step.** Whatever export policy is in force when a destination changes —
    in particular one that differs from the policy under which the peer was last told — the
    fan-out keeps: "if the peer holds anything for the destination, the current best path is
    reachable and passes loop prevention toward it". -/
theorem weak_invariant_step (g : Global) (e : Pol) (t : PeerCfg) (hrs : t.isRSClient = false)
    (oldL newL : List Cand) (h : Option Held)
    (wfO : ∀ o, oldL.head? = some o → FromPeerWF g t o)
    (wfEq : ∀ b o, newL.head? = some b → oldL.head? = some o →
      b.src.equal o.src = true → b.src = o.src)
    (inv : WeakInv g t oldL h) :
    WeakInv g t newL (heldApplyP g t h (deltaForP g e t oldL newL)) :=
  weak_inv_step g e t hrs oldL newL h wfO wfEq inv

/-- **soft_out_restores.** From any state satisfying the weak invariant (with sentPaths agreeing
    with what the peer holds), softResetOut / handleRouteRefresh leave the peer with exactly the
    export of the current best path under the current policy: a route the policy now rejects is
    withdrawn (it is in sentPaths), a newly accepted one is announced, changed attributes are
    re-sent. -/
theorem soft_out_restores (g : Global) (e : Pol) (t : PeerCfg) (l : List Cand) (h : Option Held)
    (inv : WeakInv g t l h) :
    heldApplyList g t h (softOutFor g e t l h.isSome) = wantOfP g e t l :=
  SoftReset.soft_out_restores g e t l h inv

/-- **soft_out_idempotent.** Repeating the reset changes nothing (the announcements are sent
    again — it is a refresh — but they are what the peer holds, and nothing is withdrawn unless
    the route is LLGR-stale toward a peer without LLGR, see `soft_out_withdraw_only_sent`). -/
theorem soft_out_idempotent (g : Global) (e : Pol) (t : PeerCfg) (l : List Cand) :
    heldApplyList g t (wantOfP g e t l) (softOutFor g e t l (wantOfP g e t l).isSome) =
      wantOfP g e t l :=
  SoftReset.soft_out_idempotent g e t l

/-- no duplicate: one reset emits at most one path per destination and peer -/
theorem soft_out_no_dup (g : Global) (e : Pol) (t : PeerCfg) (l : List Cand) (sent : Bool) :
    (softOutFor g e t l sent).length ≤ 1 := SoftReset.soft_out_no_dup g e t l sent

/-- no loss: whatever the peer should hold is announced by the reset, with those attributes -/
theorem soft_out_no_loss (g : Global) (e : Pol) (t : PeerCfg) (l : List Cand) (sent : Bool)
    (x : Held) (hw : wantOfP g e t l = some x) :
    ∃ r, softOutFor g e t l sent = [⟨r, false⟩] ∧ heldOf g t r = x :=
  SoftReset.soft_out_no_loss g e t l sent x hw

/-- a destination that is not in sentPaths is never withdrawn by the reset (except an LLGR-stale
    route turned into a withdraw by postFilterpath) -/
theorem soft_out_withdraw_only_sent (g : Global) (e : Pol) (t : PeerCfg) (l : List Cand)
    (p : P) (hp : p ∈ softOutFor g e t l false) (hw : p.wd = true) : p.r.stale = true :=
  SoftReset.soft_out_withdraw_only_sent g e t l p hp hw

/-- **soft_equals_fresh_view** (interleaving form, one destination, one target peer). Start from
    any state satisfying the weak invariant (e.g. nothing held, or the initial table transfer).
    Let the destination change any number of times, each change fanned out under an ARBITRARY
    export policy (the policies before the change of policy, or the new policy before the reset),
    with soft resets under arbitrary policies anywhere in between (`before`); then soft-reset out
    under the current policy `e`; then let the destination change any number of times under `e`
    (`after`). The peer then holds exactly the export of the final best path under `e` — what a
    speaker that had policy `e` from the start would have told it. -/
theorem soft_equals_fresh_view (g : Global) (e : Pol) (t : PeerCfg) (hrs : t.isRSClient = false)
    (U : List (List Cand)) (wf : ListsWF g t U)
    (l0 : List Cand) (h0 : Option Held) (hl0 : l0 ∈ U) (inv0 : WeakInv g t l0 h0)
    (before : List DEv) (hbefore : ∀ ev ∈ before, ∀ l ∈ ev.list, l ∈ U)
    (after : List (List Cand)) (hafter : ∀ l ∈ after, l ∈ U) :
    let s3 := (before ++ [DEv.soft e] ++ after.map (DEv.chg e)).foldl (dstep g t) (l0, h0)
    s3.2 = wantOfP g e t s3.1 := by
  intro s3
  have hs3 : s3 = (after.map (DEv.chg e)).foldl (dstep g t)
      (dstep g t (before.foldl (dstep g t) (l0, h0)) (DEv.soft e)) := by
    simp only [s3, List.foldl_append, List.foldl_cons, List.foldl_nil]
  obtain ⟨hU1, inv1⟩ := weak_fold g t hrs U wf before (l0, h0) hl0 hbefore inv0
  rw [hs3]
  apply want_fold g e t hrs U wf after _ (by simp only [dstep]; exact hU1) hafter
  simp only [dstep]
  exact SoftReset.soft_out_restores g e t _ _ inv1

/-- the atomicity premise of the export-side steps, as checked against the code: a sending
    re-advertisement that satisfies `lockOk` holds the write lock -/
theorem refresh_lock_premise (sends write : Bool) (h : lockOk sends write = true) (hs : sends = true) :
    write = true := by
  subst hs; simpa [lockOk] using h

/-- **Order of a re-advertisement pass.** softResetOut / handleRouteRefresh hand the sender the
    withdrawals owed for now-rejected routes BEFORE the re-advertised paths (`softOutPaths`).
    Whenever the re-advertised paths contain an action for a wire key, that action is the last one
    for the key in the whole list — a withdrawal of another Loc-RIB destination that maps to the
    same wire key (neighbor in a VRF: one prefix under several route distinguishers) cannot
    override it. (With the opposite order the withdrawal wins: `withdrawals_last_counterexample`.)
    The many-to-one mapping itself is outside the model; the `vrf` harness checks the real pass. -/
theorem withdrawals_first_announce_wins (k : Nat) (wds anns : List P) (a : P)
    (h : lastAction k anns = some a) : lastAction k (wds ++ anns) = some a := by
  unfold lastAction at h ⊢
  rw [List.filter_append, List.getLast?_append, h]
  rfl

/-! ## known finding: an emptied prefix-set matched with INVERT

  Full statement (FALSE of the code): "a prefix-set condition depends only on the set's current
  members, the option and the route", i.e. `∀ setFam, pfxCondCode setFam routeFam opt es k =
  pfxCondModel opt es k`. The code also reads the address family recorded in the set object,
  which for an EMPTY set depends on how it became empty. -/

/-- the witness replayed on the real code by the corpus case
    `known-emptied-prefix-set-invert`: INVERT over a set emptied in place (family of the removed
    member kept) is true, over a set configured empty (no family) it is false -/
theorem emptied_prefix_set_invert_counterexample :
    pfxCondCode (some 1) 1 2 [] 0 = true ∧ pfxCondCode none 1 2 [] 0 = false := by decide

/-- whenever the set object's family is the route's family — every non-empty set the harness
    builds, and every set emptied in place — the code's condition is the one `Stmt.matches`
    uses; the theorems above are about that condition -/
theorem prefix_condition_family_partial (setFam : Option Nat) (routeFam opt : Nat)
    (es : List PfxEnt) (k : Nat) (h : setFam = some routeFam) :
    pfxCondCode setFam routeFam opt es k = pfxCondModel opt es k := by
  subst h; simp [pfxCondCode]

/-- `Stmt.matches` evaluates exactly `pfxCondModel` for its prefix-set clause -/
example (es : List PfxEnt) (opt : Nat) (r : Cand) :
    ({ pfxSet := some es, pfxOpt := opt } : Stmt).matches 0 r = pfxCondModel opt es r.pfx := by
  simp [Stmt.matches, pfxCondModel]

/-! ## import side -/

/-- the modelled import policy keeps a route's key (source, path-id) -/
theorem modify_key (s : Stmt) (r : Cand) : (s.modify r).src = r.src ∧ (s.modify r).pathId = r.pathId := by
  unfold Stmt.modify
  cases s.addComm <;> cases s.setMed <;> cases s.setLp <;> simp

theorem evalStmts_key (d : Bool) (i : Nat) (ss : List Stmt) :
    ∀ (r r' : Cand), evalStmts d i ss r = some r' → r'.src = r.src ∧ r'.pathId = r.pathId := by
  induction ss with
  | nil =>
    intro r r' h
    unfold evalStmts at h
    cases d <;> simp at h
    subst h; exact ⟨rfl, rfl⟩
  | cons s rest ih =>
    intro r r' h
    unfold evalStmts at h
    cases hm : s.matches i r with
    | false => simp only [hm, Bool.false_eq_true, if_false] at h; exact ih r r' h
    | true =>
      simp only [hm, if_true] at h
      have hk := modify_key s r
      by_cases h1 : s.route = 1
      · simp only [h1, if_true, Option.some.injEq] at h
        subst h; exact hk
      · by_cases h2 : s.route = 2
        · simp [h1, h2] at h
        · simp only [h1, h2, if_false] at h
          have := ih _ _ h
          exact ⟨this.1.trans hk.1, this.2.trans hk.2⟩

/-- the import function of the model — policy `p` evaluated with the route's source peer — is
    key preserving, so the theorems below apply to it -/
theorem applyPol_keyPres (p : Pol) (peerOf : Cand → Nat) :
    KeyPres (fun c => applyPol p (peerOf c) c) := by
  intro c c' h
  exact evalStmts_key _ _ _ c c' h

/-- **soft_in_equals_fresh** (one destination, all sources). `evs` is the whole history of
    announcements and withdrawals received for the destination, each paired with the import
    function in force WHEN IT ARRIVED (any number of policy changes, arbitrary key-preserving
    rewriting and verdicts). `B` is the accepted Adj-RIB-In content in the order the replay
    happens to visit it (softResetIn walks a Go map). After the soft reset in under the current
    import function `f1` the Loc-RIB path list — order included, hence the best path — equals
    that of the speaker that evaluated every event under `f1`: newly rejected routes are gone,
    newly accepted ones are in (with their original arrival time), rewritten attributes are
    current.  A source is a (neighbour, path-id) pair: with ADD-PATH receive a neighbour may
    contribute several routes to the destination (the Adj-RIB-In then holds several paths per
    prefix, loop-rejected ones among them — those are not replayed and are not in `adjOf`).
    Hypotheses: MED comparable throughout (C03), and no two different live routes tie in the
    whole decision process (`distinct`; implied by pairwise different neighbour addresses, see
    `distinct_addr_keys`; for the routes of one neighbour any difference in LOCAL_PREF, AS_PATH
    length, ORIGIN, MED or eBGP age will do) — without it the order of tied routes is the
    arrival order, which a replay does not reproduce. -/
theorem soft_in_equals_fresh (o : Opts) (f1 : Cand → Option Cand)
    (evs : List (Ev × (Cand → Option Cand))) (hk1 : KeyPres f1) (hk : ∀ p ∈ evs, KeyPres p.2)
    (B : List Cand) (hB : B.Perm (adjOf (evs.map (·.1))))
    (wf : SetWF o (opCands ((evs.map (·.1)).map (opOf f1)) ++ opCands (hist evs ++ softOps f1 B)))
    (distinct : (spec ((evs.map (·.1)).map (opOf f1))).Pairwise (fun a b => key o a ≠ key o b)) :
    BestPath.run o (hist evs ++ softOps f1 B) = BestPath.run o ((evs.map (·.1)).map (opOf f1)) := by
  obtain ⟨hn, hc⟩ := inv_hist evs hk
  have hnB : NodupKey B := by
    unfold NodupKey at *
    exact hn.perm hB.symm (fun {x y} hxy => by rw [sameKey_symm]; exact hxy)
  have hcB : Covered (spec (hist evs)) B := by
    intro x hx
    obtain ⟨a, ha, hax⟩ := hc x hx
    exact ⟨a, hB.symm.subset ha, hax⟩
  have hspec : spec (hist evs ++ softOps f1 B) = B.reverse.filterMap f1 := by
    have : spec (hist evs ++ softOps f1 B) = (softOps f1 B).foldl specStep (spec (hist evs)) := by
      unfold spec; rw [List.foldl_append]
    rw [this]
    exact soft_covered hk1 B _ hnB hcB
  have same : (spec ((evs.map (·.1)).map (opOf f1))).Perm (spec (hist evs ++ softOps f1 B)) := by
    rw [hspec, fresh_eq hk1]
    exact (((List.reverse_perm B).trans hB).filterMap f1).symm
  exact (order_independent_keys o _ _ wf distinct same).symm

/-- different neighbour addresses are a special case of "no two live routes tie" -/
theorem distinct_addr_keys (o : Opts) (l : List Cand)
    (h : l.Pairwise (fun a b => a.src.addr ≠ b.src.addr)) :
    l.Pairwise (fun a b => key o a ≠ key o b) :=
  h.imp (fun {a b} hab hk => hab (C03.key_addr o a b hk))

/-- **soft_in_idempotent.** A second soft reset in leaves the Loc-RIB path list as it is. -/
theorem soft_in_idempotent (o : Opts) (f1 : Cand → Option Cand)
    (evs : List (Ev × (Cand → Option Cand))) (hk1 : KeyPres f1) (hk : ∀ p ∈ evs, KeyPres p.2)
    (wf : SetWF o (opCands (hist evs ++ softOps f1 (adjOf (evs.map (·.1)))) ++
      opCands (hist evs ++ softOps f1 (adjOf (evs.map (·.1))) ++ softOps f1 (adjOf (evs.map (·.1))))))
    (distinct : (spec (hist evs ++ softOps f1 (adjOf (evs.map (·.1))))).Pairwise
      (fun a b => key o a ≠ key o b)) :
    BestPath.run o (hist evs ++ softOps f1 (adjOf (evs.map (·.1))) ++ softOps f1 (adjOf (evs.map (·.1)))) =
      BestPath.run o (hist evs ++ softOps f1 (adjOf (evs.map (·.1)))) :=
  (order_independent_keys o _ _ wf distinct (spec_soft_idem f1 evs hk1 hk).symm).symm

/-- **soft_in_then_changes** (interleaving form): events that arrive after the reset and are
    evaluated under the current import function keep the two speakers equal. -/
theorem soft_in_then_changes (o : Opts) (f1 : Cand → Option Cand)
    (evs : List (Ev × (Cand → Option Cand))) (hk1 : KeyPres f1) (hk : ∀ p ∈ evs, KeyPres p.2)
    (B : List Cand) (hB : B.Perm (adjOf (evs.map (·.1))))
    (wf : SetWF o (opCands ((evs.map (·.1)).map (opOf f1)) ++ opCands (hist evs ++ softOps f1 B)))
    (distinct : (spec ((evs.map (·.1)).map (opOf f1))).Pairwise (fun a b => key o a ≠ key o b))
    (more : List Ev) :
    BestPath.run o (hist evs ++ softOps f1 B ++ more.map (opOf f1)) =
      BestPath.run o ((evs.map (·.1) ++ more).map (opOf f1)) := by
  have h := soft_in_equals_fresh o f1 evs hk1 hk B hB wf distinct
  unfold BestPath.run at h ⊢
  rw [List.foldl_append, h, List.map_append, List.foldl_append]

/-! ## non-vacuity -/

def g0 : Global := ⟨65000, 1⟩
def tE : PeerCfg := { idx := 0, kind := .ebgp, as := 65001, rid := 10, addr := 100 }
def src1 : PeerCfg := { idx := 1, kind := .ebgp, as := 65002, rid := 11, addr := 101 }
def src2 : PeerCfg := { idx := 2, kind := .ebgp, as := 65003, rid := 12, addr := 102 }
def tag : Nat := 4294770689   -- 65533:1
def r1 : Cand :=
  { (default : Cand) with src := src1.srcInfo g0, marker := 1, origin := some 0, segs := [⟨2, [65002]⟩], comms := [tag], ts := 1 }
def r2 : Cand :=
  { (default : Cand) with src := src2.srcInfo g0, marker := 2, origin := some 0, segs := [⟨2, [65003, 300]⟩], ts := 2 }
/-- "reject routes carrying 65533:1 toward peer 0", "add 65532:1 to everything else" -/
def eNew : Pol := { stmts := [{ commSet := some [tag], anyPeer := false, peers := [0], route := 2 },
                             { addComm := some 4294705153 }] }
def eOld : Pol := {}

/-- with the withdrawals AFTER the re-advertised paths the withdrawal wins -/
theorem withdrawals_last_counterexample :
    lastAction 0 ([⟨r1, false⟩] ++ [⟨r2, true⟩]) = some ⟨r2, true⟩ := by decide
example : lastAction 0 ([⟨r2, true⟩] ++ [⟨r1, false⟩]) = some ⟨r1, false⟩ :=
  withdrawals_first_announce_wins 0 _ _ _ (by decide)

/-- under the old policy the peer was told r1 … -/
example : wantOfP g0 eOld tE [r1, r2] = some ⟨1, none, none, [tag]⟩ := by decide
/-- … the new policy rejects it: the soft reset withdraws it (it is in sentPaths) -/
example : softOutFor g0 eNew tE [r1, r2] true = [⟨r1, true⟩] := by decide
example : heldApplyList g0 tE (some ⟨1, none, none, [tag]⟩) (softOutFor g0 eNew tE [r1, r2] true) =
    wantOfP g0 eNew tE [r1, r2] := by decide
/-- the weak invariant holds in that state -/
example : WeakInv g0 tE [r1, r2] (some ⟨1, none, none, [tag]⟩) :=
  fun _ => ⟨r1, rfl, rfl, by decide⟩
/-- changed attributes are re-sent: r2 now leaves with the added community -/
example : softOutFor g0 eNew tE [r2] true =
    [⟨{ r2 with med := none, segs := [⟨2, [65000, 65003, 300]⟩], comms := [4294705153] }, false⟩] := by
  decide
/-- defined-set conditions: a prefix-set holding two mask-length ranges for the SAME prefix
    (10.0.0.0/8 16..16 and 24..24) matches 10.3.0.0/16 through the first and 10.1.0.0/24 through
    the second entry; dropping the older entry changes the verdict -/
example : (⟨167772160, 8, 16, 16⟩ : PfxEnt).matchesPfx 2 = true ∧
    (⟨167772160, 8, 24, 24⟩ : PfxEnt).matchesPfx 2 = false ∧
    (⟨167772160, 8, 24, 24⟩ : PfxEnt).matchesPfx 0 = true := by decide
def rejPfx (es : List PfxEnt) : Pol := { stmts := [{ pfxSet := some es, route := 2 }] }
example : applyPol (rejPfx [⟨167772160, 8, 16, 16⟩, ⟨167772160, 8, 24, 24⟩]) 1 { r1 with pfx := 2 } = none := by
  decide
example : (applyPol (rejPfx [⟨167772160, 8, 24, 24⟩]) 1 { r1 with pfx := 2 }).isSome = true := by decide
/-- an EMPTIED community set: ANY matches nothing, INVERT everything, ALL nothing; an emptied
    neighbor set matches every neighbour -/
example : ({ commSet := some [], commOpt := 0 } : Stmt).matches 1 r1 = false ∧
    ({ commSet := some [], commOpt := 2 } : Stmt).matches 1 r1 = true ∧
    ({ commSet := some [], commOpt := 1 } : Stmt).matches 1 r1 = false ∧
    ({ commSet := some [tag], commOpt := 1 } : Stmt).matches 1 r1 = true ∧
    ({ anyPeer := false, peers := [], nbrOpt := 2 } : Stmt).matches 1 r1 = true := by decide
/-- as-path-set members: `_300_` matches r2's path, `^65002_` its left-most AS does not -/
example : (⟨0, 300⟩ : AspEnt).matchesPath (asSeqList r2.segs) = true ∧
    (⟨1, 65002⟩ : AspEnt).matchesPath (asSeqList r2.segs) = false := by decide
/-- import side: r1 was accepted under the old import policy, the new one rejects it -/
def fOld : Cand → Option Cand := fun c => applyPol eOld 1 c
def fNew : Cand → Option Cand := fun c => applyPol { stmts := [{ commSet := some [tag], route := 2 }] } 1 c
example : BestPath.run ⟨true, false, false⟩ (hist [(.ann r1, fOld), (.ann r2, fOld)] ++ softOps fNew [r2, r1]) = [r2] := by
  decide
example : BestPath.run ⟨true, false, false⟩ ([Ev.ann r1, Ev.ann r2].map (opOf fNew)) = [r2] := by decide
example : [r2, r1].Perm (adjOf ([(Ev.ann r1, fOld), (Ev.ann r2, fOld)].map (·.1))) := by
  have : adjOf ([(Ev.ann r1, fOld), (Ev.ann r2, fOld)].map (·.1)) = [r2, r1] := by decide
  rw [this]
example : KeyPres fNew := applyPol_keyPres _ (fun _ => 1)
/-- ADD-PATH receive: two routes of ONE neighbour (path-ids 1 and 2, different ORIGIN) -/
def r1b : Cand := { r1 with pathId := 2, marker := 3, origin := some 1, comms := [], ts := 3 }
example : BestPath.run ⟨true, false, false⟩
    (hist [(.ann { r1 with pathId := 1 }, fOld), (.ann r1b, fOld)] ++ softOps fNew [{ r1 with pathId := 1 }, r1b]) = [r1b] := by
  decide
example : [{ r1 with pathId := 1 }, r1b].Pairwise (fun a b => key ⟨true, false, false⟩ a ≠ key ⟨true, false, false⟩ b) := by
  decide
example : PairWF ⟨true, false, false⟩ r1 r2 := ⟨by decide, by decide, by decide, by decide⟩
example : ListsWF g0 tE [[r1, r2], [r2]] := by
  refine ⟨?_, ?_, ?_⟩
  · intro l hl o ho
    simp only [List.mem_cons, List.not_mem_nil, or_false] at hl
    rcases hl with rfl | rfl <;> (simp at ho; subst ho; intro h; revert h; decide)
  · intro l hl l' hl' b o hb ho
    simp only [List.mem_cons, List.not_mem_nil, or_false] at hl hl'
    rcases hl with rfl | rfl <;> rcases hl' with rfl | rfl <;>
      (simp at hb ho; subst hb; subst ho; decide)
  · intro l hl l' hl' b o hb ho
    simp only [List.mem_cons, List.not_mem_nil, or_false] at hl hl'
    rcases hl with rfl | rfl <;> rcases hl' with rfl | rfl <;>
      (simp at hb ho; subst hb; subst ho; decide)


/-! ## the whole speaker (all destinations, all peers at once)

  Model/SoftResetWorld.lean: the speaker as a product of its components — peers (configuration,
  session state) × destinations (Loc-RIB path list, accepted Adj-RIB-In content, what every peer
  holds) — every event defined by mapping the per-destination / per-peer functions the theorems
  above are about (`calcStep`, `deltaForP`/`heldApplyP`, `softOutFor`) over the components. The
  driver runs this model in lockstep with the association-list model `SoftReset.S` and answers an
  ask only when both agree, so it is compared with the real BgpServer on every run.

  Hypotheses, all explicit: the peers have pairwise different indices and addresses and none is a
  route-server client (`CfgWF`); always-compare-med (with the mandatory ORIGIN of every announced
  route, `OpOK`, this IS "MED comparable throughout": `pairWF_of_good`); and no two different
  paths of one destination tie in the whole decision process in the FRESH speaker's final
  Loc-RIB (`hties`). The last one cannot be discharged by the deterministic tie-break: that ends
  at the neighbour address, so two routes of ONE neighbour (ADD-PATH receive) can tie completely,
  and then their order is the arrival order, which a replay does not reproduce
  (`ties_counterexample`); it follows from "one route per neighbour" (`distinct_addr_keys`). -/

open SoftResetWorld in
/-- **C15_soft_reset_equals_fresh_world.** For EVERY history `ops` of the whole speaker — session
    up / down, announcements and withdrawals from any peer for any destination, import and export
    policy changes, soft resets in / out / both of single peers or all, ROUTE-REFRESH, in any
    order — followed by a soft reset in + out of all peers: the Loc-RIB path list of EVERY
    destination (order, hence best path, included) and what EVERY established peer holds for it
    equal those of the fresh speaker that received the same route events (`ops.filter isRoute`)
    with the final import and export policies in force from the start. -/
theorem C15_soft_reset_equals_fresh_world (g : Global) (opts : Opts) (cfgs : List PeerCfg)
    (p0i p0e : Pol) (ops : List SOp) (hcfg : CfgWF (init g opts cfgs p0i p0e).k)
    (halw : opts.alwaysCompareMed = true) (hops : ∀ op ∈ ops, OpOK op)
    (hties : ∀ d, ((SoftResetWorld.run (init g opts cfgs
        (SoftResetWorld.run (init g opts cfgs p0i p0e) ops).k.imp
        (SoftResetWorld.run (init g opts cfgs p0i p0e) ops).k.exp) (ops.filter isRoute)).d d).rib.Pairwise
          (fun a b => key opts a ≠ key opts b)) :
    let sa := SoftResetWorld.run (init g opts cfgs p0i p0e) ops
    let s1 := SoftResetWorld.softBothAll sa
    let s2 := SoftResetWorld.run (init g opts cfgs sa.k.imp sa.k.exp) (ops.filter isRoute)
    ∀ d, (s1.d d).rib = (s2.d d).rib ∧
      ∀ i t, sa.k.cfg? i = some t → sa.k.up i = true → (s1.d d).held i = (s2.d d).held i :=
  world_soft_equals_fresh g opts cfgs p0i p0e ops hcfg halw hops hties

open SoftResetWorld in
/-- **C15_reset_idempotent_world.** A second soft reset in + out of all peers changes no Loc-RIB
    and nothing any established peer holds. (The second soft reset OUT does send the
    announcements again — it is a refresh — they are what the peers hold; that the second soft
    reset IN hands the peers nothing is the per-destination `soft_in_idempotent` + `getChanges`
    on an unchanged list, not restated here.) -/
theorem C15_reset_idempotent_world (g : Global) (opts : Opts) (cfgs : List PeerCfg)
    (p0i p0e : Pol) (ops : List SOp) (hcfg : CfgWF (init g opts cfgs p0i p0e).k)
    (halw : opts.alwaysCompareMed = true) (hops : ∀ op ∈ ops, OpOK op)
    (hties : ∀ d, ((SoftResetWorld.run (init g opts cfgs
        (SoftResetWorld.run (init g opts cfgs p0i p0e) ops).k.imp
        (SoftResetWorld.run (init g opts cfgs p0i p0e) ops).k.exp) (ops.filter isRoute)).d d).rib.Pairwise
          (fun a b => key opts a ≠ key opts b)) :
    let sa := SoftResetWorld.run (init g opts cfgs p0i p0e) ops
    let s1 := SoftResetWorld.softBothAll sa
    ∀ d, ((SoftResetWorld.softBothAll s1).d d).rib = (s1.d d).rib ∧
      ∀ i t, sa.k.cfg? i = some t → sa.k.up i = true →
        ((SoftResetWorld.softBothAll s1).d d).held i = (s1.d d).held i :=
  world_reset_idempotent g opts cfgs p0i p0e ops hcfg halw hops hties

open SoftResetWorld in
/-- **C15_soft_out_peer_world.** Soft reset out (or ROUTE-REFRESH) of ONE peer after any history:
    for every destination the peer holds exactly the export of the CURRENT best path under the
    current export policy, and no Loc-RIB changes — no hypothesis on MED or ties. -/
theorem C15_soft_out_peer_world (g : Global) (opts : Opts) (cfgs : List PeerCfg) (p0i p0e : Pol)
    (ops : List SOp) (hcfg : CfgWF (init g opts cfgs p0i p0e).k) (hops : ∀ op ∈ ops, OpOK op)
    (i : Nat) (t : PeerCfg) :
    let sa := SoftResetWorld.run (init g opts cfgs p0i p0e) ops
    sa.k.cfg? i = some t → sa.k.up i = true →
    ∀ d, ((SoftResetWorld.softOut sa i).d d).held i =
        wantOfP sa.k.g sa.k.exp t ((SoftResetWorld.softOut sa i).d d).rib ∧
      ((SoftResetWorld.softOut sa i).d d).rib = (sa.d d).rib :=
  world_soft_out_peer g opts cfgs p0i p0e ops hcfg hops i t

/-- why `hties` is a hypothesis: two routes of ONE neighbour (path-ids 1 and 2) that tie in every
    step of the decision process are ordered by arrival -/
def tieA : Cand := { r1 with pathId := 1, marker := 7, comms := [] }
def tieB : Cand := { r1 with pathId := 2, marker := 8, comms := [] }
theorem ties_counterexample :
    BestPath.run ⟨true, false, false⟩ [.ann tieA, .ann tieB] ≠
      BestPath.run ⟨true, false, false⟩ [.ann tieB, .ann tieA] := by decide

/-! ### non-vacuity of the whole-speaker theorems: 2 peers × 2 destinations -/

namespace WorldExample
open SoftResetWorld

def o1 : Opts := ⟨true, false, false⟩
def cfgs : List PeerCfg := [src1, src2]
def a0 : Cand := { (default : Cand) with pfx := 0, marker := 1, origin := some 0, segs := [⟨2, [65002]⟩], comms := [tag] }
def a1 : Cand := { (default : Cand) with pfx := 1, marker := 2, origin := some 0, segs := [⟨2, [65002, 300]⟩] }
def b0 : Cand := { (default : Cand) with pfx := 0, marker := 3, origin := some 0, segs := [⟨2, [65003, 300]⟩] }
/-- reject 65533:1 on import -/
def impNew : Pol := { stmts := [{ commSet := some [tag], route := 2 }] }
/-- add 65532:1 on export -/
def expNew : Pol := { stmts := [{ addComm := some 4294705153 }] }
/-- both sessions up, routes for two destinations from two peers, then both policies change -/
def ops : List SOp :=
  [.up 1, .up 2, .ann 1 a0, .ann 1 a1, .ann 2 b0, .setImp impNew, .setExp expNew]

example : CfgWF (init g0 o1 cfgs {} {}).k := ⟨by decide, by decide, by decide⟩
example : ∀ op ∈ ops, OpOK op := by
  intro op h
  simp only [ops, List.mem_cons, List.not_mem_nil, or_false] at h
  rcases h with rfl | rfl | rfl | rfl | rfl | rfl | rfl <;> first | trivial | decide

/-- before the reset destination 0 still holds peer 1's route, which the new import policy
    rejects, best first -/
example : ((SoftResetWorld.run (init g0 o1 cfgs {} {}) ops).d 0).rib.map (·.marker) = [1, 3] := by decide
/-- after the reset it is gone, as in the fresh speaker -/
example : ((softBothAll (SoftResetWorld.run (init g0 o1 cfgs {} {}) ops)).d 0).rib.map (·.marker) = [3] := by
  decide
example : ((SoftResetWorld.run (init g0 o1 cfgs impNew expNew) (ops.filter isRoute)).d 0).rib.map (·.marker) = [3] := by
  decide
/-- destination 1 is untouched, and peer 2 (index 2) is told peer 1's route with the community the
    new export policy adds — in both speakers -/
example : (((softBothAll (SoftResetWorld.run (init g0 o1 cfgs {} {}) ops)).d 1).held 2).map (·.comms) =
    some [4294705153] := by decide
example : (((SoftResetWorld.run (init g0 o1 cfgs impNew expNew) (ops.filter isRoute)).d 1).held 2).map (·.comms) =
    some [4294705153] := by decide
/-- no ties in the fresh speaker's Loc-RIBs (destinations 0 and 1 hold one path each) -/
example : ((SoftResetWorld.run (init g0 o1 cfgs impNew expNew) (ops.filter isRoute)).d 0).rib.Pairwise
    (fun a b => key o1 a ≠ key o1 b) := by decide

end WorldExample

end C15
