import Model.ApiConvX
import Lemmas.ApiConvX
/-!
  C18, second group of theorems (namespace C18): extended communities, IPv6-address-specific
  extended communities, NLRI of the prefix families, MP_REACH_NLRI / MP_UNREACH_NLRI.
  About `Model/ApiConvX.lean`; same reading guide as Props/C18.lean:
  `…_fromApi_toApi` (native -> API -> native = `rebuild…`, for every value), `…rebuild…_eq_self`
  (identity on RIB-form values), `…_wire_preserved`, `…_toApi_fromApi` (API -> native -> API on
  Marshal's range) and `…_counterexample` theorems for what the API does not carry.
-/
namespace C18
open Wire ApiConv

/-! ### extended communities -/

/-- address / MAC / fall-back fields hold what the Go types hold -/
def ExtOk : ExtComm → Prop
  | .ipv4 _ addr _ _ => addr < 4294967296
  | .esImport mac => mac.length = 6
  | .routerMac mac => mac.length = 6
  | .noApiMessage o => o.length = 8
  | _ => True

/-- **one community, native -> API -> native**: Marshal succeeds and Unmarshal returns `rebuildExt e` -/
theorem ext_fromApi_toApi (e : ExtComm) (h : ExtOk e) :
    ∃ a, toApiExt e = some a ∧ fromApiExt a = some (rebuildExt e) := by
  cases e <;> simp only [ExtOk] at h <;>
    simp [toApiExt, fromApiExt, rebuildExt, isV4_be32, rd32_be32', h]

/-- field ranges of the Go structs and 7-octet values; no fall-back element -/
def ExtWF : ExtComm → Prop
  | .twoOctetAs st as _ _ => st < 256 ∧ as < 65536
  | .ipv4 st addr la _ => st < 256 ∧ addr < 4294967296 ∧ la < 65536
  | .fourOctetAs st _ la _ => st < 256 ∧ la < 65536
  | .validation s => s < 256
  | .linkBandwidth as _ => as < 65536
  | .encap t => t < 65536
  | .opaque _ v => v.length = 7
  | .esImport mac => mac.length = 6
  | .routerMac mac => mac.length = 6
  | .unknown t v => t < 256 ∧ v.length = 7
  | .noApiMessage _ => False
  | _ => True

theorem rebuildExt_eq_self (e : ExtComm) (h : ExtWF e) : rebuildExt e = e := by
  cases e <;> simp only [ExtWF] at h <;>
    simp [rebuildExt, Nat.mod_eq_of_lt, padTo_of_length, h]

theorem extWF_ok {e : ExtComm} (h : ExtWF e) : ExtOk e := by
  cases e <;> simp only [ExtWF] at h <;> simp only [ExtOk] <;> first | exact h.2.1 | exact h | trivial

/-- what Serialize needs to succeed; the Layer-2-attributes fall-back included -/
def ExtEncOk : ExtComm → Prop
  | .opaque _ v => v.length = 7
  | .unknown _ v => v.length = 7
  | .noApiMessage o => o.length = 8 ∧ o.getD 0 0 < 256
  | _ => True

/-- **same 8 octets after the trip, for every community** (any sub-type, either transitivity, any
    field value — narrowing conversions and Serialize truncate alike), the fall-back included -/
theorem encExt_rebuild (e : ExtComm) (h : ExtEncOk e) : encExt (rebuildExt e) = encExt e := by
  cases e
  case noApiMessage o =>
    obtain ⟨hl, hb⟩ := h
    match o, hl with
    | [a, b, c, d, e, f, g, i], _ =>
      simp only [List.getD_cons_zero] at hb
      simp [rebuildExt, encExt, padTo, Nat.mod_eq_of_lt hb]
  all_goals first
    | (simp only [ExtEncOk] at h; simp [rebuildExt, encExt, padTo_of_length h])
    | simp [rebuildExt, encExt, be16_mod]

/-- the extended-communities attribute -/
theorem extcomms_fromApi_toApi (f t n : Nat) (l : List ExtComm) (h : ∀ e ∈ l, ExtOk e) :
    ∃ x, toApiX ⟨f, t, n, .extComms l⟩ = some x ∧ fromApiX x = rebuildX ⟨f, t, n, .extComms l⟩ := by
  have hex : ∀ e ∈ l, ∃ a, toApiExt e = some a ∧ fromApiExt a = some (rebuildExt e) :=
    fun e he => ext_fromApi_toApi e (h e he)
  -- choose the API images
  have : ∃ la : List ApiExtComm, allSome toApiExt l = some la ∧ allSome fromApiExt la = some (l.map rebuildExt) := by
    induction l with
    | nil => exact ⟨[], rfl, rfl⟩
    | cons e es ih =>
      obtain ⟨a, ha1, ha2⟩ := hex e (by simp)
      obtain ⟨la, h1, h2⟩ := ih (fun x hx => h x (by simp [hx])) (fun x hx => hex x (by simp [hx]))
      exact ⟨a :: la, by simp [allSome, ha1, h1], by simp [allSome, ha2, h2]⟩
  obtain ⟨la, h1, h2⟩ := this
  exact ⟨.extComms la, by simp [toApiX, h1], by simp [fromApiX, rebuildX, h2]⟩

/-- RIB form: constructor header, every element within its Go ranges -/
def CanonicalExtComms (a : XAttr) (l : List ExtComm) : Prop :=
  a = mkExtComms l ∧ l.length * 8 < 65536 ∧ ∀ e ∈ l, ExtWF e

theorem extcomms_rebuild_eq_self (a : XAttr) (l : List ExtComm) (h : CanonicalExtComms a l) :
    rebuildX a = some a := by
  obtain ⟨rfl, _, hw⟩ := h
  simp only [rebuildX, mkExtComms, map_id_of rebuildExt l (fun e he => rebuildExt_eq_self e (hw e he))]

/-- **wire octets and Len() preserved** for an extended-communities attribute with the constructor
    header, whatever its elements (L2-attributes fall-back included) -/
theorem extcomms_wire_preserved (l : List ExtComm) (hok : ∀ e ∈ l, ExtOk e) (henc : ∀ e ∈ l, ExtEncOk e) :
    ∃ x a', toApiX (mkExtComms l) = some x ∧ fromApiX x = some a' ∧
      encXAttr a' = encXAttr (mkExtComms l) ∧ xattrLen a' = xattrLen (mkExtComms l) := by
  obtain ⟨x, h1, h2⟩ := extcomms_fromApi_toApi _ _ _ l hok
  refine ⟨x, mkExtComms (l.map rebuildExt), h1, ?_, ?_, ?_⟩
  · simpa [rebuildX, mkExtComms] using h2
  · simp only [encXAttr, mkExtComms, encXVal, List.length_map,
      encExts_map rebuildExt l (fun e he => encExt_rebuild e (henc e he))]
  · simp only [xattrLen, mkExtComms, List.length_map]; rfl

example : CanonicalExtComms (mkExtComms [.twoOctetAs 2 65000 100 true, .color 7, .opaque false [1, 2, 3, 4, 5, 6, 7]])
    [.twoOctetAs 2 65000 100 true, .color 7, .opaque false [1, 2, 3, 4, 5, 6, 7]] := by
  refine ⟨rfl, by decide, ?_⟩
  intro e he; simp at he; rcases he with rfl | rfl | rfl <;> simp [ExtWF]

/-- API values within Marshal's range -/
def ApiExtOk : ApiExtComm → Prop
  | .twoOctetAs _ st asn _ => st < 256 ∧ asn < 65536
  | .ipv4 _ st addr la => st < 256 ∧ Octets4 addr ∧ la < 65536
  | .fourOctetAs _ st _ la => st < 256 ∧ la < 65536
  | .validation s => s < 256
  | .linkBandwidth asn _ => asn < 65536
  | .encap t => t < 65536
  | .opaque _ v => v.length = 7
  | .esImport m => m.length = 6
  | .routerMac m => m.length = 6
  | .unknown t v => t < 256 ∧ v.length = 7
  | .unset => False
  | _ => True

/-- **API -> native -> API** is the identity on `ApiExtOk` values, all of which are accepted -/
theorem ext_toApi_fromApi (x : ApiExtComm) (h : ApiExtOk x) :
    ∃ e, fromApiExt x = some e ∧ toApiExt e = some x := by
  cases x with
  | ipv4 tr st addr la =>
    obtain ⟨h1, h2, h3⟩ := h
    exact ⟨.ipv4 (st % 256) (rd32 addr) (la % 65536) tr, by simp [fromApiExt, isV4_of_octets' h2], by
      simp [toApiExt, Nat.mod_eq_of_lt h1, Nat.mod_eq_of_lt h3, be32_rd32_of addr h2]⟩
  | unset => exact absurd h (by simp [ApiExtOk])
  | _ => simp only [ApiExtOk] at h; simp [fromApiExt, toApiExt, Nat.mod_eq_of_lt, padTo_of_length, h]

/-- the Go TYPE of a community without an API message is not carried (its octets are): an EVPN
    Layer-2-attributes community comes back as an UnknownExtended -/
theorem l2attr_type_counterexample :
    let e : ExtComm := .noApiMessage [6, 4, 0, 18, 5, 220, 0, 0]
    (∃ a, toApiExt e = some a ∧ fromApiExt a = some (.unknown 6 [4, 0, 18, 5, 220, 0, 0])) ∧
    rebuildExt e ≠ e ∧ encExt (rebuildExt e) = encExt e := by
  exact ⟨⟨_, rfl, rfl⟩, by decide, by decide⟩

/-- an API opaque value longer than 7 octets is cut to 7 (NewOpaqueExtended copies into 7 octets) -/
theorem opaque_truncation_counterexample :
    fromApiExt (.opaque true [1, 2, 3, 4, 5, 6, 7, 8, 9]) = some (.opaque true [1, 2, 3, 4, 5, 6, 7]) := by decide

/-- the PARTIAL bit of a received extended-communities attribute is not carried -/
theorem extcomms_partial_flag_counterexample :
    let a : XAttr := ⟨224, 16, 8, .extComms [.color 7]⟩
    (∃ x, toApiX a = some x ∧ fromApiX x = some (mkExtComms [.color 7])) ∧
    encXAttr (mkExtComms [.color 7]) ≠ encXAttr a := by
  exact ⟨⟨_, rfl, rfl⟩, by decide⟩

/-! ### IPv6-address-specific extended communities -/

def Ip6Ok : Ip6ExtComm → Prop
  | .specific _ addr _ _ => addr.length = 16
  | .redirect addr _ => addr.length = 16
  | .unknown _ _ => False

theorem ip6_fromApi_toApi (e : Ip6ExtComm) (h : Ip6Ok e) :
    ∃ a, toApiIp6Ext e = some a ∧ fromApiIp6Ext a = some (rebuildIp6Ext e) := by
  cases e <;> simp only [Ip6Ok] at h <;> simp [toApiIp6Ext, fromApiIp6Ext, rebuildIp6Ext, h]

theorem encIp6_rebuild (e : Ip6ExtComm) : encIp6Ext (rebuildIp6Ext e) = encIp6Ext e := by
  cases e <;> simp [rebuildIp6Ext, encIp6Ext, be16_mod]

/-- an IPv6 extended community of any other type has no API message: the whole attribute (and with it
    the whole attribute list of the route) fails to marshal — known finding
    attr:PathAttributeIP6ExtendedCommunities:marshal-error -/
theorem ip6_unknown_marshal_error (f t n ty : Nat) (v : Bytes) (l1 l2 : List Ip6ExtComm) :
    toApiX ⟨f, t, n, .ip6ExtComms (l1 ++ .unknown ty v :: l2)⟩ = none := by
  have : allSome toApiIp6Ext (l1 ++ .unknown ty v :: l2) = none :=
    allSome_none _ _ ⟨.unknown ty v, by simp, rfl⟩
  simp [toApiX, this]

/-! ### NLRI of the prefix families -/

def RdOk : Rd → Prop
  | .ipv4 a _ => a < 4294967296
  | _ => True

def NlriOk : Nlri → Prop
  | .ip bits addr => prefixOk bits addr = true
  | .labeled _ bits addr => prefixOk bits addr = true
  | .vpn _ rd bits addr => prefixOk bits addr = true ∧ RdOk rd

theorem prefixOk_lt {bits : Nat} {addr : Bytes} (h : prefixOk bits addr = true) : bits < 256 := by
  simp only [prefixOk, Bool.or_eq_true, Bool.and_eq_true, beq_iff_eq, decide_eq_true_eq] at h
  omega

theorem rd_fromApi_toApi (rd : Rd) (h : RdOk rd) : fromApiRd (toApiRd rd) = some (rebuildRd rd) := by
  cases rd <;> simp only [RdOk] at h <;> simp [toApiRd, fromApiRd, rebuildRd, isV4_be32, rd32_be32', h]

/-- **NLRI, native -> API -> native** -/
theorem nlri_fromApi_toApi (n : Nlri) (h : NlriOk n) : fromApiNlri (toApiNlri n) = some (rebuildNlri n) := by
  cases n with
  | ip bits addr => simp only [NlriOk] at h; simp [toApiNlri, fromApiNlri, rebuildNlri, h]
  | labeled ls bits addr =>
    simp only [NlriOk] at h
    have hb := Nat.mod_eq_of_lt (prefixOk_lt h)
    simp [toApiNlri, fromApiNlri, rebuildNlri, hb, h]
  | vpn ls rd bits addr =>
    obtain ⟨h1, h2⟩ := h
    have hb := Nat.mod_eq_of_lt (prefixOk_lt h1)
    simp [toApiNlri, fromApiNlri, rebuildNlri, hb, h1, rd_fromApi_toApi rd h2]

def RdWF : Rd → Prop
  | .twoOctet a _ => a < 65536
  | .ipv4 a n => a < 4294967296 ∧ n < 65536
  | .fourOctet _ n => n < 65536

/-- RIB form of an NLRI: parseable length, IPAddrPrefix masked, a label stack, RD fields in range -/
def NlriWF : Nlri → Prop
  | .ip bits addr => prefixOk bits addr = true ∧ maskAddrN bits addr = addr
  | .labeled ls bits addr => prefixOk bits addr = true ∧ ls ≠ []
  | .vpn ls rd bits addr => prefixOk bits addr = true ∧ ls ≠ [] ∧ RdWF rd

theorem rebuildRd_eq_self (rd : Rd) (h : RdWF rd) : rebuildRd rd = rd := by
  cases rd <;> simp only [RdWF] at h <;> simp [rebuildRd, Nat.mod_eq_of_lt, h]

theorem mkLabels_of_ne {ls : List Nat} (h : ls ≠ []) : mkLabels ls = ls := by
  cases ls with
  | nil => exact absurd rfl h
  | cons a as => rfl

theorem rebuildNlri_eq_self (n : Nlri) (h : NlriWF n) : rebuildNlri n = n := by
  cases n with
  | ip bits addr => simp [rebuildNlri, h.2]
  | labeled ls bits addr =>
    simp [rebuildNlri, mkLabels_of_ne h.2, Nat.mod_eq_of_lt (prefixOk_lt h.1)]
  | vpn ls rd bits addr =>
    simp [rebuildNlri, mkLabels_of_ne h.2.1, Nat.mod_eq_of_lt (prefixOk_lt h.1), rebuildRd_eq_self rd h.2.2]

theorem nlriWF_ok {n : Nlri} (h : NlriWF n) : NlriOk n := by
  cases n with
  | ip bits addr => exact h.1
  | labeled ls bits addr => exact h.1
  | vpn ls rd bits addr =>
    refine ⟨h.1, ?_⟩
    have h3 := h.2.2
    cases rd with
    | ipv4 a n => exact h3.1
    | twoOctet a n => trivial
    | fourOctet a n => trivial

example : NlriWF (.vpn [16, 17] (.twoOctet 65000 1) 24 [10, 1, 2, 0]) := by
  refine ⟨by decide, by decide, ?_⟩; simp [RdWF]
example : NlriWF (.ip 48 [32, 1, 13, 184, 0, 1, 0, 0, 0, 0, 0, 0, 0, 0, 0, 0]) := ⟨by decide, by decide⟩

/-- an API label list may be empty: NewMPLSLabelStack turns it into [0] -/
theorem empty_labels_counterexample :
    fromApiNlri (.labeledPrefix [] 24 [10, 0, 0, 0]) = some (.labeled [0] 24 [10, 0, 0, 0]) := by decide

/-- only IPAddrPrefix is masked on the way in: a labelled API prefix keeps its host bits -/
theorem labelled_not_masked_counterexample :
    fromApiNlri (.labeledPrefix [16] 8 [10, 1, 2, 3]) = some (.labeled [16] 8 [10, 1, 2, 3]) ∧
    fromApiNlri (.pfx 8 [10, 1, 2, 3]) = some (.ip 8 [10, 0, 0, 0]) := by decide

/-! ### MP_REACH_NLRI / MP_UNREACH_NLRI -/

/-- **MP_REACH, native -> API -> native** for every attribute with a valid next hop and ≥ 1 NLRI:
    the trip gives `rebuildX` (path identifiers zeroed, next hop un-mapped, link-local kept iff it is
    one, header recomputed by the constructor) -/
theorem mpreach_fromApi_toApi (f t n afi safi : Nat) (nh ll : Bytes) (nlris : List (Nat × Nlri))
    (hafi : afi < 65536) (hsafi : safi < 256) (hne : nlris ≠ []) (hnh : validAddr nh = true)
    (hok : ∀ p ∈ nlris, NlriOk p.2) :
    ∃ x, toApiX ⟨f, t, n, .mpReach afi safi nh ll nlris⟩ = some x ∧
      fromApiX x = rebuildX ⟨f, t, n, .mpReach afi safi nh ll nlris⟩ := by
  refine ⟨_, rfl, ?_⟩
  have hmap : fromApiNlris (List.map (fun p => toApiNlri p.2) nlris) = some (nlris.map fun p => rebuildNlri p.2) := by
    have := fromApiNlris_map rebuildNlri (nlris.map Prod.snd)
      (fun x hx => by
        obtain ⟨p, hp, rfl⟩ := List.mem_map.mp hx
        exact nlri_fromApi_toApi p.2 (hok p hp))
    simpa [List.map_map, Function.comp_def] using this
  have hne' : (List.map (fun p => toApiNlri p.2) nlris).isEmpty = false := by
    cases nlris with
    | nil => exact absurd rfl hne
    | cons a as => rfl
  have hu := validAddr_unmap hnh
  simp only [fromApiX, toApiFamily, fromApiFamily, Nat.mod_eq_of_lt hafi, Nat.mod_eq_of_lt hsafi, hne',
    hmap, rebuildX, List.map_map, Function.comp_def, hu]
  by_cases hl : (validAddr ll && isLinkLocal ll) = true
  · have h16 : ll.length = 16 := isLinkLocal_length (by simp only [Bool.and_eq_true] at hl; exact hl.2)
    simp [hl, h16]
  · simp [hl]

theorem mpunreach_fromApi_toApi (f t n afi safi : Nat) (nlris : List (Nat × Nlri))
    (hafi : afi < 65536) (hsafi : safi < 256) (hne : nlris ≠ []) (hok : ∀ p ∈ nlris, NlriOk p.2) :
    ∃ x, toApiX ⟨f, t, n, .mpUnreach afi safi nlris⟩ = some x ∧
      fromApiX x = rebuildX ⟨f, t, n, .mpUnreach afi safi nlris⟩ := by
  refine ⟨_, rfl, ?_⟩
  have hmap : fromApiNlris (List.map (fun p => toApiNlri p.2) nlris) = some (nlris.map fun p => rebuildNlri p.2) := by
    have := fromApiNlris_map rebuildNlri (nlris.map Prod.snd)
      (fun x hx => by
        obtain ⟨p, hp, rfl⟩ := List.mem_map.mp hx
        exact nlri_fromApi_toApi p.2 (hok p hp))
    simpa [List.map_map, Function.comp_def] using this
  have hne' : (List.map (fun p => toApiNlri p.2) nlris).isEmpty = false := by
    cases nlris with
    | nil => exact absurd rfl hne
    | cons a as => rfl
  simp [fromApiX, toApiFamily, fromApiFamily, Nat.mod_eq_of_lt hafi, Nat.mod_eq_of_lt hsafi, hne',
    hmap, rebuildX, List.map_map, Function.comp_def]

/-- an End-of-RIB style MP_UNREACH (no NLRI) cannot make the trip: UnmarshalNLRIs refuses an empty list -/
theorem mpunreach_empty_rejected (f t n afi safi : Nat) :
    ∃ x, toApiX ⟨f, t, n, .mpUnreach afi safi []⟩ = some x ∧ fromApiX x = none := ⟨_, rfl, rfl⟩

/-- RIB form of the arguments of an MP_REACH attribute -/
def MpArgsWF (afi safi : Nat) (nh ll : Bytes) (ns : List Nlri) : Prop :=
  afi < 65536 ∧ safi < 256 ∧ ns ≠ [] ∧ validAddr nh = true ∧ unmap nh = nh ∧
  (ll = [] ∨ (nhIsV6 afi nh = true ∧ isLinkLocal ll = true)) ∧ ∀ n ∈ ns, NlriWF n

/-- **lossless on RIB-form MP_REACH**: an attribute as the constructor builds it from RIB-form arguments
    (path ids 0, masked prefixes, label stacks, next hop not IPv4-mapped, second next hop link-local)
    is rebuilt identically — hence same octets and Len() -/
theorem mpreach_rebuild_eq_self (afi safi : Nat) (nh ll : Bytes) (ns : List Nlri) (a : XAttr)
    (h : MpArgsWF afi safi nh ll ns) (ha : mkMpReach afi safi (ns.map fun n => (0, n)) nh ll = some a) :
    rebuildX a = some a := by
  obtain ⟨hafi, hsafi, hne, hnh, hun, hll, hw⟩ := h
  have hmapid : (ns.map fun n => ((0 : Nat), n)).map (fun p => ((0 : Nat), rebuildNlri p.2)) = ns.map fun n => (0, n) := by
    simp only [List.map_map, Function.comp_def]
    apply List.map_congr_left
    intro n hn
    rw [rebuildNlri_eq_self n (hw n hn)]
  have hemp : (ns.map fun n => ((0 : Nat), n)).isEmpty = false := by
    cases ns with
    | nil => exact absurd rfl hne
    | cons x xs => rfl
  simp only [mkMpReach, hemp, Bool.false_eq_true, if_false, Option.some.injEq] at ha
  subst ha
  have hnil : isLinkLocal [] = false := rfl
  have hvnil : validAddr [] = false := rfl
  rcases hll with rfl | ⟨hv6, hl⟩
  · -- no link-local next hop
    by_cases hv : nhIsV6 afi nh = true
    · simp [rebuildX, mkMpReach, hemp, hmapid, hv, hun, Nat.mod_eq_of_lt hafi, Nat.mod_eq_of_lt hsafi,
        hnil, hvnil]
    · simp [rebuildX, mkMpReach, hemp, hmapid, hv, hnh, hun, Nat.mod_eq_of_lt hafi, Nat.mod_eq_of_lt hsafi,
        hnil, hvnil]
  · have h16 := isLinkLocal_length hl
    have hvl : validAddr ll = true := by simp [validAddr, h16]
    simp [rebuildX, mkMpReach, hemp, hmapid, hv6, hl, hvl, hun, Nat.mod_eq_of_lt hafi, Nat.mod_eq_of_lt hsafi]

theorem mpreach_wire_preserved (afi safi : Nat) (nh ll : Bytes) (ns : List Nlri) (a : XAttr)
    (h : MpArgsWF afi safi nh ll ns) (ha : mkMpReach afi safi (ns.map fun n => (0, n)) nh ll = some a) :
    ∃ a', rebuildX a = some a' ∧ encXAttr a' = encXAttr a ∧ xattrLen a' = xattrLen a :=
  ⟨a, mpreach_rebuild_eq_self afi safi nh ll ns a h ha, rfl, rfl⟩

example : MpArgsWF 2 1 [32, 1, 13, 184, 0, 0, 0, 0, 0, 0, 0, 0, 0, 0, 0, 1]
    [254, 128, 0, 0, 0, 0, 0, 0, 0, 0, 0, 0, 0, 0, 0, 1]
    [.ip 48 [32, 1, 13, 184, 0, 1, 0, 0, 0, 0, 0, 0, 0, 0, 0, 0]] := by
  refine ⟨by decide, by decide, by decide, by decide, by decide, Or.inr ⟨by decide, by decide⟩, ?_⟩
  intro n hn; simp at hn; subst hn; exact ⟨by decide, by decide⟩

/-- the path identifiers inside MP_REACH are not part of the API attribute (the API carries one
    identifier per api.Path): ID 7 comes back 0 -/
theorem mp_path_id_counterexample :
    let a : XAttr := ⟨128, 14, 9, .mpReach 1 1 [10, 0, 0, 1] [] [(7, .ip 8 [10, 0, 0, 0])]⟩
    ∃ x a', toApiX a = some x ∧ fromApiX x = some a' ∧ a'.val = .mpReach 1 1 [10, 0, 0, 1] [] [(0, .ip 8 [10, 0, 0, 0])] :=
  ⟨_, _, rfl, rfl, rfl⟩

/-- an IPv4-mapped IPv6 next hop of an AFI-1 route (a 16-octet next hop on the wire) is printed
    un-mapped and comes back as a 4-octet next hop: the octets differ -/
theorem v4mapped_nexthop_counterexample :
    let nh : Bytes := [0, 0, 0, 0, 0, 0, 0, 0, 0, 0, 255, 255, 10, 0, 0, 1]
    ∃ a x a', mkMpReach 1 1 [(0, .ip 8 [10, 0, 0, 0])] nh [] = some a ∧ toApiX a = some x ∧
      fromApiX x = some a' ∧ encXAttr a' ≠ encXAttr a :=
  ⟨_, _, _, rfl, rfl, rfl, by decide⟩

/-! ### api.Path <-> apiutil.Path <-> table.Path -/

/-- **api.Path -> apiutil.Path -> api.Path: the fields that survive** (gRPC AddPath input read back
    through toPathApi): flags, source AS, both identifiers, whole seconds of age, family (narrowed) -/
theorem api_path_fields_preserved (p : ApiPath) (u : UPath) (h : api2apiutil p = some u) :
    let q := apiutil2api u
    q.best = p.best ∧ q.isWithdraw = p.isWithdraw ∧ q.noImplicitWithdraw = p.noImplicitWithdraw ∧
    q.sourceAsn = p.sourceAsn ∧ q.stale = p.stale ∧ q.isFromExternal = p.isFromExternal ∧
    q.identifier = p.identifier ∧ q.localIdentifier = p.localIdentifier ∧
    q.ageSec = (if p.ageSet then p.ageSec else 0) ∧
    q.family = ⟨p.family.afi % 65536, p.family.safi % 256⟩ ∧
    q.sourceId = parseOrZero p.sourceId ∧ q.neighborIp = parseOrZero p.neighborIp := by
  unfold api2apiutil at h
  split at h
  · cases h
  · split at h
    · cases h
    · split at h
      · cases h
      · simp only [Option.some.injEq] at h
        subst h
        simp [apiutil2api, toApiFamily, fromApiFamily, parseOrZero, validAddr]
        constructor <;> (split <;> simp_all)

/-- **… and the fields that never do**: validation, filtered, is_nexthop_invalid, send_max_filtered and
    uuid are not read by api2apiutilPath, nanoseconds are dropped (for EVERY accepted path) -/
theorem api_path_fields_lost (p : ApiPath) (u : UPath) (h : api2apiutil p = some u) :
    let q := apiutil2api u
    q.validation = none ∧ q.filtered = false ∧ q.isNexthopInvalid = false ∧ q.sendMaxFiltered = false ∧
    q.uuid = [] ∧ q.ageNanos = 0 ∧ q.ageSet = true := by
  unfold api2apiutil at h
  split at h
  · cases h
  · split at h
    · cases h
    · split at h
      · cases h
      · simp only [Option.some.injEq] at h
        subst h
        simp [apiutil2api]

/-- a source AS without a parseable source id is refused; with source AS 0 a bad id is silently dropped -/
theorem api_path_source_id_rule (p : ApiPath) (hbad : validAddr p.sourceId = false) :
    (p.sourceAsn ≠ 0 → api2apiutil p = none) ∧
    (p.sourceAsn = 0 → ∀ u, api2apiutil p = some u → u.peerId = []) := by
  constructor
  · intro hs
    unfold api2apiutil
    split
    · rfl
    · split
      · rfl
      · have hz : parseOrZero p.sourceId = [] := by simp [parseOrZero, hbad]
        have hv : validAddr ([] : Bytes) = false := rfl
        simp [hz, hv, hs]
  · intro hs u h
    unfold api2apiutil at h
    split at h
    · cases h
    · split at h
      · cases h
      · split at h
        · cases h
        · simp only [Option.some.injEq] at h
          subst h
          simp [parseOrZero, hbad]

/-- **apiutil.Path -> table.Path -> apiutil.Path (AddPath / DeletePath, then toPathApiUtil): survivors** -/
theorem table_fields_preserved (isVrf del : Bool) (u : UPath) (t : TPath) (h : apiutil2table isVrf del u = some t) :
    let v := table2apiutil t
    v.afi = u.afi ∧ v.safi = u.safi ∧ v.nlri = u.nlri ∧ v.age = u.age ∧ v.remoteId = u.remoteId ∧
    v.isFromExternal = u.isFromExternal ∧ v.noImplicitWithdraw = u.noImplicitWithdraw ∧
    v.withdrawal = (del || u.withdrawal) := by
  unfold apiutil2table at h
  split at h
  · cases h
  · split at h
    · cases h
    · split at h
      · cases h
      · simp only [Option.some.injEq] at h
        subst h
        simp [table2apiutil]

/-- **… and what is never carried into the RIB**: best, stale, is-nexthop-invalid, filtered,
    send-max-filtered, validation and the caller's local identifier (the destination assigns its own) -/
theorem table_fields_lost (isVrf del : Bool) (u : UPath) (t : TPath) (h : apiutil2table isVrf del u = some t) :
    let v := table2apiutil t
    v.best = false ∧ v.stale = false ∧ v.isNexthopInvalid = false ∧ v.filtered = false ∧
    v.sendMaxFiltered = false ∧ v.validation = none ∧ v.localId = 0 := by
  unfold apiutil2table at h
  split at h
  · cases h
  · split at h
    · cases h
    · split at h
      · cases h
      · simp only [Option.some.injEq] at h
        subst h
        simp [table2apiutil]

/-- the source triple survives iff a source AS is given; a locally originated path (source AS 0) loses
    any source id / neighbour address the request carried -/
theorem table_source_rule (isVrf del : Bool) (u : UPath) (t : TPath) (h : apiutil2table isVrf del u = some t) :
    let v := table2apiutil t
    (u.peerAsn ≠ 0 → v.peerAsn = u.peerAsn ∧ v.peerId = u.peerId ∧ v.peerAddress = u.peerAddress) ∧
    (u.peerAsn = 0 → v.peerAsn = 0 ∧ v.peerId = [] ∧ v.peerAddress = []) := by
  unfold apiutil2table at h
  split at h
  · cases h
  · split at h
    · cases h
    · split at h
      · cases h
      · simp only [Option.some.injEq] at h
        subst h
        constructor <;> intro hs <;> simp [table2apiutil, hs]

/-- the attribute list that is installed: the request's attributes minus NEXT_HOP / MP_REACH_NLRI, in
    order, followed by exactly one rebuilt next-hop attribute (IPv4 unicast + IPv4 next hop outside a
    VRF: NEXT_HOP; otherwise MP_REACH_NLRI of the path's own NLRI with path id 0) -/
theorem table_attrs_shape (isVrf del : Bool) (u : UPath) (t : TPath) (h : apiutil2table isVrf del u = some t) :
    ∃ kept nh ll, scanAttrs [] [] [] u.attrs = some (kept, nh, ll) ∧
      t.attrs = kept ++ nextHopAttr isVrf u.afi u.safi u.nlri nh ll := by
  unfold apiutil2table at h
  split at h
  · cases h
  · split at h
    · cases h
    · rename_i kept nh ll hs
      split at h
      · cases h
      · simp only [Option.some.injEq] at h
        subst h
        exact ⟨kept, nh, ll, hs, rfl⟩

/-- concrete replay of the shape: ORIGIN + NEXT_HOP + MED for 10.0.0.0/8 comes back as ORIGIN, MED, NEXT_HOP;
    the same request into a VRF gets MP_REACH_NLRI instead -/
theorem table_attrs_example :
    let u : UPath := ⟨1, 1, .ip 8 [10, 0, 0, 0], 0, true, [.core (mkOrigin 0), .core (mkNextHop [192, 0, 2, 1]), .core (mkMed 5)],
      true, false, 0, [1, 1, 1, 1], [], false, false, true, false, false, some 3, 9, 4⟩
    (apiutil2table false false u).map (·.attrs) =
      some [.core (mkOrigin 0), .core (mkMed 5), .core (mkNextHop [192, 0, 2, 1])] ∧
    ((apiutil2table true false u).map fun t => t.attrs.map AnyAttr.typ) = some [1, 4, 14] ∧
    (apiutil2table false false u).map (fun t => (table2apiutil t).peerId) = some [] := by decide

/-- a request without any next hop is refused unless it is a withdrawal -/
theorem table_nexthop_required (isVrf del : Bool) (u : UPath) (kept : List AnyAttr) (nh ll : Bytes)
    (hf : ¬(u.afi = 0 ∧ u.safi = 0)) (hs : scanAttrs [] [] [] u.attrs = some (kept, nh, ll))
    (hw : u.withdrawal = false) (hn : validAddr nh = false) : apiutil2table isVrf del u = none := by
  simp [apiutil2table, hf, hs, hw, hn]

end C18
