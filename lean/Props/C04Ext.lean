import Model.WireExt
import Lemmas.Wire
/-!
# C04, extension: the 8-octet extended-community codec (EXTENDED_COMMUNITIES attribute value)

About `Model/WireExt.lean` (decoder: ParseExtended, parseOpaqueExtended, parseEvpnExtended, the value
loop of PathAttributeExtendedCommunities.DecodeFromBytes) and `ApiConv.encExt` (…Extended.Serialize).

* `ext_decode_encode`      — decode (encode e ++ anything) = e for every canonical value;
* `ext_encode_length`      — a canonical value serialises to exactly 8 octets (Len = emitted = consumed);
* `ext_decoded_is_canon`   — for ALL octet strings: whatever the decoder accepts into a modelled kind
                             is canonical, hence
* `ext_reserialise_fixpoint` — for ALL octet strings: re-serialising a decoded value and decoding
                             again gives the same value and 8 octets (the fixpoint half of the property);
* `ext_reserialise_identity_partial` — the first 8 octets come back unchanged for the kinds without
                             reserved octets; the others are delimited by
* `ext_reserved_octets_counterexample`, `ext_linkbw_transitive_bit_counterexample` (decide);
* `exts_decode_encode`, `exts_length` — the list attribute: the loop recovers the list, walks 8·n octets;
* `exts_bad_length_rejected` — a value whose length is not a multiple of 8 is rejected.
-/
namespace C04
open Wire ApiConv WireExt

private theorem be16_eq (n : Nat) : be16 n = [n / 256 % 256, n % 256] := rfl
private theorem be32_eq (n : Nat) :
    be32 n = [n / 16777216 % 256, n / 65536 % 256, n / 256 % 256, n % 256] := rfl

private theorem rd16_2 (a b : Nat) (r : Bytes) : rd16 (a :: b :: r) = a * 256 + b := rfl
private theorem rd32_4 (a b c d : Nat) (r : Bytes) :
    rd32 (a :: b :: c :: d :: r) = ((a * 256 + b) * 256 + c) * 256 + d := rfl

private theorem r16 (n : Nat) (h : n < 65536) : n / 256 % 256 * 256 + n % 256 = n := by omega
private theorem r32 (n : Nat) (h : n < 4294967296) :
    ((n / 16777216 % 256 * 256 + n / 65536 % 256) * 256 + n / 256 % 256) * 256 + n % 256 = n := by omega
private theorem r24 (n : Nat) (h : n < 16777216) :
    n / 65536 % 256 * 65536 + n / 256 % 256 * 256 + n % 256 = n := by omega

/-- a 7-element list, spelled out -/
private theorem len7 {v : Bytes} (h : v.length = 7) :
    ∃ a b c d e f g, v = [a, b, c, d, e, f, g] := by
  match v, h with
  | [a, b, c, d, e, f, g], _ => exact ⟨a, b, c, d, e, f, g, rfl⟩

private theorem len6 {v : Bytes} (h : v.length = 6) :
    ∃ a b c d e f, v = [a, b, c, d, e, f] := by
  match v, h with
  | [a, b, c, d, e, f], _ => exact ⟨a, b, c, d, e, f, rfl⟩

/-- every canonical value serialises to 8 octets -/
theorem ext_encode_length (e : ExtComm) (h : ExtCanon e) : (encExt e).length = 8 := by
  cases e <;> simp only [ExtCanon] at h <;>
    simp [encExt, be16_eq, be32_eq, padTo, h]
  all_goals first | omega | (obtain ⟨h1, _⟩ := h; simp [h1])

/-- decode ∘ encode = id on canonical values, whatever follows in the buffer -/
theorem ext_decode_encode (e : ExtComm) (rest : Bytes) (h : ExtCanon e) :
    decExt (encExt e ++ rest) = .ok e := by
  cases e with
  | twoOctetAs st as la tr =>
    obtain ⟨h1, h2, h3, h4⟩ := h
    cases tr <;>
      simp [encExt, decExt, decTwoOctet, tbit, at', be16_eq, be32_eq, rd16_2, rd32_4,
        Nat.mod_eq_of_lt h1, h2, r16 _ h3, r32 _ h4]
  | ipv4 st a la tr =>
    obtain ⟨h1, h2, h3⟩ := h
    cases tr <;>
      simp [encExt, decExt, tbit, at', be16_eq, be32_eq, rd16_2, rd32_4,
        Nat.mod_eq_of_lt h1, r16 _ h3, r32 _ h2]
  | fourOctetAs st as la tr =>
    obtain ⟨h1, h2, h3⟩ := h
    cases tr <;>
      simp [encExt, decExt, tbit, at', be16_eq, be32_eq, rd16_2, rd32_4,
        Nat.mod_eq_of_lt h1, r16 _ h3, r32 _ h2]
  | validation s =>
    have h1 : s < 256 := h
    simp [encExt, decExt, decOpaque, at', Nat.mod_eq_of_lt h1]
  | linkBandwidth as bw =>
    obtain ⟨h1, h2⟩ := h
    simp [encExt, decExt, decTwoOctet, at', be16_eq, be32_eq, rd16_2, rd32_4, r16 _ h1, r32 _ h2]
  | color c =>
    have h1 : c < 4294967296 := h
    simp [encExt, decExt, decOpaque, at', be32_eq, rd32_4, r32 _ h1]
  | encap t =>
    have h1 : t < 65536 := h
    simp [encExt, decExt, decOpaque, at', be16_eq, rd16_2, r16 _ h1]
  | defaultGateway => simp [encExt, decExt, decOpaque, at']
  | «opaque» tr v =>
    obtain ⟨h1, _, h3⟩ := h
    obtain ⟨a, b, c, d, e, f, g, rfl⟩ := len7 h1
    cases tr
    · simp at h3
      simp [encExt, decExt, decOpaque, tbit, at', h3]
    · simp at h3
      simp [encExt, decExt, decOpaque, tbit, at', h3]
  | esiLabel l s =>
    have h1 : l < 16777216 := h
    cases s <;> simp [encExt, decExt, decEvpn, at', r24 _ h1]
  | esImport m =>
    obtain ⟨h1, _⟩ := h
    obtain ⟨a, b, c, d, e, f, rfl⟩ := len6 h1
    simp [encExt, decExt, decEvpn, at', padTo]
  | macMobility q s =>
    have h1 : q < 4294967296 := h
    cases s <;> simp [encExt, decExt, decEvpn, at', be32_eq, rd32_4, r32 _ h1]
  | routerMac m =>
    obtain ⟨h1, _⟩ := h
    obtain ⟨a, b, c, d, e, f, rfl⟩ := len6 h1
    simp [encExt, decExt, decEvpn, at']
  | unknown t v =>
    obtain ⟨h1, h2, _, h4, h5⟩ := h
    obtain ⟨a, b, c, d, e, f, g, rfl⟩ := len7 h2
    simp at h4 h5
    by_cases hx : t = 128 ∨ t = 129 ∨ t = 130
    · have h6 := h5 hx
      have h7 : ¬ (a = 10 ∧ b = 19) := fun ⟨x, y⟩ => h6.2 x y
      rcases hx with rfl | rfl | rfl <;>
        simp [encExt, decExt, decExperimental, at', h6.1, h7]
    · simp at hx
      simp [encExt, decExt, at', Nat.mod_eq_of_lt h1, h4, hx]
  | noApiMessage o => exact absurd h (by simp [ExtCanon])

private theorem len8 {b : Bytes} (h : ¬ b.length < 8) :
    ∃ a0 a1 a2 a3 a4 a5 a6 a7 r, b = a0 :: a1 :: a2 :: a3 :: a4 :: a5 :: a6 :: a7 :: r := by
  match b, h with
  | a0 :: a1 :: a2 :: a3 :: a4 :: a5 :: a6 :: a7 :: r, _ => exact ⟨a0, a1, a2, a3, a4, a5, a6, a7, r, rfl⟩
  | [], h | [_], h | [_, _], h | [_, _, _], h | [_, _, _, _], h | [_, _, _, _, _], h
  | [_, _, _, _, _, _], h | [_, _, _, _, _, _, _], h => exact absurd (by simp) h

private theorem canon_two (tr : Bool) (a0 a1 a2 a3 a4 a5 a6 a7 : Nat)
    (h1 : a1 < 256) (h2 : a2 < 256) (h3 : a3 < 256) (h4 : a4 < 256) (h5 : a5 < 256) (h6 : a6 < 256)
    (h7 : a7 < 256) : ExtCanon (decTwoOctet tr [a0, a1, a2, a3, a4, a5, a6, a7]) := by
  by_cases c : a1 = 4 <;>
    simp [decTwoOctet, at', c, ExtCanon, rd16_2, rd32_4] <;> omega

private theorem canon_opq (tr : Bool) (a0 a1 a2 a3 a4 a5 a6 a7 : Nat)
    (h1 : a1 < 256) (h2 : a2 < 256) (h3 : a3 < 256) (h4 : a4 < 256) (h5 : a5 < 256) (h6 : a6 < 256)
    (h7 : a7 < 256) : ExtCanon (decOpaque tr [a0, a1, a2, a3, a4, a5, a6, a7]) := by
  cases tr
  · by_cases c : a1 = 0
    · simp [decOpaque, at', c, ExtCanon]; omega
    · simp [decOpaque, at', c, ExtCanon]; omega
  · by_cases c1 : a1 = 11
    · simp [decOpaque, at', c1, ExtCanon, rd32_4]; omega
    · by_cases c2 : a1 = 12
      · simp [decOpaque, at', c2, ExtCanon, rd16_2]; omega
      · by_cases c3 : a1 = 13
        · simp [decOpaque, at', c3, ExtCanon]
        · simp [decOpaque, at', c1, c2, c3, ExtCanon]; omega

private theorem canon_evpn (e : ExtComm) (a0 a1 a2 a3 a4 a5 a6 a7 : Nat)
    (h2 : a2 < 256) (h3 : a3 < 256) (h4 : a4 < 256) (h5 : a5 < 256) (h6 : a6 < 256)
    (h7 : a7 < 256) (h : decEvpn [a0, a1, a2, a3, a4, a5, a6, a7] = .ok e) : ExtCanon e := by
  simp only [decEvpn, at', List.getD_cons_zero, List.getD_cons_succ, beq_iff_eq] at h
  split at h
  · cases h; simp [ExtCanon]; omega
  · split at h
    · cases h; simp [ExtCanon]; omega
    · split at h
      · cases h; simp [ExtCanon, rd32_4]; omega
      · split at h
        · cases h; simp [ExtCanon]; omega
        · split at h <;> cases h

private theorem canon_exp (e : ExtComm) (a0 a1 a2 a3 a4 a5 a6 a7 : Nat)
    (h0 : a0 < 256) (h1 : a1 < 256) (h2 : a2 < 256) (h3 : a3 < 256) (h4 : a4 < 256) (h5 : a5 < 256)
    (h6 : a6 < 256) (h7 : a7 < 256) (cx : (a0 == 128 || a0 == 129 || a0 == 130) = true)
    (h : decExperimental [a0, a1, a2, a3, a4, a5, a6, a7] = .ok e) : ExtCanon e := by
  simp only [Bool.or_eq_true, beq_iff_eq] at cx
  simp only [decExperimental, at', List.getD_cons_zero, List.getD_cons_succ, beq_iff_eq,
    List.drop_succ_cons, List.drop_zero, List.take_succ_cons, List.take_zero, Bool.or_eq_true,
    Bool.and_eq_true] at h
  by_cases e1 : ((a1 = 6 ∨ a1 = 7) ∨ a1 = 8) ∨ a1 = 9
  · rw [if_pos e1] at h; cases h
  rw [if_neg e1] at h
  by_cases e2 : a1 = 10 ∧ a2 = 19
  · rw [if_pos e2] at h; cases h
  rw [if_neg e2] at h
  cases h
  simp only [ExtCanon]
  refine ⟨h0, rfl, ?_, ?_, ?_⟩
  · intro x hx; simp at hx; omega
  · simp; omega
  · intro _; simp; omega

/-- for ALL octet strings: a value the decoder yields in a modelled kind is canonical -/
theorem ext_decoded_is_canon (b : Bytes) (e : ExtComm) (hb : ∀ x ∈ b, x < 256)
    (h : decExt b = .ok e) : ExtCanon e := by
  by_cases hl : b.length < 8
  · simp [decExt, hl] at h
  · obtain ⟨a0, a1, a2, a3, a4, a5, a6, a7, r, rfl⟩ := len8 hl
    have h0 : a0 < 256 := hb a0 (by simp)
    have h1 : a1 < 256 := hb a1 (by simp)
    have h2 : a2 < 256 := hb a2 (by simp)
    have h3 : a3 < 256 := hb a3 (by simp)
    have h4 : a4 < 256 := hb a4 (by simp)
    have h5 : a5 < 256 := hb a5 (by simp)
    have h6 : a6 < 256 := hb a6 (by simp)
    have h7 : a7 < 256 := hb a7 (by simp)
    simp only [decExt, if_neg hl, List.take_succ_cons, List.take_zero] at h
    simp only [at', List.getD_cons_zero, List.getD_cons_succ, List.drop_succ_cons, List.drop_zero,
      rd16_2, rd32_4, beq_iff_eq] at h
    by_cases c0 : a0 = 0
    · rw [if_pos c0] at h; cases h; exact canon_two _ _ _ _ _ _ _ _ _ h1 h2 h3 h4 h5 h6 h7
    rw [if_neg c0] at h
    by_cases c1 : a0 = 64
    · rw [if_pos c1] at h; cases h; exact canon_two _ _ _ _ _ _ _ _ _ h1 h2 h3 h4 h5 h6 h7
    rw [if_neg c1] at h
    by_cases c2 : a0 = 1
    · rw [if_pos c2] at h; cases h; simp [ExtCanon]; omega
    rw [if_neg c2] at h
    by_cases c3 : a0 = 65
    · rw [if_pos c3] at h; cases h; simp [ExtCanon]; omega
    rw [if_neg c3] at h
    by_cases c4 : a0 = 2
    · rw [if_pos c4] at h; cases h; simp [ExtCanon]; omega
    rw [if_neg c4] at h
    by_cases c5 : a0 = 66
    · rw [if_pos c5] at h; cases h; simp [ExtCanon]; omega
    rw [if_neg c5] at h
    by_cases c6 : a0 = 3
    · rw [if_pos c6] at h; cases h; exact canon_opq _ _ _ _ _ _ _ _ _ h1 h2 h3 h4 h5 h6 h7
    rw [if_neg c6] at h
    by_cases c7 : a0 = 67
    · rw [if_pos c7] at h; cases h; exact canon_opq _ _ _ _ _ _ _ _ _ h1 h2 h3 h4 h5 h6 h7
    rw [if_neg c7] at h
    by_cases c8 : a0 = 6
    · rw [if_pos c8] at h; exact canon_evpn e _ _ _ _ _ _ _ _ h2 h3 h4 h5 h6 h7 h
    rw [if_neg c8] at h
    by_cases cx : (a0 == 128 || a0 == 129 || a0 == 130) = true
    · rw [if_pos cx] at h
      exact canon_exp e _ _ _ _ _ _ _ _ h0 h1 h2 h3 h4 h5 h6 h7 cx h
    rw [if_neg cx] at h
    by_cases cm : a0 = 12
    · rw [if_pos cm] at h
      simp only [decMup] at h
      split at h <;> cases h
    rw [if_neg cm] at h
    cases h
    simp only [Bool.or_eq_true, beq_iff_eq] at cx
    simp [ExtCanon, *]
    omega

/-- for ALL octet strings the decoder accepts into a modelled kind: serialising the decoded value
    gives 8 octets that decode to the same value again (re-serialising a parsed value is a fixpoint) -/
theorem ext_reserialise_fixpoint (b : Bytes) (e : ExtComm) (hb : ∀ x ∈ b, x < 256)
    (h : decExt b = .ok e) (rest : Bytes) :
    (encExt e).length = 8 ∧ decExt (encExt e ++ rest) = .ok e :=
  ⟨ext_encode_length e (ext_decoded_is_canon b e hb h), ext_decode_encode e rest (ext_decoded_is_canon b e hb h)⟩

/-- the kinds whose 8 octets carry no reserved / normalised octet -/
def NoReserved : ExtComm → Prop
  | .twoOctetAs .. | .ipv4 .. | .fourOctetAs .. | .opaque .. | .unknown .. | .esImport .. | .routerMac .. => True
  | _ => False

private theorem be16_of (a b : Nat) (ha : a < 256) (hb : b < 256) : be16 (a * 256 + b) = [a, b] := by
  have h1 : (a * 256 + b) / 256 % 256 = a := by omega
  have h2 : (a * 256 + b) % 256 = b := by omega
  simp [be16_eq, h1, h2]

private theorem be32_of (a b c d : Nat) (ha : a < 256) (hb : b < 256) (hc : c < 256) (hd : d < 256) :
    be32 (((a * 256 + b) * 256 + c) * 256 + d) = [a, b, c, d] := by
  have h1 : (((a * 256 + b) * 256 + c) * 256 + d) / 16777216 % 256 = a := by omega
  have h2 : (((a * 256 + b) * 256 + c) * 256 + d) / 65536 % 256 = b := by omega
  have h3 : (((a * 256 + b) * 256 + c) * 256 + d) / 256 % 256 = c := by omega
  have h4 : (((a * 256 + b) * 256 + c) * 256 + d) % 256 = d := by omega
  simp [be32_eq, h1, h2, h3, h4]

/-- partial converse: for the kinds without reserved octets, serialising the decoded value gives the
    first 8 input octets back, for ALL octet strings.  (`_partial`: false for the other kinds, see
    `ext_reserved_octets_counterexample` and `ext_linkbw_transitive_bit_counterexample`.) -/
theorem ext_reserialise_identity_partial (b : Bytes) (e : ExtComm) (hb : ∀ x ∈ b, x < 256)
    (h : decExt b = .ok e) (hk : NoReserved e) : encExt e = b.take 8 := by
  by_cases hl : b.length < 8
  · simp [decExt, hl] at h
  · obtain ⟨a0, a1, a2, a3, a4, a5, a6, a7, r, rfl⟩ := len8 hl
    have h0 : a0 < 256 := hb a0 (by simp)
    have h1 : a1 < 256 := hb a1 (by simp)
    have h2 : a2 < 256 := hb a2 (by simp)
    have h3 : a3 < 256 := hb a3 (by simp)
    have h4 : a4 < 256 := hb a4 (by simp)
    have h5 : a5 < 256 := hb a5 (by simp)
    have h6 : a6 < 256 := hb a6 (by simp)
    have h7 : a7 < 256 := hb a7 (by simp)
    have m1 := Nat.mod_eq_of_lt h1
    have m0 := Nat.mod_eq_of_lt h0
    have b23 := be16_of a2 a3 h2 h3
    have b67 := be16_of a6 a7 h6 h7
    have b4567 := be32_of a4 a5 a6 a7 h4 h5 h6 h7
    have b2345 := be32_of a2 a3 a4 a5 h2 h3 h4 h5
    simp only [decExt, if_neg hl, List.take_succ_cons, List.take_zero] at h
    simp only [at', List.getD_cons_zero, List.getD_cons_succ, List.drop_succ_cons, List.drop_zero,
      rd16_2, rd32_4, beq_iff_eq] at h
    simp only [List.take_succ_cons, List.take_zero]
    by_cases c0 : a0 = 0
    · rw [if_pos c0] at h
      by_cases c : a1 = 4
      · simp [decTwoOctet, at', c] at h; subst h; exact absurd hk (by simp [NoReserved])
      · simp [decTwoOctet, at', c, rd16_2, rd32_4] at h; subst h
        simp [encExt, tbit, m1, b23, b4567, c0]
    rw [if_neg c0] at h
    by_cases c1 : a0 = 64
    · rw [if_pos c1] at h
      by_cases c : a1 = 4
      · simp [decTwoOctet, at', c] at h; subst h; exact absurd hk (by simp [NoReserved])
      · simp [decTwoOctet, at', c, rd16_2, rd32_4] at h; subst h
        simp [encExt, tbit, m1, b23, b4567, c1]
    rw [if_neg c1] at h
    by_cases c2 : a0 = 1
    · rw [if_pos c2] at h; cases h; simp [encExt, tbit, m1, b2345, b67, c2]
    rw [if_neg c2] at h
    by_cases c3 : a0 = 65
    · rw [if_pos c3] at h; cases h; simp [encExt, tbit, m1, b2345, b67, c3]
    rw [if_neg c3] at h
    by_cases c4 : a0 = 2
    · rw [if_pos c4] at h; cases h; simp [encExt, tbit, m1, b2345, b67, c4]
    rw [if_neg c4] at h
    by_cases c5 : a0 = 66
    · rw [if_pos c5] at h; cases h; simp [encExt, tbit, m1, b2345, b67, c5]
    rw [if_neg c5] at h
    by_cases c6 : a0 = 3
    · rw [if_pos c6] at h
      by_cases d1 : a1 = 11
      · simp [decOpaque, at', d1] at h; subst h; exact absurd hk (by simp [NoReserved])
      by_cases d2 : a1 = 12
      · simp [decOpaque, at', d2] at h; subst h; exact absurd hk (by simp [NoReserved])
      by_cases d3 : a1 = 13
      · simp [decOpaque, at', d3] at h; subst h; exact absurd hk (by simp [NoReserved])
      simp [decOpaque, at', d1, d2, d3] at h; subst h
      simp [encExt, tbit, c6]
    rw [if_neg c6] at h
    by_cases c7 : a0 = 67
    · rw [if_pos c7] at h
      by_cases d0 : a1 = 0
      · simp [decOpaque, at', d0] at h; subst h; exact absurd hk (by simp [NoReserved])
      simp [decOpaque, at', d0] at h; subst h
      simp [encExt, tbit, c7]
    rw [if_neg c7] at h
    by_cases c8 : a0 = 6
    · rw [if_pos c8] at h
      simp only [decEvpn, at', List.getD_cons_zero, List.getD_cons_succ, beq_iff_eq] at h
      by_cases e1 : a1 = 1
      · rw [if_pos e1] at h; cases h; exact absurd hk (by simp [NoReserved])
      rw [if_neg e1] at h
      by_cases e2 : a1 = 2
      · rw [if_pos e2] at h; cases h; simp [encExt, padTo, c8, e2]
      rw [if_neg e2] at h
      by_cases e0 : a1 = 0
      · rw [if_pos e0] at h; cases h; exact absurd hk (by simp [NoReserved])
      rw [if_neg e0] at h
      by_cases e3 : a1 = 3
      · rw [if_pos e3] at h; cases h; simp [encExt, c8, e3]
      rw [if_neg e3] at h
      split at h <;> cases h
    rw [if_neg c8] at h
    by_cases cx : (a0 == 128 || a0 == 129 || a0 == 130) = true
    · rw [if_pos cx] at h
      simp only [decExperimental, at', List.getD_cons_zero, List.getD_cons_succ, beq_iff_eq,
        List.drop_succ_cons, List.drop_zero, List.take_succ_cons, List.take_zero, Bool.or_eq_true,
        Bool.and_eq_true] at h
      by_cases e1 : ((a1 = 6 ∨ a1 = 7) ∨ a1 = 8) ∨ a1 = 9
      · rw [if_pos e1] at h; cases h
      rw [if_neg e1] at h
      by_cases e2 : a1 = 10 ∧ a2 = 19
      · rw [if_pos e2] at h; cases h
      rw [if_neg e2] at h
      cases h
      simp [encExt, m0]
    rw [if_neg cx] at h
    by_cases cm : a0 = 12
    · rw [if_pos cm] at h
      simp only [decMup] at h
      split at h <;> cases h
    rw [if_neg cm] at h
    cases h
    simp [encExt, m0]

/-- the premises are satisfiable: a route target, decoded from octets followed by junk -/
example : decExt [0, 2, 253, 232, 0, 0, 0, 100, 9, 9] = .ok (.twoOctetAs 2 65000 100 true) := by decide

/-- the transitive bit of a link-bandwidth community does not survive decode → serialise:
    0x00 0x04 … comes back as 0x40 0x04 … (LinkBandwidthExtended.GetTypes is always non-transitive) -/
theorem ext_linkbw_transitive_bit_counterexample :
    decExt [0, 4, 0, 1, 0, 0, 0, 0] = .ok (.linkBandwidth 1 0) ∧
    encExt (.linkBandwidth 1 0) = [64, 4, 0, 1, 0, 0, 0, 0] := by decide

/-- reserved octets are not kept: a colour community with non-zero octets 2-3 re-serialises with zeros -/
theorem ext_reserved_octets_counterexample :
    decExt [3, 11, 7, 7, 0, 0, 0, 5] = .ok (.color 5) ∧ encExt (.color 5) = [3, 11, 0, 0, 0, 0, 0, 5] := by
  decide

/-- the list attribute value: 8 octets per canonical community -/
theorem exts_length : ∀ l : List ExtComm, (∀ e ∈ l, ExtCanon e) → (encExts l).length = 8 * l.length
  | [], _ => rfl
  | e :: es, h => by
    have h1 := ext_encode_length e (h e (by simp))
    have h2 := exts_length es (fun x hx => h x (by simp [hx]))
    simp [encExts, h1, h2]; omega

private theorem decExtsAux_enc : ∀ (l : List ExtComm) (fuel : Nat), (∀ e ∈ l, ExtCanon e) →
    l.length ≤ fuel → decExtsAux fuel (encExts l) = some (l.map some)
  | [], fuel, _, _ => by cases fuel <;> simp [decExtsAux, encExts]
  | e :: es, 0, _, hf => by simp at hf
  | e :: es, fuel + 1, h, hf => by
    have hc := h e (by simp)
    have h1 := ext_encode_length e hc
    have ih := decExtsAux_enc es fuel (fun x hx => h x (by simp [hx])) (by simpa using hf)
    have hlen : ¬ (encExt e ++ encExts es).length < 8 := by simp [h1]
    have hdrop : (encExt e ++ encExts es).drop 8 = encExts es := by
      rw [← h1]; exact List.drop_left
    simp only [decExtsAux, encExts, if_neg hlen, ext_decode_encode e (encExts es) hc, hdrop, ih]
    rfl

/-- PathAttributeExtendedCommunities: DecodeFromBytes of the serialised value gives the list back -/
theorem exts_decode_encode (l : List ExtComm) (h : ∀ e ∈ l, ExtCanon e) :
    decExts (encExts l) = some (l.map some) := by
  have hl := exts_length l h
  have : ¬ ((encExts l).length % 8 != 0) = true := by simp [hl]
  simp only [decExts, if_neg this]
  exact decExtsAux_enc l _ h (by omega)

/-- a value whose length is not a multiple of 8 is refused (ATTRIBUTE_LENGTH_ERROR) -/
theorem exts_bad_length_rejected (v : Bytes) (h : v.length % 8 ≠ 0) : decExts v = none := by
  simp [decExts, h]

/-- non-vacuity: a two-element list with junk-free framing -/
example : decExts (encExts [.color 5, .twoOctetAs 2 65000 100 true]) =
    some [some (.color 5), some (.twoOctetAs 2 65000 100 true)] := by decide


/-! ## IPv6-address-specific extended communities (20 octets) -/

private theorem padTo_self {n : Nat} {v : Bytes} (h : v.length = n) : padTo n v = v := by
  simp [padTo, ← h]

private theorem len16 {v : Bytes} (h : v.length = 16) :
    ∃ a0 a1 a2 a3 a4 a5 a6 a7 a8 a9 b0 b1 b2 b3 b4 b5,
      v = [a0, a1, a2, a3, a4, a5, a6, a7, a8, a9, b0, b1, b2, b3, b4, b5] := by
  match v, h with
  | [a0, a1, a2, a3, a4, a5, a6, a7, a8, a9, b0, b1, b2, b3, b4, b5], _ =>
    exact ⟨a0, a1, a2, a3, a4, a5, a6, a7, a8, a9, b0, b1, b2, b3, b4, b5, rfl⟩

private theorem len19 {v : Bytes} (h : v.length = 19) :
    ∃ a0 a1 a2 a3 a4 a5 a6 a7 a8 a9 b0 b1 b2 b3 b4 b5 b6 b7 b8,
      v = [a0, a1, a2, a3, a4, a5, a6, a7, a8, a9, b0, b1, b2, b3, b4, b5, b6, b7, b8] := by
  match v, h with
  | [a0, a1, a2, a3, a4, a5, a6, a7, a8, a9, b0, b1, b2, b3, b4, b5, b6, b7, b8], _ =>
    exact ⟨a0, a1, a2, a3, a4, a5, a6, a7, a8, a9, b0, b1, b2, b3, b4, b5, b6, b7, b8, rfl⟩

theorem ip6ext_encode_length (e : Ip6ExtComm) (h : Ip6Canon e) : (encIp6Ext e).length = 20 := by
  cases e with
  | specific st addr la tr => obtain ⟨_, h2, _, _⟩ := h; simp [encIp6Ext, padTo_self h2, h2, be16_eq]
  | redirect addr la => obtain ⟨h2, _, _⟩ := h; simp [encIp6Ext, padTo_self h2, h2, be16_eq]
  | unknown t v => obtain ⟨_, _, _, h4, _, _⟩ := h; simp [encIp6Ext, h4]

/-- decode ∘ encode = id on canonical 20-octet communities, whatever follows in the buffer -/
theorem ip6ext_decode_encode (e : Ip6ExtComm) (rest : Bytes) (h : Ip6Canon e) :
    decIp6Ext (encIp6Ext e ++ rest) = some e := by
  cases e with
  | specific st addr la tr =>
    obtain ⟨h1, h2, _, h4⟩ := h
    obtain ⟨a0, a1, a2, a3, a4, a5, a6, a7, a8, a9, b0, b1, b2, b3, b4, b5, rfl⟩ := len16 h2
    cases tr <;>
      simp [encIp6Ext, decIp6Ext, padTo, tbit, at', be16_eq, rd16_2, Nat.mod_eq_of_lt h1, r16 _ h4]
  | redirect addr la =>
    obtain ⟨h2, _, h4⟩ := h
    obtain ⟨a0, a1, a2, a3, a4, a5, a6, a7, a8, a9, b0, b1, b2, b3, b4, b5, rfl⟩ := len16 h2
    simp [encIp6Ext, decIp6Ext, padTo, at', be16_eq, rd16_2, r16 _ h4]
  | unknown t v =>
    obtain ⟨h1, h2, h3, h4, _, h6⟩ := h
    obtain ⟨a0, a1, a2, a3, a4, a5, a6, a7, a8, a9, b0, b1, b2, b3, b4, b5, b6, b7, b8, rfl⟩ := len19 h4
    by_cases c : t = 128
    · subst c
      have := h6 rfl
      simp at this
      simp [encIp6Ext, decIp6Ext, at', this]
    · simp [encIp6Ext, decIp6Ext, at', Nat.mod_eq_of_lt h1, h2, h3, c]

/-- for ALL octet strings: what the 20-octet decoder yields is canonical -/
theorem ip6ext_decoded_is_canon (b : Bytes) (e : Ip6ExtComm) (hb : ∀ x ∈ b, x < 256)
    (h : decIp6Ext b = some e) : Ip6Canon e := by
  by_cases hl : b.length < 20
  · simp [decIp6Ext, hl] at h
  · have hm : ∀ (i k : Nat), ∀ x ∈ ((b.take 20).drop i).take k, x < 256 := fun i k x hx =>
      hb x (List.mem_of_mem_take (List.mem_of_mem_drop (List.mem_of_mem_take hx)))
    have hat : ∀ i, at' (b.take 20) i < 256 := by
      intro i
      unfold at'
      by_cases hi : i < (b.take 20).length
      · have : (b.take 20).getD i 0 = (b.take 20)[i] := by
          rw [List.getD_eq_getElem?_getD, List.getElem?_eq_getElem hi]; rfl
        rw [this]
        exact hb _ (List.mem_of_mem_take (List.getElem_mem hi))
      · have : (b.take 20).getD i 0 = 0 := by
          rw [List.getD_eq_getElem?_getD, List.getElem?_eq_none (Nat.le_of_not_lt hi)]; rfl
        rw [this]; omega
    have hrd : rd16 ((b.take 20).drop 18) < 65536 := by
      have hlen : ((b.take 20).drop 18).length = 2 := by simp; omega
      match hd : (b.take 20).drop 18, hlen with
      | [x, y], _ =>
        have hx : x < 256 := hb x (List.mem_of_mem_take (List.mem_of_mem_drop (by rw [hd]; simp)))
        have hy : y < 256 := hb y (List.mem_of_mem_take (List.mem_of_mem_drop (by rw [hd]; simp)))
        simp [rd16_2]; omega
    simp only [decIp6Ext, if_neg hl, beq_iff_eq, Bool.and_eq_true] at h
    by_cases c0 : at' (b.take 20) 0 = 0
    · rw [if_pos c0] at h; cases h
      exact ⟨hat 1, by simp; omega, hm 2 16, hrd⟩
    rw [if_neg c0] at h
    by_cases c1 : at' (b.take 20) 0 = 64
    · rw [if_pos c1] at h; cases h
      exact ⟨hat 1, by simp; omega, hm 2 16, hrd⟩
    rw [if_neg c1] at h
    by_cases c2 : at' (b.take 20) 0 = 128 ∧ at' (b.take 20) 1 = 11
    · rw [if_pos c2] at h; cases h
      exact ⟨by simp; omega, hm 2 16, hrd⟩
    rw [if_neg c2] at h
    cases h
    refine ⟨hat 0, c0, c1, by simp; omega, hm 1 19, ?_⟩
    intro h128 h11
    apply c2
    refine ⟨h128, ?_⟩
    have hlen : 2 ≤ (b.take 20).length := by simp; omega
    revert h11
    unfold at'
    match hd : b.take 20, hlen with
    | x :: y :: r, _ => simp

/-- re-serialising a decoded 20-octet community is a fixpoint, for ALL octet strings -/
theorem ip6ext_reserialise_fixpoint (b : Bytes) (e : Ip6ExtComm) (hb : ∀ x ∈ b, x < 256)
    (h : decIp6Ext b = some e) (rest : Bytes) :
    (encIp6Ext e).length = 20 ∧ decIp6Ext (encIp6Ext e ++ rest) = some e :=
  ⟨ip6ext_encode_length e (ip6ext_decoded_is_canon b e hb h),
   ip6ext_decode_encode e rest (ip6ext_decoded_is_canon b e hb h)⟩

theorem ip6exts_length : ∀ l : List Ip6ExtComm, (∀ e ∈ l, Ip6Canon e) →
    (encIp6Exts l).length = 20 * l.length
  | [], _ => rfl
  | e :: es, h => by
    have h1 := ip6ext_encode_length e (h e (by simp))
    have h2 := ip6exts_length es (fun x hx => h x (by simp [hx]))
    simp [encIp6Exts, h1, h2]; omega

private theorem decIp6ExtsAux_enc : ∀ (l : List Ip6ExtComm) (fuel : Nat), (∀ e ∈ l, Ip6Canon e) →
    l.length ≤ fuel → decIp6ExtsAux fuel (encIp6Exts l) = some l
  | [], fuel, _, _ => by cases fuel <;> simp [decIp6ExtsAux, encIp6Exts]
  | e :: es, 0, _, hf => by simp at hf
  | e :: es, fuel + 1, h, hf => by
    have hc := h e (by simp)
    have h1 := ip6ext_encode_length e hc
    have ih := decIp6ExtsAux_enc es fuel (fun x hx => h x (by simp [hx])) (by simpa using hf)
    have hlen : ¬ (encIp6Ext e ++ encIp6Exts es).length < 20 := by simp [h1]
    have hdrop : (encIp6Ext e ++ encIp6Exts es).drop 20 = encIp6Exts es := by
      rw [← h1]; exact List.drop_left
    simp only [decIp6ExtsAux, encIp6Exts, if_neg hlen, ip6ext_decode_encode e (encIp6Exts es) hc, hdrop, ih]
    rfl

/-- PathAttributeIP6ExtendedCommunities: DecodeFromBytes of the serialised value gives the list back -/
theorem ip6exts_decode_encode (l : List Ip6ExtComm) (h : ∀ e ∈ l, Ip6Canon e) :
    decIp6Exts (encIp6Exts l) = some l := by
  have hl := ip6exts_length l h
  have : ¬ ((encIp6Exts l).length % 20 != 0) = true := by simp [hl]
  simp only [decIp6Exts, if_neg this]
  exact decIp6ExtsAux_enc l _ h (by omega)

end C04
