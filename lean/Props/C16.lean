/-
  C16 — RPKI origin validation implements RFC 6811 over a correctly maintained ROA table.

  Property theorems only; helper lemmas live in Lemmas/Roa.lean and Lemmas/RoaMgr.lean.
  `Roa.validate`, `Roa.add/delete/deleteAll`, `Roa.handleRTR`, `Roa.step` mirror
  internal/pkg/table/roa.go and pkg/server/rpki.go (the latter as repaired by the `fix:`
  commits on branch wt-C16) and are tied to them on every run by the correspondence check
  (go/overlay/internal/pkg/table/zz_verif_c16_test.go, go/overlay/pkg/server/zz_verif_c16_test.go).

  What is proved (about the model, for ALL tables / routes / PDU lists / histories):
    validate_rfc6811, validate_reason, origin_*, as_set_not_found   RFC 6811 classification
    policy_sees_same                                                the policy condition
    table_is_set                                                    Add/Delete/DeleteAll = set operations
    reset_reply_replaces, serial_reply_applies, purge_exact         what one response / one purge does
    history_invariant                                               after ANY history: table well formed,
                                                                    only records of configured caches
    serial_*                                                        serial-number arithmetic mod 2^32
  What is only sampled: that the model is the code (critbit covering walk as "all covering
  prefixes by ascending length", sockets/goroutines/timers as input events).
-/
import Lemmas.RoaMgr
namespace C16
open Roa

/-! ## RFC 6811 -/

/-- RFC 6811 "covering VRP": a record of the table whose prefix covers the route's prefix. -/
def Covering (t : Table) (q : Prefix) (x : Rec) : Prop := x ∈ recs t ∧ covers x.1 q = true

/-- RFC 6811 "matched": same origin AS, not AS 0, route not longer than the max length. -/
def Matches (q : Prefix) (origin : Nat) (x : Rec) : Prop :=
  x.2.as = origin ∧ x.2.as ≠ 0 ∧ q.len ≤ x.2.maxLen

/-- `covers` in arithmetic terms: same family, not longer, and dropping the extra low bits of
    the route's prefix leaves the record's prefix -/
theorem covers_iff (p q : Prefix) :
    covers p q = true ↔ p.fam = q.fam ∧ p.len ≤ q.len ∧ q.bits / 2 ^ (q.len - p.len) = p.bits := by
  simp [covers, Nat.shiftRight_eq_div_pow, and_assoc]

example : covers ⟨4, 8, 10⟩ ⟨4, 16, 2561⟩ = true ∧ covers ⟨4, 8, 10⟩ ⟨4, 16, 2817⟩ = false := by decide

theorem verdict_status (m ua ul : List Rec) :
    ((verdict m ua ul).1 = .valid ↔ m ≠ []) ∧
    ((verdict m ua ul).1 = .invalid ↔ m = [] ∧ (ua ≠ [] ∨ ul ≠ [])) ∧
    ((verdict m ua ul).1 = .notFound ↔ m = [] ∧ ua = [] ∧ ul = []) := by
  unfold verdict
  split
  · simp_all
  · split
    · simp_all
    · split <;> simp_all

theorem verdict_reason (m ua ul : List Rec) :
    ((verdict m ua ul).2 = .as ↔ m = [] ∧ ua ≠ []) ∧
    ((verdict m ua ul).2 = .length ↔ m = [] ∧ ua = [] ∧ ul ≠ []) := by
  unfold verdict
  by_cases h1 : m = [] <;> by_cases h2 : ua = [] <;> by_cases h3 : ul = [] <;> simp [h1, h2, h3]

/-- **RFC 6811 over any table.** For every table, route prefix and AS_PATH with an origin AS:
    Valid iff some covering record matches; Invalid iff covering records exist and none
    matches; NotFound iff no record covers the prefix. -/
theorem validate_rfc6811 (t : Table) (q : Prefix) (localAS : Nat) (segs : List Seg) (origin : Nat)
    (ho : originAS localAS segs = some origin) :
    ((validate t q localAS segs).status = .valid ↔ ∃ x, Covering t q x ∧ Matches q origin x) ∧
    ((validate t q localAS segs).status = .invalid ↔
        (∃ x, Covering t q x) ∧ ¬ ∃ x, Covering t q x ∧ Matches q origin x) ∧
    ((validate t q localAS segs).status = .notFound ↔ ¬ ∃ x, Covering t q x) := by
  have hm : ∀ x, isMatched q.len origin x = true ↔ Matches q origin x := by
    intro x
    simp only [isMatched, Matches, Bool.and_eq_true, decide_eq_true_eq, bne_iff_ne, beq_iff_eq]
    constructor
    · rintro ⟨h1, h2, h3⟩; exact ⟨h3, h2, h1⟩
    · rintro ⟨h1, h2, h3⟩; exact ⟨h3, h2, h1⟩
  have hcls : ∀ x, isMatched q.len origin x = false →
      (isUnmatchedAs q.len origin x = true ∨ isUnmatchedLen q.len x = true) := by
    intro x h
    simp only [isMatched, isUnmatchedAs, isUnmatchedLen] at h ⊢
    by_cases h1 : q.len ≤ x.2.maxLen
    · left
      simp only [h1, decide_true, Bool.true_and] at h ⊢
      rw [h]; rfl
    · right; simp [h1]
  have hes : ∀ x, x ∈ recs (walkMatch t q) ↔ Covering t q x := fun x => mem_recs_walkMatch t q x
  have hM : (recs (walkMatch t q)).filter (isMatched q.len origin) ≠ [] ↔
      ∃ x, Covering t q x ∧ Matches q origin x := by
    rw [Ne, List.filter_eq_nil_iff]
    constructor
    · intro h
      apply Classical.byContradiction
      intro hn
      apply h
      intro x hx hmx
      exact hn ⟨x, (hes x).mp hx, (hm x).mp hmx⟩
    · rintro ⟨x, hc, hmx⟩ h
      exact h x ((hes x).mpr hc) ((hm x).mpr hmx)
  have hU : (recs (walkMatch t q)).filter (isMatched q.len origin) = [] →
      (((recs (walkMatch t q)).filter (isUnmatchedAs q.len origin) ≠ [] ∨
        (recs (walkMatch t q)).filter (isUnmatchedLen q.len) ≠ []) ↔ ∃ x, Covering t q x) := by
    intro hnil
    rw [List.filter_eq_nil_iff] at hnil
    constructor
    · rintro (h | h)
      · rw [Ne, List.filter_eq_nil_iff] at h
        apply Classical.byContradiction
        intro hn
        exact h (fun x hx _ => hn ⟨x, (hes x).mp hx⟩)
      · rw [Ne, List.filter_eq_nil_iff] at h
        apply Classical.byContradiction
        intro hn
        exact h (fun x hx _ => hn ⟨x, (hes x).mp hx⟩)
    · rintro ⟨x, hc⟩
      have hx := (hes x).mpr hc
      have hnm : isMatched q.len origin x = false := by
        cases h : isMatched q.len origin x
        · rfl
        · exact absurd h (hnil x hx)
      rcases hcls x hnm with h | h
      · left; rw [Ne, List.filter_eq_nil_iff]; exact fun hh => hh x hx h
      · right; rw [Ne, List.filter_eq_nil_iff]; exact fun hh => hh x hx h
  have hv := verdict_status ((recs (walkMatch t q)).filter (isMatched q.len origin))
    ((recs (walkMatch t q)).filter (isUnmatchedAs q.len origin))
    ((recs (walkMatch t q)).filter (isUnmatchedLen q.len))
  have hst : (validate t q localAS segs).status = (verdict
      ((recs (walkMatch t q)).filter (isMatched q.len origin))
      ((recs (walkMatch t q)).filter (isUnmatchedAs q.len origin))
      ((recs (walkMatch t q)).filter (isUnmatchedLen q.len))).1 := by
    simp [validate, ho]
  rw [hst]
  refine ⟨hv.1.trans hM, ?_, ?_⟩
  · rw [hv.2.1]
    constructor
    · rintro ⟨h1, h2⟩
      exact ⟨(hU h1).mp h2, fun h => (hM.mpr h) h1⟩
    · rintro ⟨h1, h2⟩
      have hnil : (recs (walkMatch t q)).filter (isMatched q.len origin) = [] := by
        apply Classical.byContradiction
        intro hne
        exact h2 (hM.mp hne)
      exact ⟨hnil, (hU hnil).mpr h1⟩
  · rw [hv.2.2]
    constructor
    · rintro ⟨h1, h2, h3⟩ hc
      rcases (hU h1).mpr hc with h | h
      · exact h h2
      · exact h h3
    · intro hn
      have hnil : (recs (walkMatch t q)).filter (isMatched q.len origin) = [] := by
        apply Classical.byContradiction
        intro hne
        obtain ⟨x, hc, _⟩ := hM.mp hne
        exact hn ⟨x, hc⟩
      refine ⟨hnil, ?_, ?_⟩
      · apply Classical.byContradiction
        intro h; exact hn ((hU hnil).mp (Or.inl h))
      · apply Classical.byContradiction
        intro h; exact hn ((hU hnil).mp (Or.inr h))

example : (validate [(⟨4, 8, 10⟩, [⟨24, 100, 0⟩])] ⟨4, 16, 2561⟩ 65500 [⟨2, [300, 100]⟩]).status = .valid := by
  decide
example : originAS 65500 [⟨2, [300, 100]⟩] = some 100 := by decide

/-- the three ROA lists of the answer partition the covering records -/
theorem validate_lists (t : Table) (q : Prefix) (localAS : Nat) (segs : List Seg) (origin : Nat)
    (ho : originAS localAS segs = some origin) (x : Rec) :
    (x ∈ (validate t q localAS segs).matched ↔ Covering t q x ∧ Matches q origin x) ∧
    (x ∈ (validate t q localAS segs).unmatchedAs ↔
        Covering t q x ∧ q.len ≤ x.2.maxLen ∧ ¬ (x.2.as = origin ∧ x.2.as ≠ 0)) ∧
    (x ∈ (validate t q localAS segs).unmatchedLen ↔ Covering t q x ∧ x.2.maxLen < q.len) := by
  simp only [validate, ho, List.mem_filter, mem_recs_walkMatch, Covering, Matches, isMatched,
    isUnmatchedAs, isUnmatchedLen, Bool.and_eq_true, decide_eq_true_eq, bne_iff_ne, beq_iff_eq,
    Bool.and_eq_false_iff, decide_eq_false_iff_not, Bool.not_eq_eq_eq_not,
    Bool.not_true]
  refine ⟨?_, ?_, ?_⟩
  · constructor
    · rintro ⟨hc, h1, h2, h3⟩; exact ⟨hc, h3, h2, h1⟩
    · rintro ⟨hc, h1, h2, h3⟩; exact ⟨hc, h3, h2, h1⟩
  · constructor
    · rintro ⟨hc, h1, h2⟩
      refine ⟨hc, h1, ?_⟩
      rintro ⟨h3, h4⟩
      rcases h2 with h2 | h2
      · simp_all
      · simp_all
    · rintro ⟨hc, h1, h2⟩
      refine ⟨hc, h1, ?_⟩
      by_cases h0 : x.2.as = 0
      · left; simp [h0]
      · right
        have : ¬ x.2.as = origin := fun h => h2 ⟨h, h0⟩
        simp [this]
  · constructor
    · rintro ⟨hc, h⟩; exact ⟨hc, by omega⟩
    · rintro ⟨hc, h⟩; exact ⟨hc, by omega⟩

/-- the reason of an Invalid: `as` when some covering record would admit the length -/
theorem validate_reason (t : Table) (q : Prefix) (localAS : Nat) (segs : List Seg) :
    ((validate t q localAS segs).reason = .as ↔
      (validate t q localAS segs).matched = [] ∧ (validate t q localAS segs).unmatchedAs ≠ []) ∧
    ((validate t q localAS segs).reason = .length ↔
      (validate t q localAS segs).matched = [] ∧ (validate t q localAS segs).unmatchedAs = [] ∧
      (validate t q localAS segs).unmatchedLen ≠ []) := by
  unfold validate
  split
  · simp
  · exact verdict_reason _ _ _

/-- a path ending in an AS_SET (or an unknown segment type) is NotFound with empty lists -/
theorem as_set_not_found (t : Table) (q : Prefix) (localAS : Nat) (pre : List Seg) (as : List Nat)
    (typ : Nat) (h2 : typ ≠ 2) (h3 : typ ≠ 3) (h4 : typ ≠ 4) :
    validate t q localAS (pre ++ [⟨typ, as⟩]) = ⟨.notFound, .none, [], [], []⟩ := by
  have : originAS localAS (pre ++ [⟨typ, as⟩]) = none := by
    simp [originAS, h2, h3, h4]
  simp [validate, this]

/-- origin AS = last AS of a path ending in a non-empty AS_SEQUENCE -/
theorem origin_seq (localAS : Nat) (pre : List Seg) (as : List Nat) (a : Nat) :
    originAS localAS (pre ++ [⟨2, as ++ [a]⟩]) = some a := by
  simp [originAS]

/-- origin AS = local AS for the empty path … -/
theorem origin_empty (localAS : Nat) : originAS localAS [] = some localAS := rfl

/-- … and for a path made of confederation segments only -/
theorem origin_confed_only (localAS : Nat) (segs : List Seg)
    (h : ∀ s ∈ segs, s.typ = 3 ∨ s.typ = 4) : originAS localAS segs = some localAS := by
  unfold originAS
  cases hl : segs.getLast? with
  | none => rfl
  | some s =>
    have hs : s ∈ segs := List.mem_of_getLast? hl
    rcases h s hs with h3 | h4
    · simp [h3]
    · simp [h4]

example : originAS 65500 [⟨3, [65001]⟩, ⟨4, [65002]⟩] = some 65500 := by decide

/-- **Policy conditions see the same verdict**: RpkiValidationCondition.Evaluate holds exactly
    when its configured result is the status Validate returns; a nil validation (withdraw, EOR,
    family without ROA tree) matches no condition. -/
theorem policy_sees_same (want : Status) (t : Table) (q : Prefix) (localAS : Nat) (segs : List Seg) :
    (condEval want (some (validate t q localAS segs)) = true ↔
      want = (validate t q localAS segs).status) ∧ condEval want none = false := by
  simp [condEval]

/-- **… for the route as it is when the condition is evaluated.**  In a chain of statements
    (all policies of one ApplyPolicy call) a statement with an rpki condition `w` matches exactly
    when `w` is the status `validate` gives the AS_PATH as the earlier matching statements have
    left it; the rest of the chain runs on the AS_PATH this statement leaves. -/
theorem chain_condition_sees_current_route (t : Table) (q : Prefix) (localAS : Nat) (confed : Bool)
    (segs : List Seg) (s : Stmt) (rest : List Stmt) (w : Status) (hc : s.cond = some w) :
    chainEval t q localAS confed segs (s :: rest) =
      if w = (validate t q localAS segs).status then
        (if s.disp ≠ 0 then ([true], s.modify confed segs, s.disp)
         else (true :: (chainEval t q localAS confed (s.modify confed segs) rest).1,
               (chainEval t q localAS confed (s.modify confed segs) rest).2))
      else (false :: (chainEval t q localAS confed segs rest).1,
            (chainEval t q localAS confed segs rest).2) := by
  simp only [chainEval, Stmt.hit, hc, condEval, decide_eq_true_eq]

/-- what makes the difference: prepending to an empty AS_PATH (non-confederation peer) moves the
    origin from the local AS to the prepended AS … -/
theorem origin_after_prepend_empty (localAS asn rep : Nat) :
    originAS localAS (prependAsn [] asn (rep + 1) false) = some asn := by
  have h : ∀ n, (List.replicate n asn).getLast?.getD asn = asn := by
    intro n
    induction n with
    | zero => rfl
    | succ n ih => simp [List.replicate_succ, List.getLast?_cons, ih]
  simp [prependAsn, originAS, List.replicate_succ, List.getLast?_cons, h]

/-- … so a later condition may flip: the chain of the seeded defect, on the model -/
example : chainEval [(⟨4, 24, 657920⟩, [⟨24, 65100, 0⟩])] ⟨4, 24, 657920⟩ 65500 false []
    [⟨some .invalid, 1, 65100, 1, 0⟩, ⟨some .valid, 0, 0, 0, 1⟩, ⟨none, 0, 0, 0, 2⟩] =
    ([true, true], [⟨2, [65100]⟩], 1) := by decide

/-! ## The table is the set of announced-and-not-withdrawn records -/

/-- **Add / Delete / DeleteAll are set operations** on the records of a well-formed table
    (one bucket per prefix, no duplicates), and keep it well formed — whatever the bucket
    order, the dedupe-on-(maxLen, AS, src), and the empty buckets Delete leaves behind. -/
theorem table_is_set (t : Table) (wf : WF t) (p : Prefix) (r : Roa) (s : Nat) (x : Rec) :
    (x ∈ recs (add t p r) ↔ x = (p, r) ∨ x ∈ recs t) ∧
    (x ∈ recs (delete t p r) ↔ x ∈ recs t ∧ x ≠ (p, r)) ∧
    (x ∈ recs (deleteAll t s) ↔ x ∈ recs t ∧ x.2.src ≠ s) ∧
    WF (add t p r) ∧ WF (delete t p r) ∧ WF (deleteAll t s) :=
  ⟨mem_recs_add t p r x, mem_recs_delete t p r x wf, mem_recs_deleteAll t s x,
    wf_add t p r wf, wf_delete t p r wf, wf_deleteAll t s wf⟩

/-- **Every reported figure is a recount of that set.**  On a well-formed table the listing
    (ROATable.List / ListRpkiTable) has no duplicates; the `records` figure of ROATable.Info
    (GetServers / ListRpki RecordsV4/V6) is the number of listed records of that family and
    source; the `prefixes` figure (PrefixesV4/V6) is the length of a duplicate-free list holding
    exactly the prefixes under which the source has a record — however the entries of several
    sources interleave inside a bucket. -/
theorem info_is_recount (t : Table) (wf : WF t) (fam src : Nat) :
    (recs t).Nodup ∧
    infoRecords t fam src = ((recs t).filter fun x => x.1.fam == fam && x.2.src == src).length ∧
    infoPrefixes t fam src = (infoPrefixList t fam src).length ∧
    (infoPrefixList t fam src).Nodup ∧
    ∀ p, p ∈ infoPrefixList t fam src ↔ p.fam = fam ∧ ∃ r, (p, r) ∈ recs t ∧ r.src = src :=
  ⟨recs_nodup t wf, rfl, rfl, infoPrefixList_nodup t fam src wf, mem_infoPrefixList t fam src⟩

/-- two caches with interleaving entries under one prefix: one prefix each -/
example : let t := add (add (add [] ⟨4, 16, 2560⟩ ⟨16, 100, 0⟩) ⟨4, 16, 2560⟩ ⟨24, 100, 0⟩) ⟨4, 16, 2560⟩ ⟨20, 100, 1⟩
    infoPrefixes t 4 0 = 1 ∧ infoPrefixes t 4 1 = 1 ∧ infoRecords t 4 0 = 2 := by decide

example : WF (add (add [] ⟨4, 8, 10⟩ ⟨24, 100, 0⟩) ⟨4, 8, 10⟩ ⟨24, 100, 1⟩) :=
  wf_add _ _ _ (wf_add _ _ _ wf_nil)

/-- the PDUs of a complete response -/
def response (sid sn : Nat) (ds : List Delta) : List Pdu :=
  [.cacheResponse sid] ++ ds.map Delta.pdu ++ [.endOfData sid sn]

/-- common core: after Cache Response · deltas · End of Data the table holds
    (the old records, unless purged) with the deltas applied in order -/
theorem response_effect (t : Table) (c : Client) (sid sn : Nat) (ds : List Delta) (wf : WF t)
    (hp : c.pending = []) :
    let purge := c.session ≠ sid ∨ c.answered.2 = true
    let base := if purge then recs (deleteAll t c.host) else recs t
    let r := feed t c (response sid sn ds)
    (purge → ∀ d ∈ ds, d.announce = true) →
    (∀ x, x ∈ recs r.1 ↔ x ∈ ds.foldl (applyDelta c.host) base) ∧ WF r.1 ∧
      r.2.session = sid ∧ r.2.serial = sn ∧ r.2.endOfData = true ∧ r.2.pending = [] ∧
      r.2.queries = c.answered.1.queries := by
  intro purge base r hann
  have hr : r = feed t c (response sid sn ds) := rfl
  unfold response at hr
  rw [feed_append, feed_append] at hr
  have h1 : feed t c [.cacheResponse sid] = (t, { c with endOfData := false }) := rfl
  rw [h1] at hr
  simp only at hr
  obtain ⟨hmem, hwf, hhost, hsess, hq, heod⟩ :=
    feed_deltas ds t { c with endOfData := false } (recs t) rfl wf (by simp [hp])
  generalize hfd : feed t { c with endOfData := false } (ds.map Delta.pdu) = fd at hr hmem hwf hhost hsess hq heod
  obtain ⟨t2, c2⟩ := fd
  simp only at hmem hwf hhost hsess hq heod
  have hlast : r = ((handleRTR t2 c2 (.endOfData sid sn)).1, (handleRTR t2 c2 (.endOfData sid sn)).2.1) := by
    rw [hr]; rfl
  have hans : c2.answered.2 = c.answered.2 ∧ c2.answered.1.queries = c.answered.1.queries := by
    have hq2 := hq
    cases hcq : c.queries with
    | nil => rw [hcq] at hq2; simp [Client.answered, hq2, hcq]
    | cons q0 qs0 => rw [hcq] at hq2; simp [Client.answered, hq2, hcq]
  have hT : r.1 = addAll (if c2.session ≠ sid ∨ c2.answered.2 = true then deleteAll t2 c2.host else t2)
      c2.pending := by rw [hlast]; rfl
  have hC : r.2 = ({ c2.answered.1 with session := sid, serial := sn, endOfData := true, timer := false, pending := [] } : Client) := by
    rw [hlast]; rfl
  have hWF : WF r.1 := by
    rw [hT]
    apply wf_addAll
    split
    · exact wf_deleteAll _ _ hwf
    · exact hwf
  have hCl : r.2.session = sid ∧ r.2.serial = sn ∧ r.2.endOfData = true ∧ r.2.pending = [] ∧
      r.2.queries = c.answered.1.queries := by
    rw [hC]; exact ⟨rfl, rfl, rfl, rfl, hans.2⟩
  by_cases hpg : purge
  · -- full replacement: only announcements, so the table was untouched up to End of Data
    have hall := hann hpg
    have ht2 : t2 = t ∧ ∀ x, x ∈ c2.pending ↔ x ∈ ds.foldl (applyDelta c.host) [] := by
      clear hlast hr hmem hans
      have : ∀ (ds : List Delta) (cc : Client) (S : List Rec), cc.endOfData = false →
          (∀ d ∈ ds, d.announce = true) → (∀ x, x ∈ S ↔ x ∈ cc.pending) →
          (feed t cc (ds.map Delta.pdu)).1 = t ∧
            ∀ x, x ∈ (feed t cc (ds.map Delta.pdu)).2.pending ↔ x ∈ ds.foldl (applyDelta cc.host) S := by
        intro ds
        induction ds with
        | nil => intro cc S _ _ hS; exact ⟨rfl, fun x => (hS x).symm⟩
        | cons d ds ih =>
          intro cc S he ha hS
          have hd : d.announce = true := ha d List.mem_cons_self
          have e : handleRTR t cc d.pdu = (t, { cc with pending := cc.pending ++ [d.toRec cc.host] }, []) := by
            simp [Delta.pdu, handleRTR, hd, he, Delta.toRec]
          simp only [List.map_cons, feed_cons, List.foldl_cons, e]
          exact ih { cc with pending := cc.pending ++ [d.toRec cc.host] } (applyDelta cc.host S d) he
            (fun d' hd' => ha d' (List.mem_cons_of_mem _ hd'))
            (by
              intro x
              simp only [applyDelta, hd, ↓reduceIte, List.mem_cons, List.mem_append, hS]
              by_cases h1 : x = d.toRec cc.host <;> by_cases h2 : x ∈ cc.pending <;> simp [h1, h2])
      have := this ds { c with endOfData := false } [] rfl hall (by simp [hp])
      rw [hfd] at this
      exact this
    obtain ⟨rfl, hpend⟩ := ht2
    have hbase : base = recs (deleteAll t2 c.host) := by simp [base, hpg]
    have hpg2 : c2.session ≠ sid ∨ c2.answered.2 = true := by
      rw [hsess, hans.1]; exact hpg
    have hfold : ∀ (ds : List Delta) (S B : List Rec) (h : Nat), (∀ d ∈ ds, d.announce = true) →
        ∀ x, x ∈ ds.foldl (applyDelta h) (S ++ B) ↔ x ∈ ds.foldl (applyDelta h) S ∨ x ∈ B := by
      intro ds
      induction ds with
      | nil => intro S B h _ x; simp
      | cons d ds ih =>
        intro S B h ha x
        have hd : d.announce = true := ha d List.mem_cons_self
        simp only [List.foldl_cons, applyDelta, hd, ↓reduceIte]
        rw [← List.cons_append]
        exact ih _ B h (fun d' hd' => ha d' (List.mem_cons_of_mem _ hd')) x
    refine ⟨?_, hWF, hCl⟩
    intro x
    rw [hT]
    simp only [hpg2, ↓reduceIte, mem_recs_addAll, hhost, hpend, hbase]
    have := hfold ds [] (recs (deleteAll t2 c.host)) c.host hall x
    simp only [List.nil_append] at this
    rw [this]
  · have hbase : base = recs t := by simp [base, hpg]
    have hpg2 : ¬ (c2.session ≠ sid ∨ c2.answered.2 = true) := by
      rw [hsess, hans.1]; exact hpg
    refine ⟨?_, hWF, hCl⟩
    intro x
    rw [hT]
    simp only [hpg2, ↓reduceIte, mem_recs_addAll, hbase]
    exact (hmem x).symm

/-- **The answer to a Reset Query replaces the cache's records.** Whatever the table held:
    when the oldest outstanding query of client `c` is a Reset Query, after
    Cache Response · announcements · End of Data the table holds, for this cache, exactly the
    announced records, and for every other cache exactly what it held before. -/
theorem reset_reply_replaces (t : Table) (c : Client) (qs : List Bool) (sid sn : Nat)
    (anns : List (Prefix × Nat × Nat)) (wf : WF t)
    (hq : c.queries = true :: qs) (hp : c.pending = []) (x : Rec) :
    let ds := anns.map fun a => (⟨true, a.1, a.2.1, a.2.2⟩ : Delta)
    let r := feed t c (response sid sn ds)
    (x ∈ recs r.1 ↔ (∃ a ∈ anns, x = (a.1, ⟨a.2.1, a.2.2, c.host⟩)) ∨ (x ∈ recs t ∧ x.2.src ≠ c.host)) ∧
      r.2.queries = qs := by
  intro ds r
  have hans : c.answered = ({ c with queries := qs }, true) := by
    unfold Client.answered; rw [hq]
  have hall : ∀ d ∈ ds, d.announce = true := by
    intro d hd
    simp only [ds, List.mem_map] at hd
    obtain ⟨a, _, rfl⟩ := hd
    rfl
  obtain ⟨hmem, _, _, _, _, _, hqs⟩ := response_effect t c sid sn ds wf hp (fun _ => hall)
  refine ⟨?_, by rw [hqs, hans]⟩
  rw [hmem x]
  simp only [hans, or_true, ↓reduceIte]
  have hfold : ∀ (l : List (Prefix × Nat × Nat)) (S : List Rec),
      x ∈ (l.map fun a => (⟨true, a.1, a.2.1, a.2.2⟩ : Delta)).foldl (applyDelta c.host) S ↔
        (∃ a ∈ l, x = (a.1, ⟨a.2.1, a.2.2, c.host⟩)) ∨ x ∈ S := by
    intro l
    induction l with
    | nil => intro S; simp
    | cons a l ih =>
      intro S
      simp only [List.map_cons, List.foldl_cons, applyDelta, ↓reduceIte, ih, List.mem_cons,
        Delta.toRec, exists_eq_or_imp]
      constructor
      · rintro (h | h | h)
        · exact Or.inl (Or.inr h)
        · exact Or.inl (Or.inl h)
        · exact Or.inr h
      · rintro ((h | h) | h)
        · exact Or.inr (Or.inl h)
        · exact Or.inl h
        · exact Or.inr (Or.inr h)
  rw [hfold anns, mem_recs_deleteAll]

example : ∃ c : Client, c.queries = true :: [] ∧ c.pending = [] := ⟨{ host := 0, queries := [true] }, rfl, rfl⟩

/-- **The answer to a Serial Query applies the deltas in order.** When the oldest outstanding
    query is a Serial Query (or none is outstanding) and the session id is unchanged, after
    Cache Response · announcements and withdrawals · End of Data the table holds exactly the
    records it held before with every delta applied in order — duplicates, withdrawals of
    unknown records and announce-then-withdraw included. -/
theorem serial_reply_applies (t : Table) (c : Client) (sid sn : Nat) (ds : List Delta) (wf : WF t)
    (hq : c.queries = [] ∨ ∃ qs, c.queries = false :: qs) (hs : c.session = sid)
    (hp : c.pending = []) (x : Rec) :
    x ∈ recs (feed t c (response sid sn ds)).1 ↔ x ∈ ds.foldl (applyDelta c.host) (recs t) := by
  have hans : c.answered.2 = false := by
    unfold Client.answered
    rcases hq with h | ⟨qs, h⟩ <;> rw [h]
  have hnp : ¬ (c.session ≠ sid ∨ c.answered.2 = true) := by simp [hs, hans]
  obtain ⟨hmem, _⟩ := response_effect t c sid sn ds wf hp (fun h => absurd h hnp)
  rw [hmem x]
  simp [hnp]

example : (feed [] { host := 7, endOfData := true } (response 0 1 [⟨true, ⟨4, 8, 10⟩, 8, 100⟩,
    ⟨false, ⟨4, 8, 10⟩, 8, 100⟩])).1 = [] := by decide

/-- **Purges.** Disable / Reset, SoftReset, DeleteServer and the timeout event of the lifetime
    timer that is still running (armed as generation `c.timerGen`, not stopped since; session
    unchanged since the disconnect) remove exactly the records of that cache. -/
theorem purge_exact (m : Mgr) (h : Nat) (c : Client) (hc : findClient m.clients h = some c) (x : Rec) :
    (x ∈ recs (step m (.disable h)).1.table ↔ x ∈ recs m.table ∧ x.2.src ≠ h) ∧
    (x ∈ recs (step m (.softReset h)).1.table ↔ x ∈ recs m.table ∧ x.2.src ≠ h) ∧
    (x ∈ recs (step m (.deleteServer h)).1.table ↔ x ∈ recs m.table ∧ x.2.src ≠ h) ∧
    (c.oldSession = c.session → c.timer = true →
      (x ∈ recs (step m (.lifetime h c.timerGen)).1.table ↔ x ∈ recs m.table ∧ x.2.src ≠ h)) := by
  refine ⟨?_, ?_, ?_, ?_⟩
  · simp only [step, hc]; exact mem_recs_deleteAll _ _ _
  · simp only [step, hc]; exact mem_recs_deleteAll _ _ _
  · simp only [step, hc]; exact mem_recs_deleteAll _ _ _
  · intro he ht
    simp only [step, hc, he, ht, ne_eq, not_true_eq_false, Bool.true_eq_false, or_self, ↓reduceIte]
    exact mem_recs_deleteAll _ _ _

/-! ### Late timeout events

  The timer callback posts its event on the manager's channel; the event may be handled long
  after the timer fired.  `StaleGen m h g`: generation `g` has been issued and no client named
  `h` has the timer of generation `g` running. -/

/-- **A stale timeout event removes nothing — now or after any further history.** -/
theorem stale_timeout_removes_nothing (m : Mgr) (h g : Nat) (hs : StaleGen m h g) (evs : List Ev) :
    step (run m evs) (.lifetime h g) = (run m evs, true, []) :=
  stale_lifetime_noop _ h g (stale_run m evs h g hs)

/-- End of Data stops the timer: every timeout event issued so far for that cache is stale from
    then on (the race: the timer fired, its event waits in the channel while End of Data of the
    new synchronisation is handled — same or different session id). -/
theorem timeout_after_end_of_data (m : Mgr) (h g sid sn : Nat) (c : Client)
    (hc : findClient m.clients h = some c) (hg : g ≤ m.timerSeq) (evs : List Ev) :
    step (run (step m (.rtr h (.endOfData sid sn))).1 evs) (.lifetime h g) =
      (run (step m (.rtr h (.endOfData sid sn))).1 evs, true, []) := by
  apply stale_timeout_removes_nothing
  simp only [step, hc]
  refine ⟨hg, ?_⟩
  intro y hy hyh
  left
  have hh : (handleRTR m.table c (.endOfData sid sn)).2.1.host = h := by
    rw [handleRTR_host]; exact (findClient_some hc).2
  rw [mem_setClient_host hy (by rw [hh]; exact hyh)]
  rfl

/-- re-arming (a disconnect when no timer is pending) takes a fresh generation: every timeout
    event issued before is stale from then on -/
theorem timeout_after_rearm (m : Mgr) (h g : Nat) (c : Client)
    (hc : findClient m.clients h = some c) (ht : c.timer = false) (hg : g ≤ m.timerSeq)
    (evs : List Ev) :
    step (run (step m (.disconnected h)).1 evs) (.lifetime h g) =
      (run (step m (.disconnected h)).1 evs, true, []) := by
  apply stale_timeout_removes_nothing
  simp only [step, hc, ht]
  refine ⟨by simp; omega, ?_⟩
  intro y hy hyh
  right
  rw [mem_setClient_host hy (by simp only; rw [(findClient_some hc).2]; exact hyh)]
  simp
  omega

/-- DeleteServer: timeout events of the deleted client are stale for whoever is configured
    under that name later -/
theorem timeout_after_delete_server (m : Mgr) (h g : Nat) (hg : g ≤ m.timerSeq) (evs : List Ev) :
    step (run (step m (.deleteServer h)).1 evs) (.lifetime h g) =
      (run (step m (.deleteServer h)).1 evs, true, []) := by
  apply stale_timeout_removes_nothing
  simp only [step]
  split
  · rename_i hf
    refine ⟨hg, ?_⟩
    intro y hy hyh
    exfalso
    have : findClient m.clients h = some y ∨ ∃ z, findClient m.clients h = some z := by
      right
      unfold findClient
      cases hfz : m.clients.find? (fun c => c.host == h) with
      | some z => exact ⟨z, rfl⟩
      | none =>
        rw [List.find?_eq_none] at hfz
        exact absurd (by simpa using hyh) (hfz y hy)
    rcases this with h1 | ⟨z, h1⟩ <;> simp [h1] at hf
  · refine ⟨hg, ?_⟩
    intro y hy hyh
    have := (List.mem_filter.mp hy).2
    simp [hyh] at this

/-- the interleaving reported for the unrepaired code, on the model: disconnect, reconnect, the
    timer (generation 1) fires, End of Data of the new synchronisation with the SAME session id
    is handled, then the waiting event — the table keeps the fresh records -/
example : (run {} [.addServer 1, .connected 1, .rtr 1 (.cacheResponse 5),
    .rtr 1 (.prefix true ⟨4, 8, 10⟩ 8 100), .rtr 1 (.endOfData 5 9),
    .connClosed 1, .disconnected 1, .connected 1, .rtr 1 (.cacheResponse 5),
    .rtr 1 (.prefix true ⟨4, 8, 10⟩ 8 100), .rtr 1 (.endOfData 5 9),
    .lifetime 1 1]).table = [(⟨4, 8, 10⟩, [⟨8, 100, 1⟩])] := by decide

/-- … while the same event handled BEFORE End of Data is a legitimate expiry and purges -/
example : (run {} [.addServer 1, .connected 1, .rtr 1 (.cacheResponse 5),
    .rtr 1 (.prefix true ⟨4, 8, 10⟩ 8 100), .rtr 1 (.endOfData 5 9),
    .connClosed 1, .disconnected 1, .connected 1, .lifetime 1 1]).table = [] := by decide

/-- events of one cache never touch the records of another -/
theorem others_untouched (t : Table) (c : Client) (pdu : Pdu) (wf : WF t)
    (hp : ∀ x ∈ c.pending, x.2.src = c.host) (x : Rec) (hx : x.2.src ≠ c.host) :
    x ∈ recs (handleRTR t c pdu).1 ↔ x ∈ recs t := by
  cases pdu with
  | serialNotify sid sn =>
    simp only [handleRTR]
    split
    · rfl
    · split <;> rfl
  | cacheResponse sid => rfl
  | «prefix» ann p ml as =>
    simp only [handleRTR]
    split
    · split
      · rw [mem_recs_add]
        constructor
        · rintro (h | h)
          · exact absurd (by rw [h]) hx
          · exact h
        · exact Or.inr
      · rfl
    · rw [mem_recs_delete _ _ _ _ wf]
      constructor
      · exact fun h => h.1
      · exact fun h => ⟨h, fun e => hx (by rw [e])⟩
  | endOfData sid sn =>
    simp only [handleRTR, mem_recs_addAll]
    constructor
    · rintro (h | h)
      · exact absurd (hp x h) hx
      · split at h
        · exact ((mem_recs_deleteAll _ _ _).mp h).1
        · exact h
    · intro h
      right
      split
      · exact (mem_recs_deleteAll _ _ _).mpr ⟨h, hx⟩
      · exact h
  | cacheReset => rfl
  | errorReport => rfl
  | other => rfl

/-- **After any history** of API calls, connection events, timer expiries and PDUs (well formed
    or not, from any number of caches) the table is well formed and holds only records whose
    source is a currently configured cache. -/
theorem history_invariant (evs : List Ev) :
    WF (run {} evs).table ∧
      ∀ x ∈ recs (run {} evs).table, x.2.src ∈ (run {} evs).clients.map (·.host) :=
  ⟨(inv_run {} evs inv_empty).wf, (inv_run {} evs inv_empty).src⟩

example : (run {} [.addServer 1, .connected 1, .rtr 1 (.cacheResponse 5),
    .rtr 1 (.prefix true ⟨4, 8, 10⟩ 8 100), .rtr 1 (.endOfData 5 9), .deleteServer 1]).table = [] := by
  decide

/-! ## Serial-number arithmetic (RFC 1982 on 32 bits) -/

theorem serial_irrefl (a : Nat) : before a a = false := by
  simp only [before, decide_eq_false_iff_not]; omega

/-- `before` is asymmetric except at the antipode, where it holds both ways -/
theorem serial_asymm (a b : Nat) (ha : a < 4294967296) (hb : b < 4294967296) :
    (before a b = true ∧ before b a = true) ↔ (a + 2147483648) % 4294967296 = b := by
  simp only [before, decide_eq_true_eq]; omega

/-- a serial is before its next 2^31 - 1 successors, wrap-around included -/
theorem serial_succ (a k : Nat) (ha : a < 4294967296) (hk : 0 < k) (hk2 : k < 2147483648) :
    before a ((a + k) % 4294967296) = true ∧ before ((a + k) % 4294967296) a = false := by
  simp only [before, decide_eq_true_eq, decide_eq_false_iff_not]; omega

/-- the three branches of the Serial Notify handler are exhaustive and, off the antipode,
    exclusive: newer → Serial Query, equal → nothing, otherwise the notified serial is older -/
theorem serial_trichotomy (cur n : Nat) (hc : cur < 4294967296) (hn : n < 4294967296) :
    before cur n = true ∨ cur = n ∨ before n cur = true := by
  simp only [before, decide_eq_true_eq]; omega

example : before 4294967295 0 = true ∧ before 0 4294967295 = false := by decide

end C16
