/-
C13 — compiled community matchers decide exactly what their regular expressions decide.

Objects (all in Model/): `Regex.parse` / `Regex.search` = the regular-expression fragment and Go's
`regexp.MatchString` on it (validated against Go's regexp by the correspondence run, stream "rx");
`CommMatch.compile`, `matchFast`, `buildIdx`, `matchesAny`, `evaluate`, `CSet.edit`, `compileExt`,
`matchExt`, `evaluateExt` = hand-written mirrors of internal/pkg/table/policy.go on branch wt-C13
(with the four `fix:` commits), tied to the code by the correspondence run (streams "cm/xm", "ev/…").

WHAT IS PROVED, for ALL pattern strings of the fragment, all community values, all lists, options and
edit sequences:
  * `search_spec`          the executable matcher = the declarative semantics `Match`
  * `compile_sound`        standard communities, EVERY compiled mode (exact / fixed-AS wildcard /
                           fixed-AS bitmap / wildcard-AS bitmap / regexp): the compiled matcher = the
                           regular expression on the canonical text
  * `index_sound`          the any/invert index = the pattern loop over the compiled matchers
  * `evaluate_eq_regex`    CommunityCondition.Evaluate = the reference loop over the regexps
  * `refEval_any/_all/_invert`  what that reference loop means
  * `edit_equiv`, `evaluate_after_edits`   the compiled form after any edit sequence is the
                           compilation of the edited list, and still decides what the regexps decide
  * `compileExt_sound`, `evaluateExt_eq_regex`   extended communities, EVERY compiled mode (exact /
                           AS-only / AS bitmap / local bitmap / regexp), every kind of extended community
WHAT IS NOT PROVED (only sampled by the correspondence run and the Go-side oracle):
  * patterns outside the fragment (`parse s ≠ ok`): the theorems carry the hypothesis `parse s = ok r`
    (`InFragment` for lists);
  * large communities have no compiled form: `LargeCommunityCondition.Evaluate` IS `refEval`.
-/
import Model.CommMatch
import Lemmas.C13Full
namespace C13
open Regex CommMatch

/-- the executable regexp matcher decides the declarative semantics: some substring matches -/
theorem search_spec (r : R) (t : List Nat) :
    search r t = true ↔ ∃ i j, i ≤ t.length ∧ Match t r i j := search_iff

/-- **compile_sound** (standard communities). For every pattern source `s` of the fragment
(`parse s = ok r`), at any list position `i`, whatever mode it compiles to, the compiled matcher
decides exactly what the regular expression decides on the canonical text `AS:local`
of every community value `c`. -/
theorem compile_sound (s : Str) (i : Nat) (pats : List Str) (r : R) (c : Nat)
    (hp : parse s = .ok r) (hi : pats[i]? = some s) :
    matchFast (compile s i) pats c = search r (render c) :=
  compile_sound_full s i pats r c hp hi

-- hypotheses are satisfiable: `^100:(5|6)$` compiles to the fixed-AS bitmap mode (2)
example : ∃ r, parse [94, 49, 48, 48, 58, 40, 53, 124, 54, 41, 36] = .ok r ∧
    (compile [94, 49, 48, 48, 58, 40, 53, 124, 54, 41, 36] 0).mode = 2 := ⟨_, rfl, rfl⟩
-- `^100:200$` → exact (0);  `^100:.*$` → fixed-AS wildcard (1);  `100:` → regexp (4)
example : (compile [94, 49, 48, 48, 58, 50, 48, 48, 36] 0).mode = 0 := rfl
example : (compile [94, 49, 48, 48, 58, 46, 42, 36] 0).mode = 1 := rfl
example : (compile [49, 48, 48, 58] 0).mode = 4 := rfl
-- `^\d+:(5|7)$` → wildcard-AS bitmap (3)
example : (compile [94, 92, 100, 43, 58, 40, 53, 124, 55, 41, 36] 0).mode = 3 := rfl
-- the near misses of the unfixed code all stay in regexp mode: `^0100:200$`, `^100:?5`, `^100:5:\d+$`
example : (compile [94, 48, 49, 48, 48, 58, 50, 48, 48, 36] 0).mode = 4 := rfl
example : (compile [94, 49, 48, 48, 58, 63, 53] 0).mode = 4 := rfl
example : (compile [94, 49, 48, 48, 58, 53, 58, 92, 100, 43, 36] 0).mode = 2 := rfl

/-- **index_sound**: when no matcher is in regexp mode, the OR-index answers what the loop over the
compiled matchers answers -/
theorem index_sound (ms : List CM) (pats : List Str) (cs : List Nat)
    (hre : (buildIdx ms).hasRegexp = false) :
    matchesAny (buildIdx ms) cs = cs.any (fun c => ms.any (fun m => matchFast m pats c)) :=
  matchesAny_buildIdx' ms pats cs hre

example : (buildIdx (compileFrom 0 [[94, 49, 48, 48, 58, 46, 42, 36]])).hasRegexp = false := rfl

/-- `InFragment list`: every pattern of the list is in the fragment and compiles (Go accepted it) -/
example : InFragment [[94, 49, 48, 48, 58, 46, 42, 36], [49, 48, 48, 58], [94, 92, 100, 43, 58, 40, 53, 124, 55, 41, 36]] := by
  intro s hs
  simp only [List.mem_cons, List.not_mem_nil, or_false] at hs
  rcases hs with rfl | rfl | rfl <;> exact ⟨_, rfl⟩

/-- **evaluate_eq_regex**: `CommunityCondition.Evaluate` on a route with communities `cs` equals the
reference loop over the regular expressions on the canonical texts, for ANY (0), ALL (1), INVERT (2) -/
theorem evaluate_eq_regex (opt : Nat) (list : List Str) (cs : List Nat) (hs : InFragment list) :
    evaluate opt (CSet.build list) cs = refEval opt list (cs.map render) := by
  rw [evaluate_eq_loop' opt list cs]
  unfold refEval
  congr 1
  exact loop_compile_full opt list cs list [] false rfl hs

/-- the reference under ANY: some pattern matches some community -/
theorem refEval_any (list texts : List Str) :
    refEval 0 list texts = list.any (fun p => texts.any (fun t => reMatch p t)) := by
  simp [refEval, finish, evalLoop_any 0 (by decide)]

/-- the reference under INVERT: no pattern matches any community -/
theorem refEval_invert (list texts : List Str) :
    refEval 2 list texts = !(list.any (fun p => texts.any (fun t => reMatch p t))) := by
  simp [refEval, finish, evalLoop_any 2 (by decide)]

/-- the reference under ALL: the list is not empty and every pattern matches some community -/
theorem refEval_all (list texts : List Str) :
    refEval 1 list texts = (!list.isEmpty && list.all (fun p => texts.any (fun t => reMatch p t))) := by
  simp [refEval, finish, evalLoop_all]

/-- **edit_equiv**: after any sequence of Append / Remove / Replace the compiled form is the
compilation of the edited pattern list -/
theorem edit_equiv (l0 : List Str) (es : List Edit) :
    es.foldl CSet.edit (CSet.build l0) = CSet.build (es.foldl editList l0) := by
  induction es generalizing l0 with
  | nil => rfl
  | cons e es ih =>
    simp only [List.foldl_cons]
    have : (CSet.build l0).edit e = CSet.build (editList l0 e) := rfl
    rw [this, ih]

/-- … and therefore still decides what the regular expressions of the edited list decide -/
theorem evaluate_after_edits (opt : Nat) (l0 : List Str) (es : List Edit) (cs : List Nat)
    (hs : InFragment (es.foldl editList l0)) :
    evaluate opt (es.foldl CSet.edit (CSet.build l0)) cs =
      refEval opt (es.foldl editList l0) (cs.map render) := by
  rw [edit_equiv, evaluate_eq_regex opt _ cs hs]

example : InFragment ([Edit.append [[49, 48, 48, 58]], Edit.remove [[94, 49, 48, 48, 58, 46, 42, 36]]].foldl editList
    [[94, 49, 48, 48, 58, 46, 42, 36]]) := by
  intro s hs
  have : s = [49, 48, 48, 58] := by simpa [editList] using hs
  subst this
  exact ⟨_, rfl⟩

/-! ## extended communities -/

/-- **compileExt_sound**. `ECWF x` says: if `x` is not two-octet-AS-specific, its text does not start
with `<digits>:` (true of every kind gobgp renders; checked by the harness on every generated one). -/
theorem compileExt_sound (sub : Nat) (s : Str) (r : R) (x : EC)
    (hp : parse s = .ok r) (hx : ECWF x) :
    matchExt (compileExt sub s) x = (x.sub == sub && search r x.text) :=
  compileExt_sound_full sub s r x hp hx

-- `^100:70000$` → exact (0) with a 32-bit local-admin; `^100:\d+$` → AS-only (1)
example : (compileExt 2 [94, 49, 48, 48, 58, 55, 48, 48, 48, 48, 36]).mode = 0 := rfl
example : (compileExt 2 [94, 49, 48, 48, 58, 92, 100, 43, 36]).mode = 1 := rfl
-- `^100:(5|7)$` → AS bitmap (2); `^\d+:(5|7)$` → local bitmap (3)
example : (compileExt 2 [94, 49, 48, 48, 58, 40, 53, 124, 55, 41, 36]).mode = 2 := rfl
example : (compileExt 2 [94, 92, 100, 43, 58, 40, 53, 124, 55, 41, 36]).mode = 3 := rfl
example : ECWF (.other 2 true [49, 46, 50, 58, 51]) := by
  intro A u h hd
  cases A with
  | nil => simp at h
  | cons a A =>
    simp only [List.cons_append, List.cons.injEq] at h
    cases A with
    | nil => simp at h
    | cons b A =>
      simp only [List.cons_append, List.cons.injEq] at h
      obtain ⟨rfl, rfl, _⟩ := h
      simp [isDigit] at hd

/-- **evaluateExt_eq_regex**: `ExtCommunityCondition.Evaluate` (index fast path included) equals the
reference: for each pattern, some TRANSITIVE extended community of the pattern's sub-type whose text
the regular expression matches; combined under ANY / ALL / INVERT by the same loop -/
theorem evaluateExt_eq_regex (opt : Nat) (list : List (Nat × Str)) (es : List EC)
    (hs : InFragmentX list) (hes : ∀ x ∈ es, ECWF x) :
    evaluateExt opt (XSet.build list) es = refEvalExt opt list es := by
  rw [evaluateExt_eq_loop opt list es]
  unfold refEvalExt
  congr 1
  exact loop_compileExt_full opt es hes list false hs

end C13
