/-
  C03 — best path follows the documented decision process, whatever the arrival order.

  Property theorems only; helper lemmas live in Lemmas/.  `BestPath.better`, `insertSort`,
  `calcStep` mirror internal/pkg/table/destination.go and are tied to it on every run by the
  correspondence check (go/overlay/internal/pkg/table/zz_verif_c03_test.go).
-/
import Lemmas.BestPathHist
import Lemmas.Multipath
namespace C03
open BestPath Lex

/-- The predicate handed to sort.Search IS the lexicographic comparison of the documented
    preference key (`BestPath.key`), for every pair of well-formed candidates and every
    option setting. -/
theorem better_is_documented_order (o : Opts) (a b : Cand) (wf : PairWF o a b) :
    better o a b = lexLe (key o a) (key o b) := better_eq_lex o a b wf

/-- hence it is total … -/
theorem better_total (o : Opts) (a b : Cand) (w1 : PairWF o a b) (w2 : PairWF o b a) :
    better o a b = true ∨ better o b a = true := BestPath.better_total o a b w1 w2

/-- … and transitive on every set whose MEDs are comparable: a total preorder, which is what
    binary insertion needs. -/
theorem better_trans (o : Opts) (a b c : Cand) (wab : PairWF o a b) (wbc : PairWF o b c)
    (wac : PairWF o a c) (h1 : better o a b = true) (h2 : better o b c = true) :
    better o a c = true := BestPath.better_trans o a b c wab wbc wac h1 h2

/-- After ANY history of announcements, implicit replacements and withdrawals the path list
    is sorted best-first, holds one entry per (source, path-id), and is a permutation of the
    latest un-withdrawn candidate per (source, path-id). -/
theorem history_sorted_and_exact (o : Opts) (ops : List Op) (wf : SetWF o (opCands ops)) :
    Sorted o (run o ops) ∧ NodupKey (run o ops) ∧ (run o ops).Perm (spec ops) :=
  run_inv o ops wf

/-- two candidates with the same key come from the same neighbour address -/
theorem key_addr (o : Opts) (a b : Cand) (h : key o a = key o b) : a.src.addr = b.src.addr := by
  simp only [key, List.cons.injEq] at h
  have := h.2.2.2.2.2.2.2.2.2.2.1
  cases ha : a.src.addr <;> cases hb : b.src.addr <;> simp [ha, hb] at this ⊢ <;> omega

/-- **Order independence.** Two histories that end with the same live candidate set, taken
    from distinct sources (pairwise different neighbour addresses), MED comparable throughout,
    produce the same list — in particular the same best path and the same multipath prefix. -/
theorem C03_order_independent (o : Opts) (ops1 ops2 : List Op)
    (wf : SetWF o (opCands ops1 ++ opCands ops2))
    (distinct : (spec ops1).Pairwise (fun a b => a.src.addr ≠ b.src.addr))
    (same : (spec ops1).Perm (spec ops2)) :
    run o ops1 = run o ops2 := by
  have wf1 : SetWF o (opCands ops1) := wf.sub (fun x hx => List.mem_append_left _ hx)
  have wf2 : SetWF o (opCands ops2) := wf.sub (fun x hx => List.mem_append_right _ hx)
  obtain ⟨s1, _, p1⟩ := run_inv o ops1 wf1
  obtain ⟨s2, _, p2⟩ := run_inv o ops2 wf2
  have hperm : (run o ops1).Perm (run o ops2) := p1.trans (same.trans p2.symm)
  -- every installed candidate was announced by some op
  have sub1 : ∀ c ∈ spec ops1, c ∈ opCands ops1 := by
    have : ∀ (ops : List Op) (S : List Cand) (U : List Cand), (∀ c ∈ S, c ∈ U) →
        (∀ c ∈ opCands ops, c ∈ U) → ∀ c ∈ ops.foldl specStep S, c ∈ U := by
      intro ops
      induction ops with
      | nil => intro S U hS _ c hc; exact hS c hc
      | cons op rest ih =>
        intro S U hS hops c hc
        simp only [List.foldl_cons] at hc
        refine ih _ U ?_ ?_ c hc
        · intro y hy
          cases op with
          | ann d =>
            simp only [specStep, List.mem_cons] at hy
            rcases hy with rfl | hy
            · apply hops; simp [opCands, Op.cands]
            · exact hS y (List.mem_filter.mp hy).1
          | wd d =>
            simp only [specStep] at hy
            exact hS y (List.mem_filter.mp hy).1
        · intro y hy; apply hops
          simp only [opCands, List.flatMap_cons, List.mem_append]; right; exact hy
    exact this ops1 [] _ (by simp) (fun c hc => hc)
  apply List.Perm.eq_of_pairwise (le := fun a b => better o a b = true) _ s1 s2 hperm
  intro a b ha hb hab hba
  have ha1 : a ∈ spec ops1 := p1.subset ha
  have hb1 : b ∈ spec ops1 := (same.symm.subset (p2.subset hb))
  have wab : PairWF o a b := wf a (List.mem_append_left _ (sub1 a ha1)) b
    (List.mem_append_left _ (sub1 b hb1))
  have wba : PairWF o b a := wf b (List.mem_append_left _ (sub1 b hb1)) a
    (List.mem_append_left _ (sub1 a ha1))
  rw [better_eq_lex o a b wab] at hab
  rw [better_eq_lex o b a wba] at hba
  have hk := lexLe_antisymm _ _ (by simp [key_length]) hab hba
  have haddr := key_addr o a b hk
  -- distinct sources: equal addresses force a = b
  by_cases e : a = b
  · exact e
  · exfalso
    rcases List.mem_iff_append.mp ha1 with ⟨l1, l2, hl⟩
    rw [hl] at hb1 distinct
    rw [List.pairwise_append] at distinct
    rcases List.mem_append.mp hb1 with hb' | hb'
    · exact distinct.2.2 b hb' a List.mem_cons_self haddr.symm
    · rw [List.mem_cons] at hb'
      rcases hb' with rfl | hb'
      · exact e rfl
      · exact (List.pairwise_cons.mp distinct.2.1).1 b hb' haddr

/-- **The best path is the documented one**: the head of the list is minimal for the
    documented key among all live candidates. -/
theorem best_is_documented (o : Opts) (ops : List Op) (wf : SetWF o (opCands ops))
    (best : Cand) (rest : List Cand) (h : run o ops = best :: rest) :
    ∀ c ∈ spec ops, lexLe (key o best) (key o c) = true := by
  obtain ⟨s, _, p⟩ := run_inv o ops wf
  intro c hc
  have hc' : c ∈ run o ops := p.symm.subset hc
  rw [h] at hc' s
  rw [List.mem_cons] at hc'
  rcases hc' with rfl | hc'
  · exact lexLe_refl _
  · have hb := (List.pairwise_cons.mp s).1 c hc'
    have hbU : best ∈ run o ops := by rw [h]; exact List.mem_cons_self
    have hcU : c ∈ run o ops := by rw [h]; exact List.mem_cons_of_mem _ hc'
    -- both were announced
    have sub : ∀ x ∈ run o ops, x ∈ opCands ops := by
      have : ∀ (ops : List Op) (l U : List Cand), (∀ c ∈ l, c ∈ U) →
          (∀ c ∈ opCands ops, c ∈ U) → ∀ c ∈ ops.foldl (calcStep o) l, c ∈ U := by
        intro ops
        induction ops with
        | nil => intro l U hl _ c hc; exact hl c hc
        | cons op rest ih =>
          intro l U hl hops c hc
          simp only [List.foldl_cons] at hc
          refine ih _ U ?_ ?_ c hc
          · intro y hy
            cases op with
            | ann d =>
              simp only [calcStep] at hy
              have := (insertSort_perm o _ d).subset hy
              rw [List.mem_cons] at this
              rcases this with rfl | hy'
              · apply hops; simp [opCands, Op.cands]
              · apply hl
                clear hy hc
                induction l with
                | nil => simp [implicitWithdraw] at hy'
                | cons z zs ihz =>
                  unfold implicitWithdraw at hy'
                  split at hy'
                  · exact List.mem_cons_of_mem _ hy'
                  · rw [List.mem_cons] at hy'
                    rcases hy' with rfl | hy'
                    · exact List.mem_cons_self
                    · exact List.mem_cons_of_mem _ (ihz (fun c hc => hl c (List.mem_cons_of_mem _ hc)) hy')
            | wd d =>
              simp only [calcStep] at hy
              apply hl
              clear hc
              induction l with
              | nil => simp [explicitWithdraw] at hy
              | cons z zs ihz =>
                unfold explicitWithdraw at hy
                split at hy
                · exact List.mem_cons_of_mem _ hy
                · rw [List.mem_cons] at hy
                  rcases hy with rfl | hy
                  · exact List.mem_cons_self
                  · exact List.mem_cons_of_mem _ (ihz (fun c hc => hl c (List.mem_cons_of_mem _ hc)) hy)
          · intro y hy; apply hops
            simp only [opCands, List.flatMap_cons, List.mem_append]; right; exact hy
      exact this ops [] _ (by simp) (fun c hc => hc)
    rw [better_eq_lex o best c (wf _ (sub _ hbU) _ (sub _ hcU))] at hb
    exact hb

/-! ### non-vacuity: concrete candidates satisfy the hypotheses and the comparators decide -/

def ebgp (id as rid addr lp med ts : Nat) : Cand :=
  { id := id, src := { as := as, localAS := 65000, rid := rid, localRid := 1, addr := some addr,
                       confed := false },
    pathId := 0, stale := false, nhInvalid := false, localPref := some lp,
    segs := [⟨2, [as, 100]⟩], origin := some 0, med := some med, ts := ts }

def o0 : Opts := ⟨true, false, false⟩

example : PairWF o0 (ebgp 1 65001 10 101 100 5 7) (ebgp 2 65002 11 102 100 5 3) :=
  ⟨by decide, by decide, by decide, by decide⟩

/-- the older eBGP route wins the tie, in both arrival orders -/
example : (run o0 [.ann (ebgp 1 65001 10 101 100 5 7), .ann (ebgp 2 65002 11 102 100 5 3)]).map (·.id)
    = [2, 1] := by decide
example : (run o0 [.ann (ebgp 2 65002 11 102 100 5 3), .ann (ebgp 1 65001 10 101 100 5 7)]).map (·.id)
    = [2, 1] := by decide

/-! ### the equal-cost multipath set -/

theorem mem_takeWhile_holds {α : Type} (p : α → Bool) : ∀ (l : List α) (y : α),
    y ∈ l.takeWhile p → p y = true := by
  intro l
  induction l with
  | nil => intro y hy; cases hy
  | cons x xs ih =>
    intro y hy
    simp only [List.takeWhile_cons] at hy
    cases hx : p x
    · simp [hx] at hy
    · simp only [hx, if_true, List.mem_cons] at hy
      rcases hy with rfl | hy
      · exact hx
      · exact ih y hy

/-- **multipath_spec.** With a reachable best path the multipath set is the best path followed by
    the LONGEST run of paths that are reachable, as LLGR-stale as the best path and equal to it
    under `Path.Compare`: it is a prefix of the sorted list, every member qualifies, and the
    first path left out (if any) does not. With an unreachable best path it is empty. -/
theorem multipath_spec (best : Cand) (rest : List Cand) (h : best.nhInvalid = false) :
    ∃ tail, multipath (best :: rest) = best :: (multipath (best :: rest)).tail ∧
      multipath (best :: rest) ++ tail = best :: rest ∧
      (∀ y ∈ (multipath (best :: rest)).tail, equalCost best y = true) ∧
      (∀ y, tail.head? = some y → equalCost best y = false) := by
  refine ⟨rest.dropWhile (equalCost best), ?_, ?_, ?_, ?_⟩
  · simp [multipath, h]
  · simp [multipath, h, List.takeWhile_append_dropWhile]
  · intro y hy
    simp only [multipath, h, Bool.false_eq_true, if_false, List.tail_cons] at hy
    exact mem_takeWhile_holds _ _ _ hy
  · intro y hy
    cases hd : rest.dropWhile (equalCost best) with
    | nil => rw [hd] at hy; cases hy
    | cons z zs =>
      rw [hd] at hy
      simp only [List.head?_cons, Option.some.injEq] at hy
      subst hy
      have := List.head_dropWhile_not (equalCost best) (l := rest) (by rw [hd]; simp)
      simpa [hd] using this

theorem multipath_unreachable (best : Cand) (rest : List Cand) (h : best.nhInvalid = true) :
    multipath (best :: rest) = [] := by simp [multipath, h]

/-- what "equal cost" means step by step: a member of the multipath set ties with the best path
    on local origination, iBGP-ness, LOCAL_PREF, AS_PATH length, ORIGIN and MED -/
theorem multipath_members_tie (best y : Cand) (h : equalCost best y = true) :
    y.nhInvalid = false ∧ y.stale = best.stale ∧ y.isLocal = best.isLocal ∧ y.isIBGP = best.isIBGP ∧
      y.getLocalPref = best.getLocalPref ∧ asPathLen y = asPathLen best ∧
      y.origin.getD 0 = best.origin.getD 0 ∧ y.getMed = best.getMed := by
  simp only [equalCost, Bool.and_eq_true, Bool.not_eq_eq_eq_not, Bool.not_true, beq_iff_eq] at h
  obtain ⟨⟨h1, h2⟩, h3⟩ := h
  refine ⟨h1, h2, ?_⟩
  unfold pathCompare at h3
  cases hl1 : y.isLocal <;> cases hl2 : best.isLocal <;> cases hi1 : y.isIBGP <;> cases hi2 : best.isIBGP <;>
    simp [hl1, hl2, hi1, hi2] at h3 ⊢ <;>
    (by_cases a1 : y.getLocalPref = best.getLocalPref
     · by_cases a2 : asPathLen y = asPathLen best
       · by_cases a3 : y.origin.getD 0 = best.origin.getD 0
         · simp [a1, a2, a3] at h3 ⊢; omega
         · simp [a1, a2, a3] at h3; omega
       · simp [a1, a2] at h3; omega
     · simp [a1] at h3; omega)

/-- **multipath_complete (partial).** With the default AS_PATH-length handling, MED comparable
    across the candidates and no confederation members, a list sorted by the decision process
    has ALL paths that are equal-cost with the best path at its head: every one of them is in
    the multipath set (nothing equal-cost hides behind a worse path). Missing for the full
    statement: under `ignore-as-path-length`, with non-comparable MEDs or with confederation
    members `Path.Compare` looks at fields the sort order skips, and an equal-cost path CAN sit
    behind a path that differs only there (second `example` below). -/
theorem multipath_complete_partial (o : Opts) (best : Cand) (rest : List Cand)
    (ho : o.ignoreAsPathLen = false) (hb : best.nhInvalid = false)
    (wf : SetWF o (best :: rest)) (hs : Sorted o (best :: rest))
    (hc : ∀ c ∈ best :: rest, c.src.confed = false) :
    ∀ y ∈ rest, equalCost best y = true → y ∈ multipath (best :: rest) :=
  BestPath.multipath_complete_partial o best rest ho hb wf hs hc

/-- non-vacuity: three equal-cost eBGP paths and a worse one, sorted by age -/
example : (multipath (run o0 [.ann (ebgp 1 65001 10 101 100 5 7), .ann (ebgp 2 65001 11 102 100 5 3),
    .ann (ebgp 3 65001 12 103 90 5 1), .ann (ebgp 4 65001 13 104 100 5 9)])).map (·.id) = [2, 1, 4] := by decide
/-- what the hypotheses exclude: with ignore-as-path-length the older path 2 (longer AS_PATH,
    not equal under Compare) sorts between the equal-cost paths 1 and 3, and 3 is left out -/
example : (multipath (run ⟨true, true, false⟩ [.ann (ebgp 1 65001 10 101 100 5 1),
    .ann { (ebgp 2 65001 11 102 100 5 2) with segs := [⟨2, [65001, 100, 200]⟩] },
    .ann (ebgp 3 65001 12 103 100 5 3)])).map (·.id) = [1] := by decide

/-- the pinned tree located the end of the run with a binary search over a predicate that is not
    monotone along the sorted list (LLGR-stale paths sort last whatever their attributes, and
    `Path.Compare` ignores staleness): a reachable history whose multipath set contained a path
    with a LOWER LOCAL_PREF than the best path, and two LLGR-stale ones. Fixed (`fix:` commit
    "the multipath set is the run of equal-cost paths at the head of the list"). -/
def mpc (id addr lp : Nat) (stale : Bool) : Cand :=
  { (ebgp id 65001 addr addr lp 5 (1000 + id)) with stale := stale }
def mpHist : List Op :=
  [.ann (mpc 1 1 200 false), .ann (mpc 2 2 100 false), .ann (mpc 3 3 200 true), .ann (mpc 4 4 200 true),
   .ann (mpc 5 5 100 true)]
theorem multipathOld_counterexample :
    (run o0 mpHist).map (·.id) = [1, 2, 3, 4, 5] ∧
    (multipathOld (run o0 mpHist)).map (·.id) = [1, 2, 3, 4] ∧
    (multipath (run o0 mpHist)).map (·.id) = [1] := by decide

example : equalCost (mpc 1 1 200 false) (mpc 6 6 200 false) = true := by decide

end C03
