import Lemmas.PackSize
/-!
# C11 — UPDATE packing preserves the route changes and respects the message size limit

All theorems are about `Model/Pack.lean`, the hand-written mirror of
`table.CreateUpdateMsgFromPaths` (with packerV4, packerMP, their splitting arithmetic and the
`last` map), of the serialised sizes of the emitted UPDATEs and of `sendMessageloop`'s
"serialise, or log and skip". The model is tied to the Go code by the correspondence run of
`./check C11` (real packer output, real serialised sizes vs. `Pack.pack` / `Pack.size` on the
same generated inputs); that tie is sampled, not proved.

Vocabulary: `pack o is` = the messages the packer returns for the path list `is` under the
marshalling options `o`; `wire o is` = those of them that serialise within the limit (what is
written to the peer); `dropped o is` = those that do not (what `send()` logs and skips);
`applyMsgs` = a receiver applying UPDATEs in order to its table (`View`); `applyCs` = applying
route changes one at a time; `changes is` = the route changes of the input in order;
`fitsAlone o c` = the UPDATE carrying the change `c` alone is within the limit.

Go iterates its family map and its cage maps in random order, so the theorems quantify over every
permutation `ms` of the model's message list.
-/
namespace C11
open Pack

/-- **pack_effect** (no size limit involved): whatever order the packed messages are emitted in,
    a receiver that applies them ends with exactly the table it would have after applying the
    input changes one at a time — the last action per (family, prefix, path-id on the wire)
    wins and every announced prefix has its own route's attributes and next hop. -/
theorem pack_effect (o : Opts) (is : List Item) (ms : List Msg) (v : View)
    (hp : ms.Perm (pack o is)) :
    applyMsgs o ms v = applyCs o (changes is) v := by
  rw [applyMsgs_eq, ← applyCs_dedup]
  have h1 : (ms.flatMap flat).Perm (changes (dedup o is)) :=
    (hp.flatMap_right flat).trans (flat_pack o is)
  have hn : ((ms.flatMap flat).map (wkey o)).Nodup :=
    (h1.map (wkey o)).nodup_iff.mpr (dedup_nodup_wkey o is)
  exact applyCs_perm o _ _ v h1 hn

/-- **pack_fits**: a packed message either fits the session's limit or carries a single route
    whose own single-route encoding does not fit (hypothesis `SizesOK`: IPv4 prefixes are at most
    /32 and the MP_REACH next-hop length the constructor declares covers what is serialised). -/
theorem pack_fits (o : Opts) (is : List Item) (hs : SizesOK is) (m : Msg) (hm : m ∈ pack o is) :
    size o m ≤ limit o ∨ ∃ c, flat m = [c] ∧ m = aloneMsg c ∧ fitsAlone o c = false := by
  obtain ⟨hok, h⟩ := pack_good o is hs m hm
  by_cases hf : size o m ≤ limit o
  · exact Or.inl hf
  · right
    have hl : (flat m).length = 1 := h.resolve_left hf
    obtain ⟨c, hc⟩ := List.length_eq_one_iff.mp hl
    have he := single_alone m hok c hc
    refine ⟨c, hc, he, ?_⟩
    unfold fitsAlone fits
    rw [← he]
    simp [hf]

/-- everything that is written to the peer is within the limit (by construction of `wire`) -/
theorem wire_fits (o : Opts) (is : List Item) (m : Msg) (hm : m ∈ wire o is) : size o m ≤ limit o := by
  have := (List.mem_filter.mp hm).2
  simpa [fits] using this

theorem filter_flat (o : Opts) : ∀ (ms : List Msg),
    (∀ m ∈ ms, (fits o m = true → ∀ c ∈ flat m, fitsAlone o c = true) ∧
               (fits o m = false → ∀ c ∈ flat m, fitsAlone o c = false)) →
    (ms.filter (fits o)).flatMap flat = (ms.flatMap flat).filter (fitsAlone o) := by
  intro ms
  induction ms with
  | nil => intro _; rfl
  | cons m r ih =>
    intro h
    have hm := h m List.mem_cons_self
    have ih' := ih (fun x hx => h x (List.mem_cons_of_mem _ hx))
    rw [List.flatMap_cons, List.filter_append, ← ih']
    cases hf : fits o m with
    | true =>
      rw [List.filter_cons_of_pos hf, List.flatMap_cons]
      congr 1
      exact (List.filter_eq_self.mpr (hm.1 hf)).symm
    | false =>
      rw [List.filter_cons_of_neg (by simp [hf])]
      have : (flat m).filter (fitsAlone o) = [] := by
        rw [List.filter_eq_nil_iff]
        intro c hc; simp [hm.2 hf c hc]
      rw [this, List.nil_append]

theorem fits_iff_alone (o : Opts) (is : List Item) (hs : SizesOK is) (m : Msg) (hm : m ∈ pack o is) :
    (fits o m = true → ∀ c ∈ flat m, fitsAlone o c = true) ∧
    (fits o m = false → ∀ c ∈ flat m, fitsAlone o c = false) := by
  obtain ⟨hok, _⟩ := pack_good o is hs m hm
  constructor
  · intro hf c hc
    have h1 := alone_le o m hok c hc
    unfold fits at hf
    simp only [decide_eq_true_eq] at hf
    unfold fitsAlone fits
    simp only [decide_eq_true_eq]
    omega
  · intro hf c hc
    rcases pack_fits o is hs m hm with h | ⟨d, hd, _, hfa⟩
    · unfold fits at hf; simp [h] at hf
    · rw [hd] at hc
      simp only [List.mem_singleton] at hc
      rw [hc]; exact hfa

/-- **wire_effect / oversize_skipped**: the messages actually written (any emission order) have
    exactly the effect of the last action per key of every route whose single-route encoding
    fits; the routes that cannot fit are left out and nothing else is disturbed. -/
theorem wire_effect (o : Opts) (is : List Item) (hs : SizesOK is) (ms : List Msg) (v : View)
    (hp : ms.Perm (wire o is)) :
    applyMsgs o ms v = applyCs o ((changes (dedup o is)).filter (fitsAlone o)) v := by
  rw [applyMsgs_eq]
  have h0 : ((wire o is).flatMap flat) = ((pack o is).flatMap flat).filter (fitsAlone o) :=
    filter_flat o (pack o is) (fun m hm => fits_iff_alone o is hs m hm)
  have h1 : (ms.flatMap flat).Perm ((changes (dedup o is)).filter (fitsAlone o)) := by
    refine (hp.flatMap_right flat).trans ?_
    rw [h0]
    exact (flat_pack o is).filter _
  have hn0 : (((changes (dedup o is)).filter (fitsAlone o)).map (wkey o)).Nodup := by
    have := dedup_nodup_wkey o is
    rw [List.Nodup, List.pairwise_map] at this ⊢
    exact this.sublist (List.filter_sublist)
  have hn : ((ms.flatMap flat).map (wkey o)).Nodup := (h1.map (wkey o)).nodup_iff.mpr hn0
  exact applyCs_perm o _ _ v h1 hn

/-- **the property's equivalence claim**: when every input route's single-route encoding fits,
    every written message fits the limit (`wire_fits`) and the receiver ends with exactly the
    effect of applying the changes one at a time. -/
theorem wire_effect_all_fit (o : Opts) (is : List Item) (hs : SizesOK is)
    (hfit : ∀ c ∈ changes is, fitsAlone o c = true) (ms : List Msg) (v : View)
    (hp : ms.Perm (wire o is)) :
    applyMsgs o ms v = applyCs o (changes is) v := by
  rw [wire_effect o is hs ms v hp, ← applyCs_dedup o is v]
  congr 1
  rw [List.filter_eq_self]
  intro c hc
  obtain ⟨p, hp', e⟩ := mem_changes.mp hc
  exact hfit c (mem_changes.mpr ⟨p, dedup_sub o hp', e⟩)

/-- **oversize_reported**: what `send()` logs and skips is, route for route, exactly the set of
    last actions whose single-route encoding exceeds the limit, one route per skipped message. -/
theorem oversize_reported (o : Opts) (is : List Item) (hs : SizesOK is) :
    ((dropped o is).flatMap flat).Perm ((changes (dedup o is)).filter (fun c => !fitsAlone o c)) ∧
    ∀ m ∈ dropped o is, ∃ c, flat m = [c] ∧ m = aloneMsg c := by
  constructor
  · have h0 : ((dropped o is).flatMap flat) = ((pack o is).flatMap flat).filter (fun c => !fitsAlone o c) := by
      unfold dropped
      have := fun m hm => fits_iff_alone o is hs m hm
      generalize pack o is = ms at this
      induction ms with
      | nil => rfl
      | cons m r ih =>
        have hm := this m List.mem_cons_self
        have ih' := ih (fun x hx => this x (List.mem_cons_of_mem _ hx))
        rw [List.flatMap_cons, List.filter_append, ← ih']
        cases hf : fits o m with
        | true =>
          rw [List.filter_cons_of_neg (by simp [hf])]
          have : (flat m).filter (fun c => !fitsAlone o c) = [] := by
            rw [List.filter_eq_nil_iff]
            intro c hc; simp [hm.1 hf c hc]
          rw [this, List.nil_append]
        | false =>
          rw [List.filter_cons_of_pos (by simp [hf]), List.flatMap_cons]
          congr 1
          refine (List.filter_eq_self.mpr ?_).symm
          intro c hc; simp [hm.2 hf c hc]
    rw [h0]
    exact (flat_pack o is).filter _
  · intro m hm
    obtain ⟨hin, hf⟩ := List.mem_filter.mp hm
    rcases pack_fits o is hs m hin with h | ⟨c, hc, he, _⟩
    · simp [fits, h] at hf
    · exact ⟨c, hc, he⟩

/-- **pack_groups_only_equal**: the routes that share a message have the same family, the same
    attribute set and the same next hop, and each of them is an input route (its own last
    action) — a route never rides on another route's attributes. -/
theorem pack_groups_only_equal (o : Opts) (is : List Item) (m : Msg) (hm : m ∈ pack o is)
    (c : Change) (hc : c ∈ flat m) :
    c ∈ changes is ∧ ∀ d ∈ flat m, d.fam = c.fam ∧ d.act = c.act := by
  constructor
  · have : c ∈ (pack o is).flatMap flat := List.mem_flatMap.mpr ⟨m, hm, hc⟩
    have := (flat_pack o is).mem_iff.mp this
    obtain ⟨p, hp, e⟩ := mem_changes.mp this
    exact mem_changes.mpr ⟨p, dedup_sub o hp, e⟩
  · intro d hd
    cases m with
    | wd4 ns | ann4 a nh ns | unreach f ns | reach f a nh ns =>
      simp only [flat, List.mem_map] at hc hd
      obtain ⟨n, _, e⟩ := hc; obtain ⟨n', _, e'⟩ := hd
      subst e; subst e'; exact ⟨rfl, rfl⟩
    | eor f => simp [flat] at hc

/-- End-of-RIB messages carry no route -/
theorem flat_eor (f : Nat) : flat (Msg.eor f) = [] := rfl

theorem eor_mem_packFam (o : Opts) (f g : Nat) (xs : List Item) :
    Msg.eor g ∈ packFam o f xs ↔ (g = f ∧ xs.any isEor = true) := by
  unfold packFam
  split
  · unfold packV4 eorMsg
    simp only [List.mem_append, List.mem_map, List.mem_flatMap]
    constructor
    · rintro (((⟨_, _, h⟩ | ⟨_, _, _, _, h⟩) | ⟨_, _, h⟩) | h)
      · cases h
      · cases h
      · cases h
      · split at h
        · simp only [List.mem_singleton, Msg.eor.injEq] at h; rename_i h0 he; exact ⟨h.trans h0.symm, he⟩
        · cases h
    · rintro ⟨e, he⟩
      right; rw [he]; rename_i h0; simp [e, h0]
  · unfold packMP eorMsg
    simp only [List.mem_append, List.mem_map, List.mem_flatMap]
    constructor
    · rintro ((⟨_, _, h⟩ | ⟨g', _, h⟩) | h)
      · cases h
      · split at h
        · cases h
        · obtain ⟨_, _, h⟩ := List.mem_map.mp h; cases h
      · split at h
        · simp only [List.mem_singleton, Msg.eor.injEq] at h; rename_i he; exact ⟨h, he⟩
        · cases h
    · rintro ⟨e, he⟩
      right; rw [he]; simp [e]

/-- **eor_kept**: an End-of-RIB marker for a family is emitted iff the input contains one -/
theorem eor_kept (o : Opts) (is : List Item) (f : Nat) :
    Msg.eor f ∈ pack o is ↔ Item.eor f ∈ is := by
  unfold pack
  rw [List.mem_flatMap]
  constructor
  · rintro ⟨g, hg, hm⟩
    obtain ⟨e, ha⟩ := (eor_mem_packFam o g.1 f g.2).mp hm
    obtain ⟨_, hk⟩ := groupBy_key _ _ _ g hg
    obtain ⟨i, hi, hie⟩ := List.any_eq_true.mp ha
    cases i with
    | path p => simp [isEor] at hie
    | eor f' =>
      obtain ⟨h1, h2⟩ := hk _ hi
      have : f' = f := by simp only [famOf] at h1; omega
      subst this
      exact (eor_mem_dedup o f' is).mp h2
  · intro h
    have hd := (eor_mem_dedup o f is).mpr h
    -- the bucket of family f exists and contains the marker
    have key : ∀ (fuel : Nat) (l : List Item), l.length ≤ fuel → Item.eor f ∈ l →
        ∃ g ∈ groupBy famOf fuel l, g.1 = f ∧ Item.eor f ∈ g.2 := by
      intro fuel
      induction fuel with
      | zero => intro l hl hm; cases l with
        | nil => cases hm
        | cons _ _ => simp at hl
      | succ k ih =>
        intro l hl hm
        cases l with
        | nil => cases hm
        | cons x xs =>
          simp only [groupBy]
          by_cases hx : famOf x = f
          · refine ⟨_, List.mem_cons_self, hx, ?_⟩
            cases hm with
            | head => exact List.mem_cons_self
            | tail _ hm' =>
              exact List.mem_cons_of_mem _ (List.mem_filter.mpr ⟨hm', decide_eq_true (hx.symm : famOf (Item.eor f) = famOf x)⟩)
          · have hm' : Item.eor f ∈ xs.filter (fun y => !decide (famOf y = famOf x)) := by
              cases hm with
              | head => exact absurd rfl hx
              | tail _ hm' =>
                refine List.mem_filter.mpr ⟨hm', ?_⟩
                simp only [Bool.not_eq_true', decide_eq_false_iff_not]
                exact fun (e : famOf (Item.eor f) = famOf x) => hx e.symm
            have hlen : (xs.filter (fun y => !decide (famOf y = famOf x))).length ≤ k := by
              have := List.length_filter_le (fun y => !decide (famOf y = famOf x)) xs
              simp only [List.length_cons] at hl; omega
            obtain ⟨g, hg, h1, h2⟩ := ih _ hlen hm'
            exact ⟨g, List.mem_cons_of_mem _ hg, h1, h2⟩
    obtain ⟨g, hg, h1, h2⟩ := key _ _ (Nat.le_refl _) hd
    refine ⟨g, hg, (eor_mem_packFam o g.1 f g.2).mpr ⟨h1.symm, ?_⟩⟩
    exact List.any_eq_true.mpr ⟨_, h2, rfl⟩

/-- **eor_last**: within a family the End-of-RIB marker is the last message the packer returns
    (`packFam` is one family's packer; `pack` concatenates the families' outputs) -/
theorem eor_last (o : Opts) (f : Nat) (xs : List Item) :
    ∃ body, packFam o f xs = body ++ eorMsg f (xs.any isEor) ∧ ∀ g, Msg.eor g ∉ body := by
  unfold packFam
  split
  · rename_i h0
    subst h0
    refine ⟨_, rfl, ?_⟩
    intro g hg
    simp only [List.mem_append, List.mem_map, List.mem_flatMap] at hg
    rcases hg with (⟨_, _, h⟩ | ⟨_, _, _, _, h⟩) | ⟨_, _, h⟩ <;> cases h
  · refine ⟨_, rfl, ?_⟩
    intro g hg
    simp only [List.mem_append, List.mem_map, List.mem_flatMap] at hg
    rcases hg with ⟨_, _, h⟩ | ⟨g', _, h⟩
    · cases h
    · split at h
      · cases h
      · obtain ⟨_, _, h⟩ := List.mem_map.mp h; cases h

/-- **dedup_key_matches_wire**: the last-action key (`wireKey` of CreateUpdateMsgFromPaths, which is
    also the receiver's key) contains the local path identifier iff the SEND bit of the family's
    negotiated ADD-PATH mode is set — exactly when the identifier is written on the wire (4 more
    octets per NLRI entry). In particular with mode receive-only (1) two changes of one prefix with
    different local ids have the same key, so only the later one is emitted. -/
theorem dedup_key_matches_wire (o : Opts) (c d : Change) :
    (wkey o c = wkey o d ↔
      c.fam = d.fam ∧ c.n.bits = d.n.bits ∧ c.n.pfx = d.n.pfx ∧ (apSend o c.fam = true → c.n.id = d.n.id)) ∧
    entryLen o c.fam c.n = nlriLen c.fam c.n + (if apSend o c.fam = true then 4 else 0) := by
  refine ⟨?_, by unfold entryLen ap; rfl⟩
  unfold wkey ap
  constructor
  · intro h
    simp only [Prod.mk.injEq] at h
    obtain ⟨h1, h2, h3, h4⟩ := h
    refine ⟨h1, h2, h3, fun hs => ?_⟩
    rw [← h1] at h4
    simpa [hs] using h4
  · rintro ⟨h1, h2, h3, h4⟩
    simp only [Prod.mk.injEq]
    refine ⟨h1, h2, h3, ?_⟩
    rw [← h1]
    cases hs : apSend o c.fam with
    | true => simpa using h4 hs
    | false => simp

/-- the SEND bit for each of the four negotiated modes -/
example : (List.range 4).map (fun m => apSend ⟨false, [(0, m)]⟩ 0) = [false, false, true, true] := by decide

/-- one prefix, local ids 1 then 2, in one batch: with modes none / receive-only only the later
    change is emitted, with send / both each id is its own route -/
def exTwoIds : List Item :=
  [ .path ⟨⟨0, ⟨24, 1, 1⟩, some ⟨⟨1, 30⟩, none⟩⟩, 5, 0⟩,
    .path ⟨⟨0, ⟨24, 1, 2⟩, none⟩, 0, 0⟩ ]

example : (List.range 4).map (fun m => (pack ⟨false, [(0, m)]⟩ exTwoIds).length) = [1, 1, 2, 2] := by decide
example : pack ⟨false, [(0, 1)]⟩ exTwoIds = [Msg.wd4 [⟨24, 1, 2⟩]] := by decide

/-! ### non-vacuity: concrete inputs that satisfy the hypotheses and exercise the branches -/

/-- an announcement with a 4075-octet attribute set (does not fit a 4096-octet session), an
    ordinary one, a replaced one, a withdrawal, an IPv6 route and two EOR markers -/
def exItems : List Item :=
  [ .path ⟨⟨0, ⟨24, 1, 1⟩, some ⟨⟨1, 4075⟩, none⟩⟩, 11, 0⟩,
    .path ⟨⟨0, ⟨24, 2, 1⟩, some ⟨⟨2, 40⟩, none⟩⟩, 12, 0⟩,
    .path ⟨⟨0, ⟨24, 2, 2⟩, some ⟨⟨3, 44⟩, none⟩⟩, 13, 0⟩,
    .eor 0,
    .path ⟨⟨0, ⟨16, 3, 1⟩, none⟩, 0, 0⟩,
    .path ⟨⟨1, ⟨64, 4, 1⟩, some ⟨⟨4, 50⟩, some ⟨1, 16, 16, false⟩⟩⟩, 0, 0⟩,
    .eor 1 ]

def exOpts : Opts := ⟨false, []⟩

example : SizesOK exItems := by
  intro c hc
  simp [exItems, changes, pathOf] at hc
  rcases hc with h | h | h | h | h <;> subst h <;> simp [nhLen, nhCLen]

example : (pack exOpts exItems).length = 6 := by decide
example : (wire exOpts exItems).length = 5 := by decide
example : (dropped exOpts exItems) = [Msg.ann4 ⟨1, 4075⟩ none [⟨24, 1, 1⟩]] := by decide
example : (pack exOpts exItems).Perm (pack exOpts exItems) := List.Perm.refl _
example : Msg.eor 1 ∈ pack exOpts exItems := by decide
/-- the second announcement of prefix 2 (other path id, ADD-PATH off) replaces the first -/
example : Msg.ann4 ⟨3, 44⟩ none [⟨24, 2, 2⟩] ∈ pack exOpts exItems ∧
    Msg.ann4 ⟨2, 40⟩ none [⟨24, 2, 1⟩] ∉ pack exOpts exItems := by decide

/-- IPv4 routes whose IPv4 next hop is carried in MP_REACH_NLRI (no NEXT_HOP attribute): two routes
    of one received UPDATE (same MP_REACH bytes, `grp` 7) share a message with the synthesised
    NEXT_HOP; a third with identical other attributes but another next hop gets its own message;
    an RFC 5549 route (IPv6 next hop) goes out in MP_REACH_NLRI -/
def exMp4 : List Item :=
  [ .path ⟨⟨0, ⟨24, 1, 1⟩, some ⟨⟨1, 30⟩, some ⟨1, 4, 4, true⟩⟩⟩, 5, 7⟩,
    .path ⟨⟨0, ⟨24, 2, 1⟩, some ⟨⟨1, 30⟩, some ⟨1, 4, 4, true⟩⟩⟩, 5, 7⟩,
    .path ⟨⟨0, ⟨24, 3, 1⟩, some ⟨⟨1, 30⟩, some ⟨2, 4, 4, true⟩⟩⟩, 5, 8⟩,
    .path ⟨⟨0, ⟨24, 4, 1⟩, some ⟨⟨1, 30⟩, some ⟨3, 16, 16, false⟩⟩⟩, 5, 9⟩ ]

example : pack exOpts exMp4 =
    [ Msg.ann4 ⟨1, 30⟩ (some ⟨1, 4, 4, true⟩) [⟨24, 1, 1⟩, ⟨24, 2, 1⟩],
      Msg.ann4 ⟨1, 30⟩ (some ⟨2, 4, 4, true⟩) [⟨24, 3, 1⟩],
      Msg.reach 0 ⟨1, 30⟩ (some ⟨3, 16, 16, false⟩) [⟨24, 4, 1⟩] ] := by decide
example : SizesOK exMp4 := by
  intro c hc
  simp [exMp4, changes, pathOf] at hc
  rcases hc with h | h | h | h <;> subst h <;> simp [nhLen, nhCLen]
example : SizesOK (exItems.drop 1) := by
  intro c hc
  simp [exItems, changes, pathOf] at hc
  rcases hc with h | h | h | h <;> subst h <;> simp [nhLen, nhCLen]
/-- all routes of a smaller input fit, so `wire_effect_all_fit` applies to it -/
example : ∀ c ∈ changes (exItems.drop 1), fitsAlone exOpts c = true := by decide

end C11
