import Lemmas.ErrSpec
/-
  C06 — malformed UPDATEs are contained: never installed, answered per RFC 7606 / 4271.

  All theorems are about the ABSTRACT layer Model/ErrHandling.lean (`AMsg` = what the byte decoder
  observed of an UPDATE: attribute observations in wire order, how the attribute loop stopped, NLRI
  result).  The byte layer Model/UpdateWire.lean (bytes → AMsg) carries no theorem: it is tied to
  gobgp only by the correspondence run (real DecodeFromBytes / ValidateUpdateMsg / recvMessageloop
  vs. the model on generated UPDATE bytes), as is the abstract layer itself.  The per-type class
  table and the flag-validity table are compared with the real functions over their WHOLE domain
  (256 types, 256 x 256 type/flag pairs) on every run.
  The model mirrors gobgp WITH the two fix commits of branch wt-C06 (see props/C06.json).
-/
namespace C06
open ErrH

/-! ## vocabulary of the statements -/

/-- AS4_AGGREGATOR without AGGREGATOR (RFC 6793; gobgp: NOTIFICATION 3/1) -/
def aggFault (attrs : List AttrObs) : List MErr :=
  if hasT attrs 18 && !hasT attrs 7 then [MErr.fatal 3 1] else []

/-- ALL faults present in an UPDATE whose length fields and NLRI are sound: decode faults of every
    attribute, framing faults of the attribute field, and the semantic faults (duplicates, bad
    ORIGIN / NEXT_HOP / AS_PATH-vs-peer-type values, unrecognised well-known, family not negotiated,
    missing mandatory, lone AS4_AGGREGATOR) of the attributes that decoded. -/
def allFaults (c : Cfg) (m : AMsg) : List MErr :=
  decodeFaults m ++ (semAll c (good m.items) m.wd m.nlri ++ aggFault (good m.items))

/-- the session's view of a class when RFC 7606 handling is on: AFI/SAFI-disable is not implemented
    and becomes a session reset (`handlingError`) -/
def effR (r : Nat) : Nat := if r = 3 then 4 else r

/-! ## the decoder and the validator each report the STRONGEST fault -/

/-- `BGPUpdate.DecodeFromBytes`: the class returned is the maximum over the decode faults of all
    attributes and of the framing, wherever they sit. -/
theorem C06_decode_strongest (m : AMsg) (hp : m.pre = none) (hn : m.nlriErr = none) :
    rk (decode m).err = maxRk (decodeFaults m) := decode_rk m hp hn

/-- `ValidateUpdateMsg`: the class returned is the maximum over all semantic faults, despite the
    early returns. -/
theorem C06_validate_strongest (c : Cfg) (attrs : List AttrObs) (wd nlri : Nat) :
    rk (validate c attrs wd nlri).1 = maxRk (semAll c attrs wd nlri) := validate_rk c attrs wd nlri

example : ∃ m : AMsg, m.pre = none ∧ m.nlriErr = none ∧ maxRk (decodeFaults m) = 2 :=
  ⟨{ items := [{ typ := 6, flags := 0x40, derr := some (3, 5) }, { typ := 1, flags := 0x40, derr := some (3, 1) }] },
   rfl, rfl, by decide⟩

/-! ## rfc7606_table -/

/-- weakest class RFC 7606 (section 7) / RFC 6793 allow for a malformed attribute of each type
    (1 discard, 2 treat-as-withdraw, 3 AFI/SAFI disable or reset); 0 = RFC silent -/
def rfcClass (t : Nat) : Nat :=
  match t with
  | 1 => 2 | 2 => 2 | 3 => 2 | 4 => 2 | 5 => 2 | 6 => 1 | 7 => 1 | 8 => 2 | 9 => 2 | 10 => 2
  | 14 => 3 | 15 => 3 | 16 => 2 | 17 => 1 | 18 => 1 | 25 => 2 | 32 => 2
  | _ => 0

set_option maxRecDepth 8000 in
/-- the class table of gobgp is never weaker than the RFCs, equal on the RFC 7606 section 7 list
    (types 1-10, 14-16), and never `none` -/
theorem rfc7606_table :
    (∀ t, t < 256 → rfcClass t ≤ (attrClass t).rank) ∧
    (∀ t, t < 256 → (t ≤ 10 ∨ (14 ≤ t ∧ t ≤ 16)) → 0 < t → rfcClass t = (attrClass t).rank) ∧
    (∀ t, t < 256 → 1 ≤ (attrClass t).rank) := by
  refine ⟨?_, ?_, ?_⟩ <;> decide

/-! ## C06_strongest -/

/- Full statement (FALSE for gobgp, see the counterexample):
     ∀ c m, c.revised → m.pre = none → m.nlriErr = none →
       (sessionAction c m).rank = effR (maxRk (allFaults c m))
   recvMessageloop does not validate after a treat-as-withdraw class decode error, so a
   session-reset class semantic fault in the same UPDATE is not seen.  (known finding) -/

theorem C06_strongest_counterexample :
    ∃ (c : Cfg) (m : AMsg), c.revised = true ∧ m.pre = none ∧ m.nlriErr = none ∧
      (sessionAction c m).rank = 2 ∧ effR (maxRk (allFaults c m)) = 4 :=
  ⟨⟨true, true, false, false, true, true⟩,
   { items := [{ typ := 1, flags := 0x40 }, { typ := 2, flags := 0x40, segs := [2] },
               { typ := 3, flags := 0x40, derr := some (3, 5) }, { typ := 99, flags := 0x40 }],
     nlri := 1 },
   rfl, rfl, rfl, by decide, by decide⟩

/-- With RFC 7606 handling enabled, sound length fields and NLRI, and a decode class other than
    treat-as-withdraw: the session's reaction is EXACTLY the strongest class among all faults
    present in the UPDATE (install = 0, attribute discard = 1, treat-as-withdraw = 2, reset = 4). -/
theorem C06_strongest_partial (c : Cfg) (m : AMsg) (hr : c.revised = true)
    (hp : m.pre = none) (hn : m.nlriErr = none) (hmask : maxRk (decodeFaults m) ≠ 2) :
    (sessionAction c m).rank = effR (maxRk (allFaults c m)) := by
  rw [session_rank c hr m]
  unfold sessionRankSpec
  have hD := decode_rk m hp hn
  obtain ⟨hwd, hnl⟩ := decode_wd_nlri m hp hn
  simp only [hD, hwd, hnl]
  unfold allFaults
  rw [maxRk_append, maxRk_append]
  have hS4 := maxRk_le_four (semAll c (good m.items) m.wd m.nlri)
  have hD4 := maxRk_le_four (decodeFaults m)
  have hA : maxRk (aggFault (good m.items)) = if (hasT (good m.items) 18 && !hasT (good m.items) 7) then 4 else 0 := by
    unfold aggFault; split <;> simp [maxRk, MErr.fatal, Handling.rank]
  by_cases h3 : maxRk (decodeFaults m) ≥ 3
  · simp only [h3, ↓reduceIte]
    unfold effR
    split at hA <;> split <;> omega
  · have hle : maxRk (decodeFaults m) ≤ 1 := by omega
    have hne2 : ¬ maxRk (decodeFaults m) = 2 := hmask
    simp only [h3, ↓reduceIte, hne2]
    have hitems : maxRk (itemFaults m.items) ≤ 1 := by
      unfold decodeFaults at hle; rw [maxRk_append] at hle; omega
    have hattrs : (decode m).attrs = good m.items := by
      rw [decode_attrs m hp, kept_eq_good m.items hitems]
    rw [hattrs, validate_rk]
    by_cases hV : maxRk (semAll c (good m.items) m.wd m.nlri) ≥ 3
    · simp only [hV, ↓reduceIte]
      unfold effR
      split at hA <;> split <;> omega
    · simp only [hV, ↓reduceIte]
      have hlt : rk (validate c (good m.items) m.wd m.nlri).1 < 4 := by rw [validate_rk]; omega
      rw [validate_snd c _ _ _ hlt, aggErr_firsts _ (fun a ha => good_derr m.items a ha)]
      unfold effR
      by_cases hagg : (hasT (good m.items) 18 && !hasT (good m.items) 7) = true
      · simp only [hagg, ↓reduceIte] at hA ⊢
        split <;> omega
      · simp only [hagg, Bool.false_eq_true, ↓reduceIte] at hA ⊢
        split <;> omega

example : ∃ (c : Cfg) (m : AMsg), c.revised = true ∧ m.pre = none ∧ m.nlriErr = none ∧
    maxRk (decodeFaults m) ≠ 2 ∧ maxRk (allFaults c m) = 2 :=
  ⟨⟨true, true, false, false, true, true⟩,
   { items := [{ typ := 6, flags := 0x40, derr := some (3, 5) }, { typ := 2, flags := 0x40, segs := [2] },
               { typ := 3, flags := 0x40, nh := [10, 0, 0, 1] }], nlri := 1 },
   rfl, rfl, rfl, by decide, by decide⟩

/-- In the remaining case (a treat-as-withdraw class decode fault and nothing stronger in the
    decoder) the reaction is never weaker than treat-as-withdraw: the UPDATE is contained even
    where `C06_strongest` fails. -/
theorem C06_withdraw_floor (c : Cfg) (m : AMsg) (hr : c.revised = true)
    (hp : m.pre = none) (hn : m.nlriErr = none) (h2 : maxRk (decodeFaults m) = 2) :
    (sessionAction c m).rank = 2 ∨ (sessionAction c m).rank = 4 := by
  rw [session_rank c hr m]
  unfold sessionRankSpec
  simp only [decode_rk m hp hn, h2]
  split <;> simp

/-! ## C06_never_install_malformed -/

/-- Whenever routes are created from an UPDATE (actions `install` / `discardAttrs`), every
    attribute they carry arrived well-formed (its decoder reported nothing, ValidateAttribute
    reports nothing), no attribute type occurs twice, and when the UPDATE has NLRI the mandatory
    ORIGIN, AS_PATH and NEXT_HOP are among them; the length fields and the NLRI were sound. -/
theorem C06_never_install_malformed (c : Cfg) (m : AMsg) (hr : c.revised = true) (l : List AttrObs)
    (h : sessionAction c m = .install l ∨ sessionAction c m = .discardAttrs l) :
    m.pre = none ∧ m.nlriErr = none ∧
    (∀ a ∈ l, a ∈ m.items ∧ a.derr = none ∧ validateAttr c a = none) ∧
    (l.map (·.typ)).Nodup ∧
    (m.nlri > 0 → hasT l 1 = true ∧ hasT l 2 = true ∧ hasT l 3 = true) := by
  have hl := session_list c m l h
  have hrank : (sessionAction c m).rank ≤ 1 := by
    cases h with
    | inl h => rw [h]; simp [Action.rank]
    | inr h => rw [h]; simp [Action.rank]
  rw [session_rank c hr m] at hrank
  unfold sessionRankSpec at hrank
  dsimp only at hrank
  have hp : m.pre = none := by
    cases hp : m.pre with
    | none => rfl
    | some p =>
      obtain ⟨x, y⟩ := p
      rw [decode_fatal_pre m x y hp] at hrank
      simp [rk, MErr.fatal, Handling.rank] at hrank
  have hn : m.nlriErr = none := by
    cases hn : m.nlriErr with
    | none => rfl
    | some p =>
      obtain ⟨x, y⟩ := p
      rw [decode_fatal_nlri m x y hp hn] at hrank
      simp [rk, MErr.fatal, Handling.rank] at hrank
  obtain ⟨hwd, hnl⟩ := decode_wd_nlri m hp hn
  rw [decode_rk m hp hn, hwd, hnl] at hrank
  rw [hwd, hnl] at hl
  have hD : maxRk (decodeFaults m) ≤ 1 := by
    by_cases h3 : maxRk (decodeFaults m) ≥ 3
    · simp [h3] at hrank
    · by_cases h2 : maxRk (decodeFaults m) = 2
      · exfalso
        simp only [h2, show ¬ ((2:Nat) ≥ 3) by omega, ↓reduceIte] at hrank
        split at hrank <;> omega
      · omega
  have hitems : maxRk (itemFaults m.items) ≤ 1 := by
    unfold decodeFaults at hD; rw [maxRk_append] at hD; omega
  have hattrs : (decode m).attrs = good m.items := by
    rw [decode_attrs m hp, kept_eq_good m.items hitems]
  rw [hattrs] at hrank hl
  have h3 : ¬ maxRk (decodeFaults m) ≥ 3 := by omega
  have h2 : ¬ maxRk (decodeFaults m) = 2 := by omega
  simp only [h3, h2, ↓reduceIte, validate_rk] at hrank
  have hV : maxRk (semAll c (good m.items) m.wd m.nlri) ≤ 1 := by
    by_cases hv : maxRk (semAll c (good m.items) m.wd m.nlri) ≥ 3
    · simp [hv] at hrank
    · simp only [hv, ↓reduceIte] at hrank
      split at hrank <;> omega
  have hlt : rk (validate c (good m.items) m.wd m.nlri).1 < 4 := by rw [validate_rk]; omega
  rw [validate_snd c _ _ _ hlt] at hl
  subst hl
  refine ⟨hp, hn, ?_, firsts_nodup _ _, ?_⟩
  · intro a ha
    have hg := (firsts_mem _ _ a ha).1
    refine ⟨(List.mem_filter.mp hg).1, good_derr m.items a hg, ?_⟩
    cases hv : validateAttr c a with
    | none => rfl
    | some e =>
      have h1 := validateAttr_rank c a e hv
      have h2' := semFaults_of_firsts c (good m.items) [] a ha e hv
      unfold semAll at hV
      rw [maxRk_append, maxRk_append] at hV
      omega
  · intro hpos
    unfold semAll at hV
    rw [maxRk_append, maxRk_append] at hV
    have hm : maxRk (missingFault (good m.items) m.nlri) ≤ 1 := by omega
    unfold missingFault at hm
    simp only [hasT] at hm ⊢
    rw [firsts_nil_seen_any, firsts_nil_seen_any, firsts_nil_seen_any]
    by_cases h1 : (good m.items).any (fun a => a.typ == 1) = true <;>
    by_cases h2 : (good m.items).any (fun a => a.typ == 2) = true <;>
    by_cases h3 : (good m.items).any (fun a => a.typ == 3) = true <;>
    simp_all [maxRk, missErr, Handling.rank]

example : sessionAction ⟨true, true, false, false, true, true⟩
    { items := [{ typ := 6, flags := 0x40, derr := some (3, 5) }, { typ := 1, flags := 0x40 },
                { typ := 2, flags := 0x40, segs := [2] }, { typ := 3, flags := 0x40, nh := [10, 0, 0, 1] }],
      nlri := 1 }
    = .discardAttrs [{ typ := 1, flags := 0x40 }, { typ := 2, flags := 0x40, segs := [2] },
                     { typ := 3, flags := 0x40, nh := [10, 0, 0, 1] }] := by decide

/-! ## C06_wellformed_unpenalised -/

/-- An UPDATE without any fault is installed exactly as received, whatever the configuration. -/
theorem C06_wellformed_unpenalised (c : Cfg) (m : AMsg) (hp : m.pre = none) (hn : m.nlriErr = none)
    (hf : allFaults c m = []) : sessionAction c m = .install m.items := by
  unfold allFaults at hf
  simp only [List.append_eq_nil_iff] at hf
  obtain ⟨hd, hs, ha⟩ := hf
  unfold decodeFaults at hd
  simp only [List.append_eq_nil_iff] at hd
  obtain ⟨hi, hst⟩ := hd
  obtain ⟨hk, hg⟩ := itemFaults_nil_good m.items hi
  have hstop : m.stop = .done := by
    cases hs' : m.stop with
    | done => rfl
    | short => rw [hs'] at hst; simp [stopFaults] at hst
    | overrun a => rw [hs'] at hst; simp [stopFaults] at hst
  have herr : (decode m).err = none := by
    rw [decode_err m hp hn, hstop, decodeLoop_clean m.items none hi]; rfl
  have hattrs : (decode m).attrs = m.items := by rw [decode_attrs m hp, hk]
  obtain ⟨hwd, hnl⟩ := decode_wd_nlri m hp hn
  rw [hg] at hs ha
  have hv := validate_clean c m.items m.wd m.nlri hs
  have hagg : aggErr m.items = false := by
    have hfirst : firsts m.items [] = m.items := by
      have := validate_snd c m.items m.wd m.nlri (by rw [hv]; simp [rk])
      rw [hv] at this; exact this.symm
    have := aggErr_firsts m.items (fun a ha' => by rw [← hg] at ha'; exact good_derr m.items a ha')
    rw [hfirst] at this
    rw [this]
    unfold aggFault at ha
    by_cases hc : (hasT m.items 18 && !hasT m.items 7) = true
    · simp [hc] at ha
    · simpa using hc
  unfold sessionAction
  simp only [herr, hattrs, hwd, hnl, hv, finish, hagg]
  rfl

example : ∃ (c : Cfg) (m : AMsg), m.pre = none ∧ m.nlriErr = none ∧ allFaults c m = [] ∧ m.items.length = 4 :=
  ⟨⟨true, true, false, false, true, true⟩,
   { items := [{ typ := 1, flags := 0x40 }, { typ := 2, flags := 0x40, segs := [2] },
               { typ := 3, flags := 0x40, nh := [10, 0, 0, 1] }, { typ := 99, flags := 0xc0 }], nlri := 2 },
   rfl, rfl, by decide, rfl⟩

/-! ## C06_disabled_resets -/

/-- With revised error handling switched off there is no attribute discard and no
    treat-as-withdraw: the UPDATE is installed whole — and then neither the decoder nor the
    validator reported anything — or the session is reset with the error's code/subcode. -/
theorem C06_disabled_resets (c : Cfg) (hr : c.revised = false) (m : AMsg) :
    (∃ l, sessionAction c m = .install l ∧ (decode m).err = none ∧
        (validate c (decode m).attrs (decode m).wd (decode m).nlri).1 = none) ∨
      (∃ code sub, sessionAction c m = .reset code sub) := session_disabled c hr m

/-- ... and any decode fault at all is reported by the decoder (so it resets the session) -/
theorem C06_disabled_resets_decode (c : Cfg) (hr : c.revised = false) (m : AMsg)
    (hp : m.pre = none) (hn : m.nlriErr = none) (hf : decodeFaults m ≠ []) :
    ∃ code sub, sessionAction c m = .reset code sub := by
  cases session_disabled c hr m with
  | inr h => exact h
  | inl h =>
    obtain ⟨l, _, herr, _⟩ := h
    exfalso
    have hD := decode_rk m hp hn
    rw [herr] at hD
    simp only [rk] at hD
    -- every decode fault has a class ≥ discard, so a non-empty list has a positive maximum
    have hpos : ∀ l : List MErr, (∀ e ∈ l, 1 ≤ e.h.rank) → l ≠ [] → 1 ≤ maxRk l := by
      intro l hl hne
      cases l with
      | nil => exact absurd rfl hne
      | cons e r => have := hl e List.mem_cons_self; simp only [maxRk]; omega
    have hall : ∀ e ∈ decodeFaults m, 1 ≤ e.h.rank := by
      intro e he
      have hitem : ∀ a : AttrObs, ∀ e, itemErr a = some e → 1 ≤ e.h.rank := by
        intro a e hi
        unfold itemErr at hi
        cases hd : a.derr with
        | none => rw [hd] at hi; simp at hi
        | some p =>
          obtain ⟨x, y⟩ := p
          rw [hd] at hi
          simp only [Option.some.injEq] at hi
          subst hi
          simp only
          split
          · simp [Handling.rank]
          · exact attrClass_pos a.typ
      unfold decodeFaults at he
      rcases List.mem_append.mp he with h1 | h2
      · have : ∀ items : List AttrObs, e ∈ itemFaults items → 1 ≤ e.h.rank := by
          intro items
          induction items with
          | nil => intro h; simp [itemFaults] at h
          | cons a rest ih =>
            intro h
            simp only [itemFaults, List.mem_append] at h
            rcases h with h | h
            · cases hi : itemErr a with
              | none => rw [hi] at h; simp at h
              | some e' =>
                rw [hi] at h
                simp at h
                subst h
                exact hitem a _ hi
            · exact ih h
        exact this _ h1
      · cases hs : m.stop with
        | done => rw [hs] at h2; simp [stopFaults] at h2
        | short => rw [hs] at h2; simp [stopFaults] at h2; subst h2; simp [lenErr, Handling.rank]
        | overrun a =>
          rw [hs] at h2
          simp only [stopFaults, List.mem_append, List.mem_singleton] at h2
          rcases h2 with h | h
          · cases hi : itemErr a with
            | none => rw [hi] at h; simp at h
            | some e' => rw [hi] at h; simp at h; subst h; exact hitem a _ hi
          · subst h; simp [lenErr, Handling.rank]
    have := hpos _ hall hf
    omega

example : ∃ m : AMsg, m.pre = none ∧ m.nlriErr = none ∧ decodeFaults m ≠ [] :=
  ⟨{ items := [{ typ := 6, flags := 0x40, derr := some (3, 5) }] }, rfl, rfl, by decide⟩

/-! ## C06_position_independent (decoder) -/

theorem maxRk_perm {a b : List MErr} (h : a.Perm b) : maxRk a = maxRk b := by
  induction h with
  | nil => rfl
  | cons x _ ih => simp only [maxRk, ih]
  | swap x y l => simp only [maxRk]; omega
  | trans _ _ ih1 ih2 => exact ih1.trans ih2

theorem itemFaults_perm {a b : List AttrObs} (h : a.Perm b) : (itemFaults a).Perm (itemFaults b) := by
  induction h with
  | nil => exact List.Perm.refl _
  | cons x _ ih => simp only [itemFaults]; exact List.Perm.append_left _ ih
  | swap x y l =>
    simp only [itemFaults]
    rw [← List.append_assoc, ← List.append_assoc]
    exact List.Perm.append_right _ List.perm_append_comm
  | trans _ _ ih1 ih2 => exact ih1.trans ih2

/-- The class the decoder reports does not depend on the order in which the attributes (and hence
    the malformed ones) appear in the UPDATE. -/
theorem C06_position_independent (m1 m2 : AMsg) (hperm : m1.items.Perm m2.items)
    (hstop : m1.stop = m2.stop) (hp1 : m1.pre = none) (hp2 : m2.pre = none)
    (hn1 : m1.nlriErr = none) (hn2 : m2.nlriErr = none) :
    rk (decode m1).err = rk (decode m2).err := by
  rw [decode_rk m1 hp1 hn1, decode_rk m2 hp2 hn2]
  unfold decodeFaults
  rw [maxRk_append, maxRk_append, hstop, maxRk_perm (itemFaults_perm hperm)]

example : ∃ m1 m2 : AMsg, m1.items.Perm m2.items ∧ m1.items ≠ m2.items ∧ rk (decode m1).err = 2 :=
  ⟨{ items := [{ typ := 6, flags := 0x40, derr := some (3, 5) }, { typ := 1, flags := 0x40, derr := some (3, 1) }] },
   { items := [{ typ := 1, flags := 0x40, derr := some (3, 1) }, { typ := 6, flags := 0x40, derr := some (3, 5) }] },
   List.Perm.swap _ _ _, by decide, by decide⟩

/-! ## C06_withdrawals_executed — the RIB effect of a delivered (contained) UPDATE -/

/-- Whatever is delivered to the RIB (`effect` = peer.handleUpdate → table.ProcessMessage), unless it
    is an End-of-RIB marker:
    * accepted (install / attribute discard): its NLRI and MP_REACH prefixes are announced, and the
      prefixes it withdraws explicitly (WITHDRAWN ROUTES field, MP_UNREACH_NLRI) are withdrawn;
    * treat-as-withdraw: nothing is announced and EVERY prefix it names — NLRI, MP_REACH, WITHDRAWN
      ROUTES, MP_UNREACH — is withdrawn.
    A session reset delivers nothing (`effect = none`, second theorem). -/
theorem C06_withdrawals_executed (c : Cfg) (m : AMsg) (e : Effect) (h : effect c m = some e) :
    (∃ l, (sessionAction c m = .install l ∨ sessionAction c m = .discardAttrs l) ∧
        (isEOR l (decode m).wd (decode m).nlri = true ∨
          (e.announced = (decode m).nlri + lastNpfx l 14 ∧
           e.withdrawn = (decode m).wd + lastNpfx l 15))) ∨
    (∃ l, sessionAction c m = .withdrawAll l ∧
        (isEOR l (decode m).wd (decode m).nlri = true ∨
          (e.announced = 0 ∧
           e.withdrawn = (decode m).nlri + lastNpfx l 14 + ((decode m).wd + lastNpfx l 15)))) := by
  unfold effect at h
  cases hs : sessionAction c m with
  | install l =>
    rw [hs] at h; simp only [Option.some.injEq] at h; subst h
    left; refine ⟨l, Or.inl rfl, ?_⟩
    unfold processMessage
    by_cases he : isEOR l (decode m).wd (decode m).nlri = true
    · exact Or.inl he
    · right; simp [he]
  | discardAttrs l =>
    rw [hs] at h; simp only [Option.some.injEq] at h; subst h
    left; refine ⟨l, Or.inr rfl, ?_⟩
    unfold processMessage
    by_cases he : isEOR l (decode m).wd (decode m).nlri = true
    · exact Or.inl he
    · right; simp [he]
  | withdrawAll l =>
    rw [hs] at h; simp only [Option.some.injEq] at h; subst h
    right; refine ⟨l, rfl, ?_⟩
    unfold processMessage
    by_cases he : isEOR l (decode m).wd (decode m).nlri = true
    · exact Or.inl he
    · right; simp [he]
  | reset a b => rw [hs] at h; simp at h

theorem C06_reset_delivers_nothing (c : Cfg) (m : AMsg) :
    effect c m = none ↔ ∃ code sub, sessionAction c m = .reset code sub := by
  unfold effect
  cases hs : sessionAction c m <;> simp

example : effect ⟨true, true, false, false, true, true⟩
    { wd := 2, nlri := 1,
      items := [{ typ := 1, flags := 0x40, origin := 7 }, { typ := 2, flags := 0x40, segs := [2] },
                { typ := 3, flags := 0x40, nh := [10, 0, 0, 1] },
                { typ := 15, flags := 0x80, afi := 2, safi := 1, npfx := 3 }] }
    = some ⟨0, 6⟩ := by decide

/-! ## C06_handling_independent_of_history -/

/-- The handling of an UPDATE is a function of that UPDATE and of the session's negotiated
    parameters only: after ANY history of UPDATEs that did not reset the session, the next UPDATE is
    handled exactly as if it were the first one of a fresh session with the same parameters.
    (The model of recvMessageloop has no per-session memory; that the real loop has none either is
    what the sequence part of the session harness checks: every message of generated UPDATE
    sequences is compared with the model and with its own delivery on a fresh session.) -/
theorem C06_handling_independent_of_history (c : Cfg) (history : List AMsg) (m : AMsg)
    (h : ∀ x ∈ history, (sessionAction c x).isReset = false) :
    sessionRun c (history ++ [m]) = history.map (sessionAction c) ++ sessionRun c [m] ∧
    sessionRun c [m] = [sessionAction c m] := by
  constructor
  · induction history with
    | nil => rfl
    | cons x rest ih =>
      have hx := h x List.mem_cons_self
      have hr := ih (fun y hy => h y (List.mem_cons_of_mem _ hy))
      simp only [List.cons_append, sessionRun, hx, Bool.false_eq_true, ↓reduceIte, List.map_cons]
      rw [hr]
      simp [sessionRun]
  · simp only [sessionRun]
    split <;> rfl

example : ∃ (c : Cfg) (history : List AMsg), history.length = 2 ∧
    ∀ x ∈ history, (sessionAction c x).isReset = false :=
  ⟨⟨true, true, false, false, true, true⟩,
   [{ items := [{ typ := 1, flags := 0x40 }, { typ := 2, flags := 0x40, segs := [2] }], wd := 1 },
    { items := [{ typ := 1, flags := 0x40 }, { typ := 2, flags := 0x40, segs := [2] }], nlri := 1 }],
   rfl, by decide⟩

/-! ## C06_withdrawals_carry_path_ids — the route KEY of what a contained UPDATE removes -/

/-- Under treat-as-withdraw every path handed to the RIBs is a withdrawal, and it carries the path
    identifier of the NLRI it stands for — for the NLRI field, MP_REACH_NLRI, WITHDRAWN ROUTES and
    MP_UNREACH_NLRI alike (with ADD-PATH the RIBs match a withdrawal on prefix AND path identifier;
    without it every identifier is 0). -/
theorem C06_withdrawals_carry_path_ids (c : Cfg) (m : AMsg) (l : List AttrObs)
    (h : sessionAction c m = .withdrawAll l)
    (hne : isEOR l m.wdIds.length m.nlriIds.length = false) :
    effectPaths c m = some (((m.nlriIds ++ lastIds l 14) ++ (m.wdIds ++ lastIds l 15)).map (fun i => (true, i))) := by
  unfold effectPaths
  rw [h]
  simp [processPaths, hne, List.map_append]

example : effectPaths ⟨true, true, false, false, true, true⟩
    { wd := 1, wdIds := [9], nlri := 1, nlriIds := [7],
      items := [{ typ := 1, flags := 0x40, origin := 7 }, { typ := 2, flags := 0x40, segs := [2] },
                { typ := 3, flags := 0x40, nh := [10, 0, 0, 1] },
                { typ := 14, flags := 0x80, afi := 2, safi := 1, npfx := 2, ids := [5, 6] }] }
    = some [(true, 7), (true, 5), (true, 6), (true, 9)] := by decide

end C06
