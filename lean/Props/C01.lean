/-
  C01 — each peer has been told exactly the current export of the Loc-RIB.

  Model: Model/World.lean (mirror of server.go filterpath / (*BgpServer).filterpath /
  postFilterpath, peer.go filterPathFromSourcePeer, destination.go GetChanges,
  propagateUpdateToNeighbors non ADD-PATH branch, handleFSMMessage up/down). Tied to the code by
  go/overlay/pkg/server/zz_verif_c01_test.go (views after every UPDATE actually packed, serialised
  and re-parsed, compared with the model; fresh-export oracle on the implementation).
-/
import Lemmas.World
import Lemmas.WorldInv
import Lemmas.WorldAdj
namespace C01
open BestPath World

/-- **delta_correct.** For every target peer that is not a route-server client, every pair of
    (old, new) path lists of a destination: if the peer held exactly the export of the old best
    path, then after applying what the incremental fan-out sends (GetChanges + filterpath with
    the old best) it holds exactly the export of the new best path — the one an initial table
    transfer would send. No route that stopped being exportable stays advertised ("stuck
    route"), no exportable best path is missing.  (False on the pinned tree for the
    route-reflector and CLUSTER_LIST branches; holds after the two `fix:` commits.) -/
theorem delta_correct (g : Global) (t : PeerCfg) (hrs : t.isRSClient = false)
    (oldL newL : List Cand)
    (wfO : ∀ o, oldL.head? = some o → FromPeerWF g t o)
    (wfEq : ∀ b o, newL.head? = some b → oldL.head? = some o →
      b.src.equal o.src = true → b.src = o.src) :
    heldApply (wantOf g t oldL) (deltaFor g t oldL newL) = wantOf g t newL :=
  World.delta_correct g t hrs oldL newL wfO wfEq

/-- **C01_quiescent.** For every configuration of peers with pairwise different neighbour
    addresses and every history of session up / session down (non-graceful) / announcement /
    replacement / withdrawal / locally injected route (AddPath, DeletePath) / AddPeer /
    DeletePeer events (each event = one lock-protected region of the Go code, with the queued
    output applied): every established peer that is not a route-server client holds, for EVERY
    destination, exactly the export of the current best path — the route an initial table
    transfer would send now. Nothing that left the Loc-RIB stays advertised, no exportable best
    path is missing. By induction over the history with the invariant `World.FullInv`
    (`World.Inv` for the views, `World.AdjOK` so that a deleted peer leaves nothing behind);
    the per-step heart is `delta_correct`. -/
theorem C01_quiescent (g : Global) (cfgs : List PeerCfg)
    (haddr : cfgs.Pairwise (fun a b => a.addr ≠ b.addr))
    (hidx : cfgs.Pairwise (fun a b => a.idx ≠ b.idx))
    (ops : List WOp) :
    let w := ops.foldl step (init g cfgs)
    ∀ ps ∈ w.peers, ps.up = true → ps.cfg.isRSClient = false →
      ∀ pfx, heldOf ps.view pfx = wantOf w.g ps.cfg (w.ribOf pfx) := by
  intro w
  exact (run_full (init g cfgs) ops (init_full g cfgs haddr hidx)).inv.views

/-- the export decision in closed form (loop prevention): see `exportableF` -/
theorem export_rule (g : Global) (t : PeerCfg) (r : Cand) :
    exportable g t r = exportableF g t r := exportable_eq g t r

/-- never back to the router it came from -/
theorem never_back_to_source (g : Global) (t : PeerCfg) (r : Cand) (h : r.src.rid = t.rid) :
    exportable g t r = false := by
  rw [exportable_eq]; unfold exportableF; simp [h]

/-- never to a (non route-server) peer whose AS is already in the AS_PATH -/
theorem never_to_as_in_path (g : Global) (t : PeerCfg) (r : Cand) (hrs : t.isRSClient = false)
    (h : (asList r.segs).contains t.as = true) : exportable g t r = false := by
  rw [exportable_eq]; unfold exportableF
  have h' : t.as ∈ asList r.segs := by simpa using h
  simp [h', hrs]

/-- never from a non-client iBGP peer to another non-client iBGP peer -/
theorem no_nonclient_to_nonclient (g : Global) (t : PeerCfg) (r : Cand)
    (ht : t.isIBGP g = true) (htc : t.isRRClient = false) (hl : r.isLocal = false)
    (hs : r.src.as = t.as) (hsc : r.src.rrClient = false) : exportable g t r = false := by
  rw [exportable_eq]; unfold exportableF; simp [ht, htc, hl, hs, hsc]

/-- a withdraw handed to the export filters is sent iff the route had been exportable -/
theorem withdraw_iff_exportable (g : Global) (t : PeerCfg) (x : Cand) (old : Option Cand) :
    sFilterpath g t ⟨x, true⟩ old = if exportable g t x then some ⟨x, true⟩ else none :=
  sfilter_wd_eq g t x old

/-! ### non-vacuity: the route-reflector history that was stuck on the pinned tree -/

def g0 : Global := ⟨65000, 1⟩
def nonClient : PeerCfg := { idx := 0, kind := .ibgp, as := 65000, rid := 10, addr := 100 }
def client : PeerCfg := { idx := 1, kind := .rrc, as := 65000, rid := 11, addr := 101 }
def other : PeerCfg := { idx := 2, kind := .ibgp, as := 65000, rid := 12, addr := 102 }
def fromClient : Cand := { (default : Cand) with src := client.srcInfo g0, marker := 1, origin := some 0 }
def fromOther : Cand := { (default : Cand) with src := other.srcInfo g0, marker := 2, origin := some 0 }

/-- the client's route had been reflected to the non-client peer … -/
example : wantOf g0 nonClient [fromClient] = some 1 := by decide
/-- … the new best from another non-client peer is not exportable, and the fan-out withdraws -/
example : heldApply (some 1) (deltaFor g0 nonClient [fromClient] [fromOther, fromClient]) = none := by decide
example : wantOf g0 nonClient [fromOther, fromClient] = none := by decide

/-- a three-peer history through `C01_quiescent`'s world: the client's route is reflected, then
    displaced by a non-client's route, and the non-client peer ends up holding nothing -/
def hist : List WOp :=
  [.up 0, .up 1, .up 2,
   .ann 1 { (default : Cand) with pfx := 7, marker := 1, origin := some 0, segs := [⟨2, [300, 400]⟩] },
   .ann 2 { (default : Cand) with pfx := 7, marker := 2, origin := some 0, segs := [⟨2, [300]⟩] }]

example : ((hist.take 4).foldl step (init g0 [nonClient, client, other])).peers.map (fun ps => heldOf ps.view 7)
    = [some 1, none, some 1] := by decide
example : (hist.foldl step (init g0 [nonClient, client, other])).peers.map (fun ps => heldOf ps.view 7)
    = [none, some 2, none] := by decide

/-- the same world with a locally injected route, a peer added at run time and the deletion of
    the peer whose route was best: the survivors are told the next best, and the local route
    (AS_PATH empty) goes to everybody -/
def late : PeerCfg := { idx := 3, kind := .ebgp, as := 65100, rid := 13, addr := 103 }
def hist2 : List WOp :=
  hist ++ [.add late, .up 3,
    .localAdd { (default : Cand) with pfx := 9, marker := 5, origin := some 0 },
    .del 2]

example : (hist2.foldl step (init g0 [nonClient, client, other])).peers.map
    (fun ps => (ps.cfg.idx, heldOf ps.view 7, heldOf ps.view 9))
    = [(0, some 1, some 5), (1, none, some 5), (3, some 1, some 5)] := by decide

end C01
