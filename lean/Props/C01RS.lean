/-
  C01RS — the route-server-client part of C01 ("each peer has been told exactly the current
  export of the Loc-RIB").

  Model: Model/RouteServer.lean — a speaker whose neighbour map holds ordinary peers (global
  table, Model/World.lean) AND route-server clients (the second table manager `rsRib`); per
  client the client-specific best path `getBestPath(id, as)`; incremental fan-out with the
  client-specific (best, old) pair; initial table transfer from the client's own view of the
  table; session up / down, announce / replace / withdraw, AddPeer, DeletePeer.
  Tied to the code by go/overlay/pkg/server/zz_verif_c01rs_test.go (views accumulated from the
  UPDATEs actually packed, serialised and re-parsed; fresh-transfer oracle on the real server).

  The export filter chain mirrored is the REPAIRED one (`fix:` commit on wt-C01RS,
  peer.go filterPathFromSourcePeer): on the pinned tree the full statement is false, see
  `pinned_stuck_route` below.
-/
import Lemmas.RouteServerHist
namespace C01RS
open BestPath World RouteServer

/-- **delta_correct_rs** — the per-step heart.  For every route-server client `t` and every pair
    (old, new) of the SHARED path list of a destination: if the client held exactly the export
    of its old client-specific best path, then after applying what the incremental fan-out
    sends it (GetChanges(id, as) + filterpath with the client's old best) it holds exactly the
    export of its new client-specific best path — what an initial table transfer would send.
    (`wfEq`: two paths that are `PeerInfo.Equal` have the same PeerInfo; it follows from "every
    path of the route-server table was learned from a route-server client", see
    `C01RS_quiescent`.) -/
theorem delta_correct_rs (g : Global) (t : PeerCfg) (h : t.isRSClient = true)
    (oldL newL : List Cand)
    (wfEq : ∀ b o, clientBest t newL = some b → clientBest t oldL = some o →
      b.src.equal o.src = true → b.src = o.src) :
    heldApply (rsWant g t oldL) (rsDeltaFor g t oldL newL) = rsWant g t newL :=
  rs_delta_correct g t h oldL newL wfEq

/-- **C01RS_quiescent.**  For every configuration (neighbours with pairwise different addresses
    and indices; ordinary peers and route-server clients mixed) and EVERY history of session up /
    down (non-graceful), announcement / replacement / withdrawal, locally injected routes,
    AddPeer and DeletePeer events — of clients and of ordinary peers, interleaved in any order —
    every established route-server client holds, for EVERY destination, exactly the export of
    ITS best path (`rsWant`: the first path of the shared list that is not its own and does not
    carry its AS, through the export filters with old = nil), i.e. what an initial table transfer
    would send it now.  By induction over the history with the invariant `RouteServer.RSInv`. -/
theorem C01RS_quiescent (g : Global) (cfgs : List PeerCfg)
    (haddr : cfgs.Pairwise (fun a b => a.addr ≠ b.addr))
    (hidx : cfgs.Pairwise (fun a b => a.idx ≠ b.idx))
    (ops : List WOp) :
    let s := ops.foldl RouteServer.step (RouteServer.init g cfgs)
    ∀ ps ∈ s.base.peers, ps.up = true → ps.cfg.isRSClient = true →
      ∀ pfx, heldOf ps.view pfx = rsWant s.base.g ps.cfg (s.rsRibOf pfx) := by
  intro s
  exact (run_inv (RouteServer.init g cfgs) ops (init_inv g cfgs haddr hidx)).views

/-- `rsWant` in closed form: the client's best path `b` (none → nothing), reachable, not from a
    router with the client's own router-id, not an iBGP-learned route toward an iBGP client, not
    LLGR-stale toward a client without LLGR. -/
theorem rs_want_closed (g : Global) (t : PeerCfg) (h : t.isRSClient = true) (l : List Cand) :
    rsWant g t l =
      match clientBest t l with
      | none => none
      | some b =>
        if b.nhInvalid then none
        else if exportableF g (asOrd t) b && (t.llgr || !b.stale) then some b.marker else none := by
  rw [rsWant_eq g t h, wantOf_eq, head_toList]
  cases clientBest t l with
  | none => rfl
  | some b => simp only [wantR, exportable_eq]; rfl

/-- **nothing of its own, nothing with its AS, nothing that left the table, nothing but its
    best.**  After any history, whatever an established client holds for a destination is a
    path that IS in the route-server table now, is the client's best path there, was learned
    from ANOTHER neighbour, does not carry the client's AS and does not come from a router with
    the client's router-id. -/
theorem rs_holds_only_its_best (g : Global) (cfgs : List PeerCfg)
    (haddr : cfgs.Pairwise (fun a b => a.addr ≠ b.addr))
    (hidx : cfgs.Pairwise (fun a b => a.idx ≠ b.idx))
    (ops : List WOp) :
    let s := ops.foldl RouteServer.step (RouteServer.init g cfgs)
    ∀ ps ∈ s.base.peers, ps.up = true → ps.cfg.isRSClient = true →
      ∀ pfx m, heldOf ps.view pfx = some m →
        ∃ b, clientBest ps.cfg (s.rsRibOf pfx) = some b ∧ b ∈ s.rsRibOf pfx ∧ b.marker = m ∧
          b.src.addr ≠ some ps.cfg.addr ∧ ps.cfg.as ∉ asList b.segs ∧ b.src.rid ≠ ps.cfg.rid := by
  intro s ps hps hup hrs pfx m hm
  have hq := C01RS_quiescent g cfgs haddr hidx ops ps hps hup hrs pfx
  rw [hm, rs_want_closed _ _ hrs] at hq
  cases hb : clientBest ps.cfg (s.rsRibOf pfx) with
  | none => rw [hb] at hq; cases hq
  | some b =>
    rw [hb] at hq
    simp only at hq
    obtain ⟨hmem, hf⟩ := clientBest_some hb
    obtain ⟨ha, hl⟩ := rsFilter_false hf
    split at hq
    · cases hq
    · split at hq
      · rename_i hex
        simp only [Option.some.injEq] at hq
        refine ⟨b, rfl, hmem, hq.symm, ha, by simpa using hl, ?_⟩
        unfold exportableF at hex
        simp only [Bool.and_eq_true, bne_iff_ne, ne_eq, asOrd_rid] at hex
        exact fun e => hex.1.1.2 e.symm
      · cases hq

/-- **no eligible best path missing.**  After any history, if a client's best path for a
    destination is reachable, comes from a router with another router-id, is not an
    iBGP-learned route toward an iBGP client and is not LLGR-stale (or the client has LLGR),
    the client holds it. -/
theorem rs_nothing_missing (g : Global) (cfgs : List PeerCfg)
    (haddr : cfgs.Pairwise (fun a b => a.addr ≠ b.addr))
    (hidx : cfgs.Pairwise (fun a b => a.idx ≠ b.idx))
    (ops : List WOp) :
    let s := ops.foldl RouteServer.step (RouteServer.init g cfgs)
    ∀ ps ∈ s.base.peers, ps.up = true → ps.cfg.isRSClient = true →
      ∀ pfx b, clientBest ps.cfg (s.rsRibOf pfx) = some b → b.nhInvalid = false →
        exportableF s.base.g (asOrd ps.cfg) b = true → (ps.cfg.llgr || !b.stale) = true →
        heldOf ps.view pfx = some b.marker := by
  intro s ps hps hup hrs pfx b hb hn hex hst
  have hq := C01RS_quiescent g cfgs haddr hidx ops ps hps hup hrs pfx
  rw [rs_want_closed _ _ hrs, hb] at hq
  simp only [hn, Bool.false_eq_true, if_false, hst, Bool.and_true] at hq
  rw [if_pos hex] at hq
  exact hq

/-- every path of the route-server table was learned from a route-server client: nothing of the
    ordinary group (and no locally injected route) ever enters it -/
theorem rs_table_only_client_routes (g : Global) (cfgs : List PeerCfg)
    (haddr : cfgs.Pairwise (fun a b => a.addr ≠ b.addr))
    (hidx : cfgs.Pairwise (fun a b => a.idx ≠ b.idx))
    (ops : List WOp) :
    let s := ops.foldl RouteServer.step (RouteServer.init g cfgs)
    ∀ pfx, ∀ r ∈ s.rsRibOf pfx, r.pfx = pfx ∧
      ∃ c : PeerCfg, c.isRSClient = true ∧ r.src = c.srcInfo s.base.g := by
  intro s pfx r hr
  have hinv := run_inv (RouteServer.init g cfgs) ops (init_inv g cfgs haddr hidx)
  obtain ⟨e, he, hep, hre⟩ := mem_rsRibOf s pfx r hr
  have := hinv.rib e he r hre
  rw [hep] at this
  exact this

/-- the neighbour an event concerns is a route-server client -/
def ofClient (s : S) : WOp → Bool
  | .up i | .down i | .ann i _ | .wd i _ _ | .del i => s.isRS i
  | _ => false

/-- **routes never cross, 1.**  An event of a route-server client (session up / down, UPDATE,
    DeletePeer), in any state reachable by a history, changes neither the global table nor the
    state (session flag, Adj-RIB-In, what it has been told) of any ordinary neighbour. -/
theorem client_event_leaves_ordinary_group (g : Global) (cfgs : List PeerCfg)
    (haddr : cfgs.Pairwise (fun a b => a.addr ≠ b.addr))
    (hidx : cfgs.Pairwise (fun a b => a.idx ≠ b.idx))
    (ops : List WOp) (op : WOp) :
    let s := ops.foldl RouteServer.step (RouteServer.init g cfgs)
    ofClient s op = true →
      (RouteServer.step s op).base.rib = s.base.rib ∧
      ∀ ps, ps.cfg.isRSClient = false → (ps ∈ (RouteServer.step s op).base.peers ↔ ps ∈ s.base.peers) := by
  intro s hop
  have hinv := run_inv (RouteServer.init g cfgs) ops (init_inv g cfgs haddr hidx)
  have key : ∀ s' : S, RsFrame s s' → s'.base.rib = s.base.rib ∧
      ∀ ps, ps.cfg.isRSClient = false → (ps ∈ s'.base.peers ↔ ps ∈ s.base.peers) := by
    intro s' hf
    refine ⟨hf.2, fun ps hps => ⟨fun hm => hf.1.mem_of_keep hm (by simp [isOrdCfg, hps]),
      fun hm => hf.1.mem_keep hm (by simp [isOrdCfg, hps])⟩⟩
  cases op with
  | up i =>
    simp only [ofClient] at hop
    simp only [RouteServer.step, hop, if_true]
    exact key _ (rs_event_frame s hinv i hop).1
  | down i =>
    simp only [ofClient] at hop
    simp only [RouteServer.step, hop, if_true]
    exact key _ (rs_event_frame s hinv i hop).2.1
  | ann i r =>
    simp only [ofClient] at hop
    simp only [RouteServer.step, hop, if_true]
    exact key _ ((rs_event_frame s hinv i hop).2.2.1 r)
  | wd i p k =>
    simp only [ofClient] at hop
    simp only [RouteServer.step, hop, if_true]
    exact key _ ((rs_event_frame s hinv i hop).2.2.2.1 p k)
  | del i =>
    simp only [ofClient] at hop
    simp only [RouteServer.step, hop, if_true]
    obtain ⟨s1, hf, hrib, _, hpe⟩ := (rs_event_frame s hinv i hop).2.2.2.2
    obtain ⟨k1, k2⟩ := key s1 hf
    refine ⟨hrib.trans k1, fun ps hps => ?_⟩
    rw [hpe, List.mem_filter, k2 ps hps]
    constructor
    · exact fun h => h.1
    · intro hm
      refine ⟨hm, ?_⟩
      obtain ⟨ps0, hp0, hrs0⟩ := rs_of_isRS s i hop
      have := no_ord_with_idx s.base hinv.peers i ps0 hp0 hrs0 ps hm
      simp only [bne_iff_ne, ne_eq]
      intro hi
      rw [this hi] at hps
      cases hps
  | localAdd r => simp [ofClient] at hop
  | localDel p k => simp [ofClient] at hop
  | add c => simp [ofClient] at hop

/-- **routes never cross, 2.**  An event of an ordinary neighbour or a locally injected route
    (everything but AddPeer, which only appends a neighbour), in any state reachable by a
    history, changes neither the route-server table nor the state of any route-server client. -/
theorem ordinary_event_leaves_client_group (g : Global) (cfgs : List PeerCfg)
    (haddr : cfgs.Pairwise (fun a b => a.addr ≠ b.addr))
    (hidx : cfgs.Pairwise (fun a b => a.idx ≠ b.idx))
    (ops : List WOp) (op : WOp) :
    let s := ops.foldl RouteServer.step (RouteServer.init g cfgs)
    ofClient s op = false → (∀ c, op ≠ .add c) →
      (RouteServer.step s op).rsRib = s.rsRib ∧
      ∀ ps, ps.cfg.isRSClient = true → (ps ∈ (RouteServer.step s op).base.peers ↔ ps ∈ s.base.peers) := by
  intro s hop hadd
  have hinv := run_inv (RouteServer.init g cfgs) ops (init_inv g cfgs haddr hidx)
  have key : ∀ w' : W, MapFrame isRSCfg s.base w' →
      ∀ ps, ps.cfg.isRSClient = true → (ps ∈ w'.peers ↔ ps ∈ s.base.peers) := by
    intro w' hf ps hps
    exact ⟨fun hm => hf.mem_of_keep hm hps, fun hm => hf.mem_keep hm hps⟩
  have hnot : ∀ i, s.isRS i = false → ¬ s.isRS i = true := by intro i h; simp [h]
  cases op with
  | up i =>
    simp only [ofClient] at hop
    simp only [RouteServer.step, hop, Bool.false_eq_true, if_false]
    exact ⟨trivial, key _ (sessionUp_frame s.base hinv.peers i (ord_of_not_rs s i (hnot i hop)))⟩
  | down i =>
    simp only [ofClient] at hop
    simp only [RouteServer.step, hop, Bool.false_eq_true, if_false]
    exact ⟨trivial, key _ (sessionDown_frame s.base hinv.peers i (ord_of_not_rs s i (hnot i hop)))⟩
  | ann i r =>
    simp only [ofClient] at hop
    simp only [RouteServer.step, hop, Bool.false_eq_true, if_false]
    exact ⟨trivial, key _ (recvAnn_frame s.base hinv.peers i r (ord_of_not_rs s i (hnot i hop)))⟩
  | wd i p k =>
    simp only [ofClient] at hop
    simp only [RouteServer.step, hop, Bool.false_eq_true, if_false]
    exact ⟨trivial, key _ (recvWd_frame s.base hinv.peers i p k (ord_of_not_rs s i (hnot i hop)))⟩
  | localAdd r => exact ⟨rfl, key _ (localAdd_frame s.base r)⟩
  | localDel p k => exact ⟨rfl, key _ (localDel_frame s.base p k)⟩
  | add c => exact absurd rfl (hadd c)
  | del i =>
    simp only [ofClient] at hop
    simp only [RouteServer.step, hop, Bool.false_eq_true, if_false]
    refine ⟨trivial, fun ps hps => ?_⟩
    have hord := ord_of_not_rs s i (hnot i hop)
    rcases delPeer_frame s.base hinv.peers i hord with he | ⟨w1, hf, _, hpe, ⟨ps0, hp0⟩⟩
    · rw [he]
    · rw [hpe, List.mem_filter, key w1 hf ps hps]
      constructor
      · exact fun h => h.1
      · intro hm
        refine ⟨hm, ?_⟩
        have := no_rs_with_idx s.base hinv.peers i ps0 hp0 (hord ps0 hp0) ps hm
        simp only [bne_iff_ne, ne_eq]
        intro hi
        rw [this hi] at hps
        cases hps

/-! ### the pinned tree: a stuck route (repaired on wt-C01RS) -/

/-- what the fan-out of the PINNED tree sent to one client (filterPathFromSourcePeer with the
    route-server exemption) -/
def rsDeltaForPinned (g : Global) (t : PeerCfg) (oldL newL : List Cand) : Option P :=
  match getChangesFor t oldL newL with
  | (some b, old) => rsFilterpathPinned g t b old
  | (none, _) => none

def g0 : Global := ⟨65000, 1⟩
/-- clients A and B: different ASes, different addresses, the SAME router-id (RFC 6286 allows it;
    also two sessions of one router) -/
def cA : PeerCfg := { idx := 0, kind := .rsc, as := 65001, rid := 10, addr := 101 }
def cB : PeerCfg := { idx := 1, kind := .rsc, as := 65002, rid := 10, addr := 102 }
def cC : PeerCfg := { idx := 2, kind := .rsc, as := 65003, rid := 12, addr := 103 }
def fromC : Cand := { (default : Cand) with src := cC.srcInfo g0, marker := 1, origin := some 0,
                                             segs := [⟨2, [65003]⟩] }
def fromA : Cand := { (default : Cand) with src := cA.srcInfo g0, marker := 2, origin := some 0,
                                             segs := [⟨2, [65001]⟩], localPref := some 200 }

/-- **pinned_stuck_route** (counterexample to `delta_correct_rs` on the pinned tree): client B
    holds C's route; A's better route becomes B's best path; it is "from me" for B (same
    router-id), so B should now hold nothing — but the pinned filter chain sent nothing at all,
    and B keeps C's route (also after C withdraws it: the route has then left the table).
    Replayed on the real server: corpus/C01RS/defect1-same-router-id-stuck-route.txt. -/
theorem pinned_stuck_route :
    rsWant g0 cB [fromC] = some 1 ∧ rsWant g0 cB [fromA, fromC] = none ∧
    heldApply (rsWant g0 cB [fromC]) (rsDeltaForPinned g0 cB [fromC] [fromA, fromC]) = some 1 ∧
    heldApply (rsWant g0 cB [fromC]) (rsDeltaFor g0 cB [fromC] [fromA, fromC]) = none := by
  decide

/-! ### non-vacuity -/

/-- `delta_correct_rs`: its hypotheses hold for client B and the two lists above -/
example : heldApply (rsWant g0 cB [fromC]) (rsDeltaFor g0 cB [fromC] [fromA, fromC]) =
    rsWant g0 cB [fromA, fromC] :=
  delta_correct_rs g0 cB rfl [fromC] [fromA, fromC] (by
    intro b o hb ho heq
    have h1 : clientBest cB [fromA, fromC] = some fromA := by decide
    have h2 : clientBest cB [fromC] = some fromC := by decide
    rw [h1] at hb; rw [h2] at ho
    cases hb; cases ho
    exact absurd heq (by decide))

/-- an ordinary eBGP peer next to the three clients -/
def ord : PeerCfg := { idx := 3, kind := .ebgp, as := 65011, rid := 13, addr := 104 }

def hist : List WOp :=
  [.up 0, .up 1, .up 2, .up 3,
   .ann 2 { (default : Cand) with pfx := 7, marker := 1, origin := some 0, segs := [⟨2, [65003]⟩] },
   .ann 0 { (default : Cand) with pfx := 7, marker := 2, origin := some 0, segs := [⟨2, [65001]⟩],
                                  localPref := some 200 },
   .ann 3 { (default : Cand) with pfx := 7, marker := 3, origin := some 0, segs := [⟨2, [65011]⟩] },
   .wd 2 7 0]

/-- C's route reaches A and B (not C, not the ordinary peer) … -/
example : ((hist.take 5).foldl RouteServer.step (RouteServer.init g0 [cA, cB, cC, ord])).base.peers.map
    (fun ps => heldOf ps.view 7) = [some 1, some 1, none, none] := by decide
/-- … A's better route displaces it: C now holds A's route, A keeps C's route (its own is not
    in its view), B (same router-id as A) is told to withdraw … -/
example : ((hist.take 6).foldl RouteServer.step (RouteServer.init g0 [cA, cB, cC, ord])).base.peers.map
    (fun ps => heldOf ps.view 7) = [some 1, none, some 2, none] := by decide
/-- … the ordinary peer's route stays in the global table and reaches no client; C's withdrawal
    leaves A with nothing -/
example : (hist.foldl RouteServer.step (RouteServer.init g0 [cA, cB, cC, ord])).base.peers.map
    (fun ps => heldOf ps.view 7) = [none, none, some 2, none] := by decide
example : ((hist.foldl RouteServer.step (RouteServer.init g0 [cA, cB, cC, ord])).rsRibOf 7).map (·.marker) = [2] ∧
    ((hist.foldl RouteServer.step (RouteServer.init g0 [cA, cB, cC, ord])).base.ribOf 7).map (·.marker) = [3] := by
  decide
/-- the hypotheses of the two isolation theorems are satisfiable -/
example : ofClient (RouteServer.init g0 [cA, cB, cC, ord]) (.up 0) = true ∧
    ofClient (RouteServer.init g0 [cA, cB, cC, ord]) (.up 3) = false := by decide

end C01RS
