/-
  C02 — RIBs hold exactly the latest un-withdrawn route per source and path-id.

  Models: World.adjAnnounce / adjWithdraw (adj.go AdjRib.Update, Drop), BestPath.calcStep
  (destination.go Calculate), World.recvAnn (peer.go handleUpdate + server.go propagateUpdate).
  Tied to the code by go/overlay/pkg/server/zz_verif_c01_test.go (TestVerifC01: Adj-RIB-In dumps,
  counters and Loc-RIB order compared after every flush point of random histories).
-/
import Lemmas.Adj
import Lemmas.BestPathHist
import Lemmas.WorldAdj
import Lemmas.WorldHeld
namespace C02
open BestPath World

/-- **Adj-RIB-In refinement.** After any history of announcements (accepted or loop-rejected),
    replacements, withdrawals (also duplicate / of unknown keys) and session ends, looking up
    (prefix, path-id) in the stored entry list gives exactly the abstract map "latest
    un-withdrawn announcement of the current session" (`adjSpecStep`). -/
theorem adjin_refines (ops : List AdjOp) :
    (ops.foldl adjStep {}).abs = ops.foldl adjSpecStep (fun _ _ => none) :=
  adj_refines ops

/-- one entry per (prefix, path-id), and the accepted counter equals the number of stored
    non-rejected entries after every history (reject↔accept flips included) -/
theorem adjin_unique_and_counted (ops : List AdjOp) :
    (ops.foldl adjStep {}).Nodup ∧
      (ops.foldl adjStep {}).accepted =
        (((ops.foldl adjStep {}).entries.filter (fun e => !e.rejected)).length : Int) :=
  adj_invariants ops

/-- **Loc-RIB refinement (per destination).** After any history of announcements, implicit
    replacements and withdrawals the path list is sorted best-first (C03), holds at most one
    entry per (source, path-id), and is a permutation of the latest un-withdrawn candidate per
    (source, path-id). -/
theorem locrib_refines (o : Opts) (ops : List Op) (wf : SetWF o (opCands ops)) :
    Sorted o (run o ops) ∧ NodupKey (run o ops) ∧ (run o ops).Perm (spec ops) :=
  run_inv o ops wf

/-- a withdrawal removes the entry of its (source, path-id) — in particular the withdrawal that
    `recvAnn` hands to the Loc-RIB when the loop checks reject a replacement (the fixed C02
    defect: the pinned tree dropped the rejected path without withdrawing its predecessor). -/
theorem withdraw_removes (l : List Cand) (x : Cand) (hn : NodupKey l) :
    ∀ y ∈ explicitWithdraw l x, sameKey y x = false := by
  rw [explicitWithdraw_eq_filter l x hn]
  intro y hy
  have := (List.mem_filter.mp hy).2
  simpa using this

/-- **World level: nothing outlives its Adj-RIB-In entry.** For every configuration of peers
    with pairwise different addresses and EVERY history of session up / down, announcements,
    replacements (accepted or loop-rejected), withdrawals, locally injected routes, AddPeer and
    DeletePeer: each path in the Loc-RIB sits under its own prefix, is the only one there with
    its (source, path-id), and is either locally injected or was learned from a peer that is
    still configured AND still stores a non-rejected Adj-RIB-In entry with that (prefix,
    path-id). So a withdrawn route, a route replaced by a loop-rejected one, the routes of a
    session that went down and the routes of a deleted peer are all gone from the Loc-RIB. -/
theorem locrib_within_adjin (g : Global) (cfgs : List PeerCfg)
    (haddr : cfgs.Pairwise (fun a b => a.addr ≠ b.addr))
    (hidx : cfgs.Pairwise (fun a b => a.idx ≠ b.idx)) (ops : List WOp) :
    let w := ops.foldl step (init g cfgs)
    ∀ pfx, NodupKey (w.ribOf pfx) ∧ ∀ r ∈ w.ribOf pfx, r.pfx = pfx ∧
      (r.src = localSrc ∨ ∃ ps ∈ w.peers, r.src = ps.cfg.srcInfo w.g ∧
        ∃ a ∈ ps.adj.entries, a.rejected = false ∧ a.r.pfx = pfx ∧ a.r.pathId = r.pathId) := by
  intro w pfx
  have hf := run_full (init g cfgs) ops (init_full g cfgs haddr hidx)
  refine ⟨ribOf_nodup w hf.inv pfx, ?_⟩
  intro r hr
  obtain ⟨e, he, hep, hre⟩ := mem_ribOf w pfx r hr
  obtain ⟨hp, hs⟩ := hf.inv.rib e he r hre
  refine ⟨hp.trans hep, ?_⟩
  rcases hs with hl | ⟨ps, hps, hsrc⟩
  · exact Or.inl hl
  · obtain ⟨a, ha, h1, h2, h3⟩ := (hf.adj ps hps).2 e he r hre hsrc
    exact Or.inr ⟨ps, hps, hsrc, a, ha, h1, h2.trans (hp.trans hep), h3⟩

/-- **World level: nothing accepted is lost.** Under the same quantifiers: every non-rejected
    Adj-RIB-In entry of every configured peer is represented in the Loc-RIB of its prefix by a
    path with that peer as source and the same path-id — across replacements, other peers'
    and local updates of the same destination, session ends and deletions of OTHER peers. With
    `locrib_within_adjin`: the (source, path-id) keys of a destination's Loc-RIB are exactly the
    accepted Adj-RIB-In keys of the configured peers plus the locally injected routes. -/
theorem adjin_within_locrib (g : Global) (cfgs : List PeerCfg)
    (haddr : cfgs.Pairwise (fun a b => a.addr ≠ b.addr))
    (hidx : cfgs.Pairwise (fun a b => a.idx ≠ b.idx)) (ops : List WOp) :
    let w := ops.foldl step (init g cfgs)
    ∀ ps ∈ w.peers, ∀ a ∈ ps.adj.entries, a.rejected = false →
      ∃ r ∈ w.ribOf a.r.pfx, r.src = ps.cfg.srcInfo w.g ∧ r.pathId = a.r.pathId := by
  intro w ps hps a ha hr
  have ht := run_total (init g cfgs) ops (init_total g cfgs haddr hidx)
  obtain ⟨e, he, hep, r, hre, hs, hk⟩ := ht.held ps hps a ha hr
  refine ⟨r, ?_, hs, hk⟩
  rw [← hep, ribOf_of_mem w ht.full.inv.keys e he]
  exact hre

/-! ### non-vacuity -/

def rt (pfx pid marker : Nat) : Cand := { (default : Cand) with pfx := pfx, pathId := pid, marker := marker }

example : ((([AdjOp.ann (rt 1 0 7) false, .ann (rt 1 0 8) true, .ann (rt 2 0 9) false, .wd (rt 2 0 0)]).foldl
    adjStep {}).entries.map (fun e => (e.r.marker, e.rejected))) = [(8, true)] := by decide

example : (([AdjOp.ann (rt 1 0 7) false, .ann (rt 1 0 8) true]).foldl adjStep {}).accepted = 0 := by decide

/-- a world history: peer 1's route is replaced by a loop-rejected one (own AS in the path) and
    leaves the Loc-RIB; peer 0's route and the local route stay; then peer 0 is deleted -/
def g0 : Global := ⟨65000, 1⟩
def p0 : PeerCfg := { idx := 0, kind := .ebgp, as := 65001, rid := 10, addr := 100 }
def p1 : PeerCfg := { idx := 1, kind := .ebgp, as := 65002, rid := 11, addr := 101 }
def wh : List WOp :=
  [.up 0, .up 1,
   .ann 0 { (default : Cand) with pfx := 7, marker := 1, origin := some 0, segs := [⟨2, [65001]⟩] },
   .ann 1 { (default : Cand) with pfx := 7, marker := 2, origin := some 0, segs := [⟨2, [65002]⟩] },
   .localAdd { (default : Cand) with pfx := 7, marker := 3, origin := some 0 },
   .ann 1 { (default : Cand) with pfx := 7, marker := 4, origin := some 0, segs := [⟨2, [65002, 65000]⟩] }]

example : ((wh.foldl step (init g0 [p0, p1])).ribOf 7).map (·.marker) = [3, 1] := by decide
example : ((wh.foldl step (init g0 [p0, p1])).peers.map (fun ps => ps.adj.entries.map (fun e => (e.r.marker, e.rejected))))
    = [[(1, false)], [(4, true)]] := by decide
example : (((wh ++ [WOp.del 0]).foldl step (init g0 [p0, p1])).ribOf 7).map (·.marker) = [3] := by decide

end C02
