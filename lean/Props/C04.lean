import Model.Wire
import Lemmas.Wire
import Model.WireMP
import Lemmas.WireMP
/-!
# C04 — BGP wire codec: encode and decode are mutually inverse and agree on framing

Everything here is about `Model/Wire.lean`, the hand-written mirror of gobgp's codec for:
the 19-octet header, KEEPALIVE, NOTIFICATION, ROUTE-REFRESH, UPDATE framing with IPv4 prefixes
(with / without ADD-PATH path ids), the attribute header with the extended-length rule and the flag
validation, ORIGIN, AS_PATH (2- and 4-octet), NEXT_HOP, MED, LOCAL_PREF, ATOMIC_AGGREGATE, AGGREGATOR,
COMMUNITIES, ORIGINATOR_ID, CLUSTER_LIST, AS4_PATH, AS4_AGGREGATOR, LARGE_COMMUNITY and unknown
attributes, under the options {ADD-PATH rx/tx for IPv4 unicast, 2-octet AS, extended message}.
OPEN/capabilities, MP_REACH/MP_UNREACH and all other families/attributes are NOT in the model: for
those only the Go-side round-trip oracle of the harness runs (sampling, `correspondence_only`).

`serialize` returns the octets AND the object as `BGPMessage.Serialize` leaves it (it fills in
Header.Len, WithdrawnRoutesLen, TotalPathAttributeLen); `parse` is `ParseBGPMessage`.
-/
namespace C04
open Wire

/-- Well-formed message: the explicit side conditions under which the codec round-trips.
    * every IPv4 prefix is masked, ≤ 32 bits, path id < 2^32 and 0 when ADD-PATH is off;
    * every attribute: cached Flags/Type/Length agree with the value (`Length = |value| < 2^16`,
      extended-length flag set when `Length > 255`), flags acceptable to validatePathAttributeFlags,
      type code matches the Go type, numeric fields in range, AS segments of 1..255 ASes whose
      width matches the session (4-octet unless Use2ByteAS), segment type 1..4;
    * withdrawn block and attribute block each < 2^16 octets;
    * Header.Len is 0 (to be computed) or already the true length. -/
def MsgWF (o : Opts) (m : Msg) : Prop :=
  m.typ < 256 ∧ BodyWF o m.typ m.body ∧
  (m.hlen = 0 ∨ (m.hlen = 19 + (encBody o m.body).length ∧ m.hlen < 65536))

/-- `fits_or_error`: BGPMessage.Serialize fails exactly when it has to compute the length and the
    message exceeds 4096 octets (65535 for UPDATE / NOTIFICATION / ROUTE-REFRESH with the
    extended-message option). -/
theorem fits_or_error (o : Opts) (m : Msg) :
    serialize o m = none ↔ (m.hlen = 0 ∧ 19 + (encBody o m.body).length > maxLen o m.typ) := by
  unfold serialize
  by_cases h0 : m.hlen = 0
  · by_cases h1 : 19 + (encBody o m.body).length > maxLen o m.typ <;> simp [h0, h1]
  · simp [h0]

theorem maxLen_le (o : Opts) (t : Nat) : maxLen o t ≤ 65535 := by
  unfold maxLen; split <;> omega

/-- what Serialize does to the object: Header.Len and the two UPDATE length fields are filled in -/
theorem serialize_object {o : Opts} {m m' : Msg} {bs : Bytes} (h : serialize o m = some (bs, m')) :
    m'.typ = m.typ ∧ m'.body = normBody o m.body ∧
    bs = encHeader m'.hlen m.typ ++ encBody o m.body ∧
    (m.hlen = 0 → m'.hlen = 19 + (encBody o m.body).length ∧ m'.hlen ≤ maxLen o m.typ) ∧
    (m.hlen ≠ 0 → m'.hlen = m.hlen) := by
  unfold serialize at h
  by_cases h0 : m.hlen = 0
  · by_cases h1 : 19 + (encBody o m.body).length > maxLen o m.typ
    · simp [h0, h1] at h
    · simp [h0, h1] at h
      obtain ⟨hb, hm⟩ := h
      subst hm; subst hb
      simp; omega
  · simp [h0] at h
    obtain ⟨hb, hm⟩ := h
    subst hm; subst hb
    simp [h0]

/-- **decode_encode** — for every option set with matching ADD-PATH send/receive bits and every
    well-formed message, the octets `Serialize` emits (followed by anything, e.g. the next message
    in the stream) parse back to exactly the object `Serialize` left behind. -/
theorem decode_encode (o : Opts) (m m' : Msg) (bs trailing : Bytes)
    (hap : o.apRx = o.apTx) (wf : MsgWF o m) (hs : serialize o m = some (bs, m'))
    (h64 : (bs ++ trailing).length < 65536) :
    parse o (bs ++ trailing) = .ok m' := by
  obtain ⟨ht, hb, hl⟩ := wf
  obtain ⟨e1, e2, e3, e4, e5⟩ := serialize_object hs
  have hlen : m'.hlen = 19 + (encBody o m.body).length := by
    by_cases h0 : m.hlen = 0
    · exact (e4 h0).1
    · rw [e5 h0]; rcases hl with hl | hl
      · exact absurd hl h0
      · exact hl.1
  subst e3
  have := parse_enc (o := o) (len := m'.hlen) (typ := m.typ) (b := encBody o m.body)
    (trailing := trailing) hlen h64 ht
  rw [this, decBody_enc hap hb]
  cases m'; simp_all

/-- Serialising the object that `Serialize` left behind gives the same octets and changes nothing:
    `encode ∘ decode ∘ encode = encode` (with `decode_encode`: re-serialising the parsed message is
    a fixpoint). -/
theorem encode_decode_fix (o : Opts) (m m' : Msg) (bs : Bytes) (wf : MsgWF o m)
    (hs : serialize o m = some (bs, m')) : serialize o m' = some (bs, m') := by
  obtain ⟨ht, hb, hl⟩ := wf
  obtain ⟨e1, e2, e3, e4, e5⟩ := serialize_object hs
  have hlen : m'.hlen = 19 + (encBody o m.body).length := by
    by_cases h0 : m.hlen = 0
    · exact (e4 h0).1
    · rw [e5 h0]; rcases hl with hl | hl
      · exact absurd hl h0
      · exact hl.1
  have hne : m'.hlen ≠ 0 := by omega
  have hbody : encBody o (normBody o m.body) = encBody o m.body := by
    cases m.body <;> simp [normBody, encBody, encUpdate, normUpdate]
  have hnn : normBody o (normBody o m.body) = normBody o m.body := by
    cases m.body <;> simp [normBody, normUpdate]
  unfold serialize
  simp only [hne, if_false, e2, hbody, hnn, e1]
  subst e3
  cases m'; simp_all

/-- **len_eq_emit** (attributes): `PathAttribute.Len()` (derived from the cached header) equals
    the number of octets `Serialize` emits. -/
theorem len_eq_emit_attr (o : Opts) (a : Attr) (wf : AttrWF o a) : attrLen a = (encAttr a).length :=
  (encAttr_length wf).symm

/-- **len_eq_emit** (IPv4 NLRI, with or without path id) -/
theorem len_eq_emit_nlri (ap : Bool) (n : PathNLRI) (wf : NlriWF ap n) :
    nlriLen ap n = (encNlri ap n).length := (encNlri_length wf).symm

/-- **decode_consumes_len** (attributes): decoding an attribute that is followed by arbitrary
    octets yields the attribute, and advancing by its `Len()` lands exactly on those octets. -/
theorem decode_consumes_len_attr (o : Opts) (a : Attr) (rest : Bytes) (wf : AttrWF o a) :
    decAttr o (encAttr a ++ rest) = .ok a ∧ (encAttr a ++ rest).drop (attrLen a) = rest := by
  refine ⟨decAttr_enc wf rest, ?_⟩
  rw [← encAttr_length wf]; exact drop_append_len _ _

/-- **decode_consumes_len** (IPv4 prefix) -/
theorem decode_consumes_len_prefix (p : Prefix) (rest : Bytes) (wf : p.wf = true) :
    decPrefix (encPrefix p ++ rest) = some p ∧ (encPrefix p ++ rest).drop (prefixLen p) = rest := by
  refine ⟨decPrefix_encPrefix wf rest, ?_⟩
  rw [← encPrefix_length wf]; exact drop_append_len _ _

/-- framing of a whole attribute block: the loop of BGPUpdate.DecodeFromBytes driven by the
    `pathlen` counter recovers the list and stops exactly at the NLRI field -/
theorem attrs_framing (o : Opts) (as : List Attr) (rest : Bytes) (wf : ∀ a ∈ as, AttrWF o a)
    (h : (encAttrs as).length < 65536) :
    decAttrs o (encAttrs as).length (encAttrs as).length (encAttrs as ++ rest) = .ok (as, rest) :=
  decAttrs_enc o as _ rest wf (Nat.le_refl _) h


/-! ## What the library's constructors build is well-formed (under the stated argument bounds) -/

/-- closes the constant side conditions of the constructor lemmas by evaluation -/
local macro "wfc" : tactic => `(tactic|
  (simp [mkOrigin, mkAsPath, mkAs4Path, mkNextHop, mkMed, mkLocalPref, mkAtomicAgg, mkAggregator,
     mkAs4Aggregator, mkOriginatorId, mkCommunities, mkClusterList, mkLargeComm, mkUpdate,
     mkNotification, mkKeepalive, mkRouteRefresh, validateFlags, hasBit, pathAttrFlags,
     FLAG_EXT, FLAG_OPT, FLAG_TRANS, FLAG_PARTIAL, encBody]))

theorem mkSeg_wf (w4 : Bool) (typ : Nat) (as : List Nat) (ht : 1 ≤ typ ∧ typ ≤ 4)
    (hl : 1 ≤ as.length ∧ as.length ≤ 255) (hb : ∀ a ∈ as, a < asBound w4) :
    SegWF w4 (mkSeg w4 typ as) := by
  refine ⟨rfl, ht.1, ht.2, ?_, hl.1, hl.2, hb⟩
  simp [mkSeg]; omega

theorem flags_list_attr (t l : Nat) (ht : t = 2 ∨ t = 8 ∨ t = 10 ∨ t = 17 ∨ t = 32) (hl : l < 65536) :
    getPathAttrFlags t l < 256 ∧ (hasBit (getPathAttrFlags t l) FLAG_EXT = true ∨ l % 65536 ≤ 255) ∧
    validateFlags t (getPathAttrFlags t l) = true := by
  have hm : l % 65536 = l := Nat.mod_eq_of_lt hl
  rw [hm]
  by_cases h : l > 255 <;> rcases ht with ht | ht | ht | ht | ht <;> subst ht <;>
    simp [getPathAttrFlags, pathAttrFlags, h, FLAG_EXT, validateFlags, hasBit, FLAG_OPT, FLAG_TRANS,
      FLAG_PARTIAL] <;> omega

theorem mkOrigin_wf (o : Opts) (v : Nat) (h : v < 256) : AttrWF o (mkOrigin v) := by
  refine ⟨by wfc, by wfc, rfl, by wfc, Or.inr (by wfc), by wfc, rfl, h⟩

theorem mkAsPath_wf (o : Opts) (segs : List Seg) (h : ∀ s ∈ segs, SegWF (!o.use2) s)
    (hl : segsLen segs < 65536) : AttrWF o (mkAsPath segs) := by
  have hf := flags_list_attr 2 (segsLen segs) (Or.inl rfl) hl
  have he := encSegs_length segs h
  refine ⟨hf.1, by wfc, ?_, ?_, hf.2.1, hf.2.2, rfl, h⟩
  · simp [mkAsPath, encVal, he, Nat.mod_eq_of_lt hl]
  · simp [mkAsPath]; omega

theorem mkAs4Path_wf (o : Opts) (segs : List Seg) (h : ∀ s ∈ segs, SegWF true s)
    (hl : segsLen segs < 65536) : AttrWF o (mkAs4Path segs) := by
  have hf := flags_list_attr 17 (segsLen segs) (by simp) hl
  have he := encSegs_length segs h
  refine ⟨hf.1, by wfc, ?_, ?_, hf.2.1, hf.2.2, rfl, h⟩
  · simp [mkAs4Path, encVal, he, Nat.mod_eq_of_lt hl]
  · simp [mkAs4Path]; omega

theorem mkNextHop_wf (o : Opts) (addr : Bytes) (h : addr.length = 4 ∨ addr.length = 16) :
    AttrWF o (mkNextHop addr) := by
  rcases h with h | h <;>
    exact ⟨by wfc, by wfc, by simp [mkNextHop, encVal, h], by simp [mkNextHop, h],
      Or.inr (by simp [mkNextHop, h]), by wfc, rfl, by simp [h]⟩

theorem mkMed_wf (o : Opts) (v : Nat) (h : v < 4294967296) : AttrWF o (mkMed v) :=
  ⟨by wfc, by wfc, rfl, by wfc, Or.inr (by wfc), by wfc, rfl, h⟩

theorem mkLocalPref_wf (o : Opts) (v : Nat) (h : v < 4294967296) : AttrWF o (mkLocalPref v) :=
  ⟨by wfc, by wfc, rfl, by wfc, Or.inr (by wfc), by wfc, rfl, h⟩

theorem mkAtomicAgg_wf (o : Opts) : AttrWF o mkAtomicAgg :=
  ⟨by wfc, by wfc, rfl, by wfc, Or.inr (by wfc), by wfc, rfl⟩

theorem mkAggregator_wf (o : Opts) (as4 : Bool) (as addr : Nat) (ha : as < asBound as4)
    (hd : addr < 4294967296) : AttrWF o (mkAggregator as4 as addr) := by
  cases as4 <;>
    exact ⟨by wfc, by wfc, rfl, by wfc, Or.inr (by wfc), by wfc, rfl, ha, hd⟩

theorem mkAs4Aggregator_wf (o : Opts) (as addr : Nat) (ha : as < 4294967296)
    (hd : addr < 4294967296) : AttrWF o (mkAs4Aggregator as addr) :=
  ⟨by wfc, by wfc, rfl, by wfc, Or.inr (by wfc), by wfc, rfl, ha, hd⟩

theorem mkOriginatorId_wf (o : Opts) (a : Nat) (h : a < 4294967296) : AttrWF o (mkOriginatorId a) :=
  ⟨by wfc, by wfc, rfl, by wfc, Or.inr (by wfc), by wfc, rfl, h⟩

theorem mkCommunities_wf (o : Opts) (vs : List Nat) (h : ∀ v ∈ vs, v < 4294967296)
    (hl : vs.length * 4 < 65536) : AttrWF o (mkCommunities vs) := by
  have hf := flags_list_attr 8 (vs.length * 4) (by simp) hl
  refine ⟨hf.1, by wfc, ?_, ?_, hf.2.1, hf.2.2, rfl, h⟩
  · simp [mkCommunities, encVal, encU32s_length, Nat.mod_eq_of_lt hl]
  · simp [mkCommunities]; omega

theorem mkClusterList_wf (o : Opts) (vs : List Nat) (h : ∀ v ∈ vs, v < 4294967296)
    (hl : vs.length * 4 < 65536) : AttrWF o (mkClusterList vs) := by
  have hf := flags_list_attr 10 (vs.length * 4) (by simp) hl
  refine ⟨hf.1, by wfc, ?_, ?_, hf.2.1, hf.2.2, rfl, h⟩
  · simp [mkClusterList, encVal, encU32s_length, Nat.mod_eq_of_lt hl]
  · simp [mkClusterList]; omega

theorem mkLargeComm_wf (o : Opts) (vs : List (Nat × Nat × Nat)) (h : ∀ v ∈ vs, TripleWF v)
    (hl : vs.length * 12 < 65536) : AttrWF o (mkLargeComm vs) := by
  have hf := flags_list_attr 32 (vs.length * 12) (by simp) hl
  refine ⟨hf.1, by wfc, ?_, ?_, hf.2.1, hf.2.2, rfl, h⟩
  · simp [mkLargeComm, encVal, encLarge_length, Nat.mod_eq_of_lt hl]
  · simp [mkLargeComm]; omega

/-- NewPathAttributeUnknown: any type code no decoder claims, any flag octet the validator accepts -/
theorem mkUnknown_wf (o : Opts) (flags typ : Nat) (value : Bytes) (hf : flags < 256) (ht : typ < 256)
    (hu : pathAttrFlags typ = none) (hl : value.length < 65536)
    (hv : validateFlags typ flags = true) : AttrWF o (mkUnknown flags typ value) := by
  have hm : value.length % 65536 = value.length := Nat.mod_eq_of_lt hl
  by_cases hgt : value.length > 255
  · by_cases hb : hasBit flags FLAG_EXT = true
    · refine ⟨?_, ht, ?_, ?_, Or.inl ?_, ?_, hu⟩ <;> simp [mkUnknown, hgt, hb, encVal, hm] <;>
        first | omega | assumption
    · have hb' : hasBit flags FLAG_EXT = false := by simpa using hb
      have h16 : flags / 16 % 2 = 0 := by
        by_cases h1 : flags / 16 % 2 = 1
        · have h := hb'
          simp [hasBit, FLAG_EXT, h1] at h
        · omega
      have hfl : (mkUnknown flags typ value).flags = flags + 16 := by
        have hb2 : hasBit flags 16 = false := hb'
        simp only [mkUnknown, hgt, hb2, FLAG_EXT, decide_true, Bool.not_false, Bool.and_self, if_true]
      have hln : (mkUnknown flags typ value).length = value.length := by simp [mkUnknown, hm]
      have a0 : (flags + 16) / 16 % 2 = 1 := by omega
      have a1 : (flags + 16) / 128 % 2 = flags / 128 % 2 := by omega
      have a2 : (flags + 16) / 64 % 2 = flags / 64 % 2 := by omega
      have a3 : (flags + 16) / 32 % 2 = flags / 32 % 2 := by omega
      refine ⟨?_, ht, ?_, ?_, Or.inl ?_, ?_, hu⟩
      · rw [hfl]; omega
      · rw [hln]; simp [mkUnknown, encVal]
      · rw [hln]; exact hl
      · rw [hfl]; simp only [hasBit, FLAG_EXT, a0, decide_true]
      · rw [hfl]
        have ht' : (mkUnknown flags typ value).typ = typ := rfl
        rw [ht']
        simp only [validateFlags, hu, hasBit, FLAG_OPT, FLAG_TRANS, FLAG_PARTIAL] at hv ⊢
        simp only [a1, a2, a3]; exact hv
  · refine ⟨?_, ht, ?_, ?_, Or.inr ?_, ?_, hu⟩ <;> simp [mkUnknown, hgt, encVal, hm] <;>
      first | omega | assumption

/-- NewBGPUpdateMessage / NewBGPNotificationMessage / NewBGPKeepAliveMessage /
    NewBGPRouteRefreshMessage build well-formed messages from well-formed parts -/
theorem mkUpdate_wf (o : Opts) (w : List PathNLRI) (as : List Attr) (n : List PathNLRI)
    (h : UpdateWF o ⟨0, w, 0, as, n⟩) : MsgWF o (mkUpdate w as n) :=
  ⟨by wfc, ⟨rfl, h⟩, Or.inl rfl⟩

theorem mkNotification_wf (o : Opts) (c s : Nat) (d : Bytes) (hc : c < 256) (hs : s < 256) :
    MsgWF o (mkNotification c s d) := ⟨by wfc, ⟨rfl, hc, hs⟩, Or.inl rfl⟩

theorem mkKeepalive_wf (o : Opts) : MsgWF o mkKeepalive :=
  ⟨by wfc, rfl, Or.inr ⟨rfl, by wfc⟩⟩

theorem mkRouteRefresh_wf (o : Opts) (afi d s : Nat) (ha : afi < 65536) (hd : d < 256) (hs : s < 256) :
    MsgWF o (mkRouteRefresh afi d s) := ⟨by wfc, ⟨rfl, ha, hd, hs⟩, Or.inl rfl⟩


/-! ## The well-formedness predicates are decidable -/

instance (ap : Bool) (n : PathNLRI) : Decidable (NlriWF ap n) :=
  inferInstanceAs (Decidable (n.pfx.wf = true ∧ n.id < 4294967296 ∧ (ap = false → n.id = 0)))
instance (t : Nat × Nat × Nat) : Decidable (TripleWF t) :=
  inferInstanceAs (Decidable (t.1 < 4294967296 ∧ t.2.1 < 4294967296 ∧ t.2.2 < 4294967296))
instance (w4 : Bool) (s : Seg) : Decidable (SegWF w4 s) :=
  inferInstanceAs (Decidable (s.w4 = w4 ∧ 1 ≤ s.typ ∧ s.typ ≤ 4 ∧ s.num = s.as.length ∧
    1 ≤ s.as.length ∧ s.as.length ≤ 255 ∧ ∀ a ∈ s.as, a < asBound w4))
instance (o : Opts) (typ : Nat) : (v : AttrVal) → Decidable (ValWF o typ v)
  | .origin v => inferInstanceAs (Decidable (typ = 1 ∧ v < 256))
  | .asPath segs => inferInstanceAs (Decidable (typ = 2 ∧ ∀ s ∈ segs, SegWF (!o.use2) s))
  | .nextHop a => inferInstanceAs (Decidable (typ = 3 ∧ (a.length = 4 ∨ a.length = 16)))
  | .med v => inferInstanceAs (Decidable (typ = 4 ∧ v < 4294967296))
  | .localPref v => inferInstanceAs (Decidable (typ = 5 ∧ v < 4294967296))
  | .atomicAgg => inferInstanceAs (Decidable (typ = 6))
  | .aggregator as4 as addr => inferInstanceAs (Decidable (typ = 7 ∧ as < asBound as4 ∧ addr < 4294967296))
  | .communities vs => inferInstanceAs (Decidable (typ = 8 ∧ ∀ v ∈ vs, v < 4294967296))
  | .originatorId a => inferInstanceAs (Decidable (typ = 9 ∧ a < 4294967296))
  | .clusterList ids => inferInstanceAs (Decidable (typ = 10 ∧ ∀ v ∈ ids, v < 4294967296))
  | .as4Path segs => inferInstanceAs (Decidable (typ = 17 ∧ ∀ s ∈ segs, SegWF true s))
  | .as4Aggregator as addr => inferInstanceAs (Decidable (typ = 18 ∧ as < 4294967296 ∧ addr < 4294967296))
  | .largeComm vs => inferInstanceAs (Decidable (typ = 32 ∧ ∀ v ∈ vs, TripleWF v))
  | .unknown _ => inferInstanceAs (Decidable (pathAttrFlags typ = none))
instance (o : Opts) (a : Attr) : Decidable (AttrWF o a) :=
  inferInstanceAs (Decidable (a.flags < 256 ∧ a.typ < 256 ∧ a.length = (encVal a.val).length ∧
    a.length < 65536 ∧ (hasBit a.flags FLAG_EXT = true ∨ a.length ≤ 255) ∧
    validateFlags a.typ a.flags = true ∧ ValWF o a.typ a.val))
instance (o : Opts) (u : Update) : Decidable (UpdateWF o u) :=
  inferInstanceAs (Decidable ((∀ n ∈ u.withdrawn, NlriWF o.apTx n) ∧ (∀ n ∈ u.nlri, NlriWF o.apTx n) ∧
    (∀ a ∈ u.attrs, AttrWF o a) ∧
    (encNlris o.apTx u.withdrawn).length < 65536 ∧ (encAttrs u.attrs).length < 65536))
instance (o : Opts) (typ : Nat) : (b : Body) → Decidable (BodyWF o typ b)
  | .update u => inferInstanceAs (Decidable (typ = 2 ∧ UpdateWF o u))
  | .notification c s _ => inferInstanceAs (Decidable (typ = 3 ∧ c < 256 ∧ s < 256))
  | .keepalive => inferInstanceAs (Decidable (typ = 4))
  | .routeRefresh afi d s => inferInstanceAs (Decidable (typ = 5 ∧ afi < 65536 ∧ d < 256 ∧ s < 256))
  | .openRaw _ => inferInstanceAs (Decidable False)
instance (o : Opts) (m : Msg) : Decidable (MsgWF o m) :=
  inferInstanceAs (Decidable (m.typ < 256 ∧ BodyWF o m.typ m.body ∧
    (m.hlen = 0 ∨ (m.hlen = 19 + (encBody o m.body).length ∧ m.hlen < 65536))))

/-! ## Non-vacuity: a non-trivial inhabitant of every hypothesis -/

set_option maxRecDepth 20000

/-- ADD-PATH both ways, 4-octet AS, extended message -/
def exOpts : Opts := ⟨true, true, false, true⟩

/-- withdraw 10.1.2.0/24 (id 7); announce 10.0.0.1/32 (id 1) and 172.16.0.0/12 (id 2) with ORIGIN,
    a two-segment 4-octet AS_PATH, NEXT_HOP, MED, AGGREGATOR, COMMUNITIES, LARGE_COMMUNITY and an
    unknown optional transitive attribute carrying the partial bit -/
def exMsg : Msg :=
  mkUpdate [⟨7, ⟨24, [10, 1, 2, 0]⟩⟩]
    [mkOrigin 0, mkAsPath [mkSeg true 2 [65001, 4200000000], mkSeg true 1 [64512]],
     mkNextHop [192, 0, 2, 1], mkMed 4294967295, mkAggregator true 4200000000 3232235777,
     mkCommunities [4259840100, 4294967041], mkLargeComm [(4200000000, 1, 2)],
     mkUnknown 224 200 [1, 2, 3]]
    [⟨1, ⟨32, [10, 0, 0, 1]⟩⟩, ⟨2, ⟨12, [172, 16, 0, 0]⟩⟩]

example : MsgWF exOpts exMsg := by decide
example : exOpts.apRx = exOpts.apTx := rfl
example : ∃ bs m', serialize exOpts exMsg = some (bs, m') ∧ (bs ++ [255, 255]).length < 65536 ∧
    parse exOpts (bs ++ [255, 255]) = .ok m' ∧ m'.hlen = bs.length := by
  refine ⟨_, _, rfl, by decide, by decide, by decide⟩
example : AttrWF exOpts (mkCommunities [4259840100, 4294967041]) := by decide
example : NlriWF true ⟨7, ⟨24, [10, 1, 2, 0]⟩⟩ := by decide
example : (⟨24, [10, 1, 2, 0]⟩ : Prefix).wf = true := by decide
example : ∀ a ∈ [mkOrigin 0, mkMed 5], AttrWF exOpts a := by decide
example : MsgWF exOpts (mkNotification 6 2 [1, 2]) ∧ MsgWF exOpts mkKeepalive ∧
    MsgWF exOpts (mkRouteRefresh 2 0 1) := by decide

/-! ## Where well-formedness is needed: constructible objects outside `MsgWF` do not round-trip.
    These are argument errors of the caller, not defects of the codec; they delimit the theorem. -/

/-- an AS_PATH segment with no AS (`NewAs4PathParam(2, nil)`) serialises, and the parser rejects it
    ("AS PATH segment has zero AS count") -/
theorem empty_segment_counterexample :
    ∃ bs m', serialize exOpts (mkUpdate [] [mkAsPath [mkSeg true 2 []]] []) = some (bs, m') ∧
      parse exOpts bs = .reject := ⟨_, _, rfl, by decide⟩

/-- different ADD-PATH send / receive bits: what is sent with path ids is parsed without them -/
theorem asymmetric_addpath_counterexample :
    ∃ bs m', serialize ⟨false, true, false, false⟩ (mkUpdate [] [] [⟨1, ⟨32, [10, 0, 0, 1]⟩⟩]) = some (bs, m') ∧
      parse ⟨false, true, false, false⟩ bs ≠ .ok m' := ⟨_, _, rfl, by decide⟩

/-- 4-octet segments sent on a 2-octet session (the caller forgot the AS4 down-conversion) -/
theorem as4_on_2octet_session_counterexample :
    ∃ bs m', serialize ⟨false, false, true, false⟩
        (mkUpdate [] [mkAsPath [mkSeg true 2 [65001]]] []) = some (bs, m') ∧
      parse ⟨false, false, true, false⟩ bs ≠ .ok m' := ⟨_, _, rfl, by decide⟩

/-- a stale cached header (Length 4, value of 8 octets): Len() ≠ octets emitted — why `AttrWF`
    demands `length = |value|` (gobgp: table.UpdatePathAttrs4ByteAs, reported under C14) -/
theorem stale_length_counterexample :
    attrLen ⟨192, 8, 4, .communities [1, 2]⟩ ≠ (encAttr ⟨192, 8, 4, .communities [1, 2]⟩).length := by
  decide


/-! # Multiprotocol part (Model/WireMP.lean)

MP_REACH_NLRI / MP_UNREACH_NLRI as attributes and the NLRI codecs of IPv4 / IPv6 ×
{unicast, multicast, labelled unicast, VPN, VPN multicast}: IPAddrPrefix of either width,
MPLSLabelStack, RouteDistinguisher types 0/1/2/unknown, LabeledIPAddrPrefix, LabeledVPNIPAddrPrefix,
the next-hop forms 4 / 16 / 32 and (SAFI 128) 12 / 24 / 48, the reserved octet, the NLRI loop
advanced by Len(), ADD-PATH per family.  All other families remain oracle-only. -/

/-- **decode ∘ encode, Len, consumption** for one NLRI of a modelled family (w = 4 or 16):
    decoding the octets Serialize emits, followed by anything (the next NLRI), gives the NLRI back;
    Len() is the number of octets emitted; advancing by Len() lands exactly on what follows. -/
theorem nlri_decode_encode (w : Nat) (hw : w ≤ 16) (n : NlriX) (rest : Bytes) (wf : NlriXWF w n) :
    decNlriX (kindOf n) w (encNlriX n ++ rest) = some n ∧
    nlriXLen n = (encNlriX n).length ∧
    (encNlriX n ++ rest).drop (nlriXLen n) = rest := by
  refine ⟨decNlriX_enc hw wf rest, (encNlriX_length hw wf).symm, ?_⟩
  rw [← encNlriX_length hw wf]; exact drop_append_len _ _

/-- label stacks: Serialize then Decode is the identity on `LabelsWF`, and Len() = 3·depth octets -/
theorem labels_decode_encode (ls : List Nat) (rest : Bytes) (wf : LabelsWF ls) :
    decLabels true (encLabels ls ++ rest) = some ls ∧ (encLabels ls).length = labelsLen ls :=
  ⟨decLabels_enc wf rest, encLabels_length wf⟩

/-- route distinguishers of type 0, 1, 2 and of unknown type (6 opaque octets) -/
theorem rd_decode_encode (rd : RD) (rest : Bytes) (wf : RDWF rd) :
    decRD (encRD rd ++ rest) = rd ∧ (encRD rd).length = 8 := ⟨decRD_enc wf rest, encRD_length wf⟩

/-- **framing of the NLRI list** (the statement the seeded changes C04-C / C04-E violated): the
    loop of MP_REACH / MP_UNREACH, which advances by each decoded NLRI's Len() (+4 with ADD-PATH),
    recovers exactly the list, and the octets it walks over are the sum of those lengths. -/
theorem mp_nlri_framing (ap : Bool) (k : Kind) (w : Nat) (hw : w ≤ 16) (xs : List PathNlriX)
    (wf : ∀ x ∈ xs, PathNlriXWF ap k w x) :
    decNlriLoop ap k w (encPathNlrisX ap xs).length (encPathNlrisX ap xs) = some xs ∧
    (encPathNlrisX ap xs).length = sumPathLens ap xs :=
  ⟨decNlriLoop_enc hw xs _ wf (Nat.le_refl _), encPathNlrisX_length hw xs wf⟩

/-- **MP_REACH_NLRI**: decode ∘ encode (followed by arbitrary octets), Len() = octets emitted =
    octets consumed -/
theorem mp_reach_decode_encode (o : OptsX) (r : MpReach) (rest : Bytes) (wf : MpReachWF o r) :
    decAttrX o (encMpReach o r ++ rest) = .ok (.reach r) ∧
    attrXLen (.reach r) = (encMpReach o r).length ∧
    (encMpReach o r ++ rest).drop (attrXLen (.reach r)) = rest := by
  have hl : (encMpReach o r).length = attrXLen (.reach r) :=
    encMp_length (typ := 14) (by decide) wf.2.2.2.2.2
  refine ⟨decAttrX_encMpReach wf rest, hl.symm, ?_⟩
  rw [← hl]; exact drop_append_len _ _

/-- **MP_UNREACH_NLRI**: the same three facts -/
theorem mp_unreach_decode_encode (o : OptsX) (u : MpUnreach) (rest : Bytes) (wf : MpUnreachWF o u) :
    decAttrX o (encMpUnreach o u ++ rest) = .ok (.unreach u) ∧
    attrXLen (.unreach u) = (encMpUnreach o u).length ∧
    (encMpUnreach o u ++ rest).drop (attrXLen (.unreach u)) = rest := by
  have hl : (encMpUnreach o u).length = attrXLen (.unreach u) :=
    encMp_length (typ := 15) (by decide) wf.2.2.2.2
  refine ⟨decAttrX_encMpUnreach wf rest, hl.symm, ?_⟩
  rw [← hl]; exact drop_append_len _ _

/-- **attribute length field**: a well-formed MP attribute carries `Length` = value length and the
    extended-length flag whenever that exceeds 255, and that is what reaches the wire -/
theorem mp_length_field (o : OptsX) (r : MpReach) (wf : MpReachWF o r) :
    r.length = (encMpReachVal o r).length ∧ (r.length > 255 → hasBit r.flags FLAG_EXT = true) := by
  obtain ⟨_, _, _, _, _, _, hl, _, he, _⟩ := wf
  refine ⟨hl, fun hgt => ?_⟩
  rcases he with he | he
  · exact he
  · omega

/-- the part of the next hop field: Serialize then Decode is the identity on `NexthopWF`
    (IPv4; IPv6 global; global + link-local; each with the zero RD for SAFI 128) -/
theorem mp_nexthop_roundtrip (afi safi : Nat) (nh ll : Bytes) (wf : NexthopWF afi nh ll)
    (hs : safi ≠ 133 ∧ safi ≠ 134) :
    decNexthop safi (encNexthop afi safi nh ll).length (encNexthop afi safi nh ll) = some (nh, ll) :=
  (nexthop_roundtrip wf hs).2.2

/-! ## the constructor NewPathAttributeMpUnreachNLRI -/

theorem sumPathLens_false : ∀ xs : List PathNlriX, sumPathLens false xs = sumLens xs
  | [] => rfl
  | x :: xs => by simp [sumPathLens, sumLens, pathNlriXLen, sumPathLens_false xs]

theorem flags_mp_attr (t l : Nat) (ht : t = 14 ∨ t = 15) (hl : l < 65536) :
    getPathAttrFlags t l < 256 ∧ (hasBit (getPathAttrFlags t l) FLAG_EXT = true ∨ l % 65536 ≤ 255) ∧
    validateFlags t (getPathAttrFlags t l) = true := by
  have hm : l % 65536 = l := Nat.mod_eq_of_lt hl
  rw [hm]
  by_cases h : l > 255 <;> rcases ht with ht | ht <;> subst ht <;>
    simp [getPathAttrFlags, pathAttrFlags, h, FLAG_EXT, validateFlags, hasBit, FLAG_OPT, FLAG_TRANS,
      FLAG_PARTIAL] <;> omega

/-- NewPathAttributeMpUnreachNLRI builds a well-formed attribute when ADD-PATH is off for the family
    (with ADD-PATH the cached length omits the path ids: `mp_addpath_len_counterexample`) -/
theorem mkMpUnreach_wf (o : OptsX) (afi safi : Nat) (k : Kind) (w : Nat) (xs : List PathNlriX)
    (ha : afi < 65536) (hs : safi < 256) (hk : famKind afi safi = some (k, w))
    (hrx : apRxFor o afi safi = false) (htx : apTxFor o afi safi = false)
    (hx : ∀ x ∈ xs, PathNlriXWF false k w x) (hl : 3 + sumLens xs < 65536) :
    MpUnreachWF o (mkMpUnreach afi safi xs) := by
  have hw := (famKind_w hk).1
  have hlen := encPathNlrisX_length hw xs hx
  rw [sumPathLens_false] at hlen
  have hf := flags_mp_attr 15 (3 + sumLens xs) (Or.inr rfl) hl
  have hv : (encMpUnreachVal o (mkMpUnreach afi safi xs)).length = 3 + sumLens xs := by
    simp [encMpUnreachVal, mkMpUnreach, htx, be16_length, hlen]; omega
  refine ⟨ha, hs, ?_, ⟨k, w, hk, ?_⟩, hf.1, ?_, ?_, hf.2.1, hf.2.2⟩
  · simp [mkMpUnreach, hrx, htx]
  · simpa [mkMpUnreach, htx] using hx
  · rw [hv]; simp [mkMpUnreach, Nat.mod_eq_of_lt hl]
  · simp [mkMpUnreach]; omega

/-! ## the constructor NewPathAttributeMpReachNLRI -/

theorem mkMpReach_fields {afi safi : Nat} {nh ll : Bytes} (xs : List PathNlriX)
    (h : NexthopWF afi nh ll) (hs : safi ≠ 133 ∧ safi ≠ 134) :
    mkMpReach afi safi xs nh ll =
      ⟨getPathAttrFlags 14 (5 + (encNexthop afi safi nh ll).length + sumLens xs),
       (5 + (encNexthop afi safi nh ll).length + sumLens xs) % 65536, afi, safi, nh, ll, xs⟩ := by
  obtain ⟨hs1, hs2⟩ := hs
  rcases h with ⟨h4, ha, hl⟩ | ⟨h16, hl⟩
  · obtain ⟨a, b, c, d, rfl⟩ := list_len4 h4
    subst hl
    by_cases hv : safi = 128
    · subst hv
      simp [mkMpReach, encNexthop, ha, List.replicate]
    · simp [mkMpReach, encNexthop, ha, hs1, hs2, hv]
  · obtain ⟨a0, a1, a2, a3, a4, a5, a6, a7, a8, a9, a10, a11, a12, a13, a14, a15, rfl⟩ := list_len16 h16
    rcases hl with hl | ⟨hl16, hll⟩
    · subst hl
      have hnl : isLinkLocal [] = false := by simp [isLinkLocal]
      by_cases hv : safi = 128
      · subst hv
        simp [mkMpReach, encNexthop, as16, hnl, List.replicate]
      · simp [mkMpReach, encNexthop, as16, hnl, hs1, hs2, hv]
    · obtain ⟨b0, b1, b2, b3, b4, b5, b6, b7, b8, b9, b10, b11, b12, b13, b14, b15, rfl⟩ := list_len16 hl16
      by_cases hv : safi = 128
      · subst hv
        simp [mkMpReach, encNexthop, as16, hll, List.replicate]
      · simp [mkMpReach, encNexthop, as16, hll, hs1, hs2, hv, List.replicate]

/-- NewPathAttributeMpReachNLRI builds a well-formed attribute (cached Length = value length,
    extended-length flag iff > 255) for every next-hop form, when ADD-PATH is off for the family -/
theorem mkMpReach_wf (o : OptsX) (afi safi : Nat) (k : Kind) (w : Nat) (xs : List PathNlriX)
    (nh ll : Bytes) (ha : afi < 65536) (hs : safi < 256) (hk : famKind afi safi = some (k, w))
    (hrx : apRxFor o afi safi = false) (htx : apTxFor o afi safi = false)
    (hnh : NexthopWF afi nh ll) (hx : ∀ x ∈ xs, PathNlriXWF false k w x)
    (hl : 5 + (encNexthop afi safi nh ll).length + sumLens xs < 65536) :
    MpReachWF o (mkMpReach afi safi xs nh ll) := by
  have hfw := famKind_w hk
  have hw := hfw.1
  rw [mkMpReach_fields xs hnh hfw.2]
  have hlen := encPathNlrisX_length hw xs hx
  rw [sumPathLens_false] at hlen
  have hn := (nexthop_roundtrip (safi := safi) hnh hfw.2).1
  have hf := flags_mp_attr 14 (5 + (encNexthop afi safi nh ll).length + sumLens xs) (Or.inl rfl) hl
  refine ⟨ha, hs, ?_, hnh, ⟨k, w, hk, ?_⟩, hf.1, ?_, ?_, hf.2.1, hf.2.2⟩
  · simp [hrx, htx]
  · simpa [htx] using hx
  · simp [encMpReachVal, htx, be16_length, hlen, Nat.mod_eq_of_lt hl]; omega
  · exact Nat.mod_lt _ (by decide)

/-! ## decidability and non-vacuity of the new predicates -/

instance (ls : List Nat) : Decidable (LabelsWF ls) :=
  inferInstanceAs (Decidable (ls = [WITHDRAW_LABEL] ∨
    (ls ≠ [] ∧ (∀ l ∈ ls, l < 1048576) ∧ ∀ l ∈ ls.dropLast, l ≠ 0 ∧ l ≠ 524288)))
instance : (rd : RD) → Decidable (RDWF rd)
  | .as2 a b => inferInstanceAs (Decidable (a < 65536 ∧ b < 4294967296))
  | .ip4 a b => inferInstanceAs (Decidable (a < 4294967296 ∧ b < 65536))
  | .as4 a b => inferInstanceAs (Decidable (a < 4294967296 ∧ b < 65536))
  | .unknown t v => inferInstanceAs (Decidable (3 ≤ t ∧ t < 65536 ∧ v.length = 6))
instance (w : Nat) : (n : NlriX) → Decidable (NlriXWF w n)
  | .ip p => inferInstanceAs (Decidable (p.wfW w = true))
  | .labelled ls p => inferInstanceAs (Decidable (LabelsWF ls ∧ p.wfW w = true ∧ 8 * labelsLen ls + p.bits ≤ 255))
  | .vpn ls rd p => inferInstanceAs (Decidable (LabelsWF ls ∧ RDWF rd ∧ p.wfW w = true ∧
      8 * (labelsLen ls + 8) + p.bits ≤ 255))
instance (ap : Bool) (k : Kind) (w : Nat) (x : PathNlriX) : Decidable (PathNlriXWF ap k w x) :=
  inferInstanceAs (Decidable (kindOf x.n = k ∧ NlriXWF w x.n ∧ x.id < 4294967296 ∧ (ap = false → x.id = 0)))
instance (afi : Nat) (nh ll : Bytes) : Decidable (NexthopWF afi nh ll) :=
  inferInstanceAs (Decidable ((nh.length = 4 ∧ afi ≠ 2 ∧ ll = []) ∨
    (nh.length = 16 ∧ (ll = [] ∨ (ll.length = 16 ∧ isLinkLocal ll = true)))))
instance (t f l : Nat) (v : Bytes) : Decidable (HdrWF t f l v) :=
  inferInstanceAs (Decidable (f < 256 ∧ l = v.length ∧ l < 65536 ∧
    (hasBit f FLAG_EXT = true ∨ l ≤ 255) ∧ validateFlags t f = true))

/-- decidability of "the family is modelled and every NLRI is well-formed for it" -/
def decFam (a s : Nat) (P : Kind → Nat → Prop) [∀ k w, Decidable (P k w)] :
    Decidable (∃ k w, famKind a s = some (k, w) ∧ P k w) :=
  match h : famKind a s with
  | some (k, w) =>
    if hp : P k w then isTrue ⟨k, w, rfl, hp⟩
    else isFalse (by
      rintro ⟨k', w', e, hp'⟩
      cases e
      exact hp hp')
  | none => isFalse (by rintro ⟨_, _, e, _⟩; cases e)

instance (o : OptsX) (u : MpUnreach) : Decidable (MpUnreachWF o u) :=
  have := decFam u.afi u.safi (fun k w => ∀ x ∈ u.nlri, PathNlriXWF (apTxFor o u.afi u.safi) k w x)
  inferInstanceAs (Decidable (u.afi < 65536 ∧ u.safi < 256 ∧ apRxFor o u.afi u.safi = apTxFor o u.afi u.safi ∧
    (∃ k w, famKind u.afi u.safi = some (k, w) ∧
      ∀ x ∈ u.nlri, PathNlriXWF (apTxFor o u.afi u.safi) k w x) ∧
    HdrWF 15 u.flags u.length (encMpUnreachVal o u)))
instance (o : OptsX) (r : MpReach) : Decidable (MpReachWF o r) :=
  have := decFam r.afi r.safi (fun k w => ∀ x ∈ r.nlri, PathNlriXWF (apTxFor o r.afi r.safi) k w x)
  inferInstanceAs (Decidable (r.afi < 65536 ∧ r.safi < 256 ∧ apRxFor o r.afi r.safi = apTxFor o r.afi r.safi ∧
    NexthopWF r.afi r.nh r.ll ∧
    (∃ k w, famKind r.afi r.safi = some (k, w) ∧
      ∀ x ∈ r.nlri, PathNlriXWF (apTxFor o r.afi r.safi) k w x) ∧
    HdrWF 14 r.flags r.length (encMpReachVal o r)))

/-- ADD-PATH both ways for VPNv6 -/
def exOptsX : OptsX := ⟨⟨false, false, false, true⟩, [⟨2, 128, true, true⟩]⟩
def exVpn6 : NlriX := .vpn [100, 1048575] (.as4 4200000000 7) ⟨64, [0x20, 1, 0xd, 0xb8, 0, 0, 0, 1, 0, 0, 0, 0, 0, 0, 0, 0]⟩
def exLab4 : NlriX := .labelled [16, 17, 0] ⟨23, [10, 1, 2, 0]⟩
/-- VPNv6 MP_REACH with global + link-local next hop (48 octets with the RDs), two NLRIs with path ids;
    its header is what a decoder reports for these octets -/
def exReach : MpReach :=
  ⟨128, 96, 2, 128, [0x20, 1, 0xd, 0xb8, 0, 0, 0, 0, 0, 0, 0, 0, 0, 0, 0, 1],
   [0xfe, 0x80, 0, 0, 0, 0, 0, 0, 0, 0, 0, 0, 0, 0, 0, 1],
   [⟨7, exVpn6⟩, ⟨4294967295, .vpn [8388608] (.unknown 9 [1, 2, 3, 4, 5, 6]) ⟨0, [0, 0, 0, 0, 0, 0, 0, 0, 0, 0, 0, 0, 0, 0, 0, 0]⟩⟩]⟩

example : NlriXWF 16 exVpn6 := by decide
example : NlriXWF 4 exLab4 := by decide
example : LabelsWF [8388608] ∧ LabelsWF [16, 0] ∧ RDWF (.ip4 3232235777 9) := by decide
example : MpReachWF exOptsX exReach := by decide
example : MpUnreachWF exOptsX (mkMpUnreach 1 4 [⟨0, exLab4⟩]) := by decide
example : ∃ k w, famKind 2 128 = some (k, w) ∧ w ≤ 16 ∧ ∀ x ∈ exReach.nlri, PathNlriXWF true k w x :=
  ⟨.vpn, 16, rfl, by decide, by decide⟩
example : NexthopWF 2 exReach.nh exReach.ll ∧ NexthopWF 1 [192, 0, 2, 1] [] := by decide

/-! ## where the codec is not canonical or the hypotheses are needed (proved on witnesses) -/

/-- `encode (decode bs) = bs` fails for a prefix with non-zero padding bits: 1.255…/7 is accepted,
    stored as 254.0.0.0/7 and re-emitted as 07 fe -/
theorem prefix_padding_counterexample :
    decPrefixW 4 [7, 255] = some ⟨7, [254, 0, 0, 0]⟩ ∧ encPrefix ⟨7, [254, 0, 0, 0]⟩ ≠ [7, 255] := by decide

/-- …and holds whenever the padding bits are clear (the decoder's masking is then the identity) -/
theorem prefix_canonical_partial (w l : Nat) (rest : Bytes) (p : Prefix) (hl : l < 256)
    (hd : decPrefixW w (l :: rest) = some p)
    (hclear : maskLast l (rest.take (byteLen l) ++ List.replicate (w - byteLen l) 0)
        = rest.take (byteLen l) ++ List.replicate (w - byteLen l) 0) :
    encPrefix p = l :: rest.take (byteLen l) := by
  simp only [decPrefixW, decodePrefixW] at hd
  by_cases c1 : rest.length < byteLen l
  · simp [c1] at hd
  · by_cases c2 : l > w * 8
    · simp [c1, c2] at hd
    · simp only [c1, c2, if_false, Option.some.injEq] at hd
      subst hd
      have hlen : (rest.take (byteLen l)).length = byteLen l := by
        simp [List.length_take]; omega
      simp only [encPrefix, hclear, Nat.mod_eq_of_lt hl]
      have := take_append_len (rest.take (byteLen l)) (List.replicate (w - byteLen l) 0)
      rw [hlen] at this
      rw [this]

/-- the all-zero label: 00 00 00 is read as the withdraw-label convention `[0]`, which Serialize
    emits as 00 00 01 — accepted input, different output -/
theorem label_zero_counterexample :
    decLabels true [0, 0, 0] = some [0] ∧ encLabels [0] = [0, 0, 1] ∧
    decLabels true [0, 0, 1] = some [0] := by decide

/-- label 0 above the bottom of the stack (known finding fam:label-0-above-bottom-of-stack):
    what is built does not come back -/
theorem label0_above_bottom_counterexample :
    decNlriX .labelled 4 (encNlriX (.labelled [0, 100] ⟨24, [10, 1, 2, 0]⟩)) ≠
      some (.labelled [0, 100] ⟨24, [10, 1, 2, 0]⟩) := by decide

/-- ADD-PATH (known finding fam:mp-attr-len-ignores-addpath): the constructor's cached length does
    not count the path identifiers, so Len() ≠ octets emitted and the attribute is not `MpReachWF` -/
theorem mp_addpath_len_counterexample :
    attrXLen (.reach (mkMpReach 2 1 [⟨1, .ip ⟨0, [0,0,0,0,0,0,0,0,0,0,0,0,0,0,0,0]⟩⟩]
        [0x20, 1, 0xd, 0xb8, 0, 0, 0, 0, 0, 0, 0, 0, 0, 0, 0, 1] [])) ≠
      (encMpReach ⟨⟨false, false, false, false⟩, [⟨2, 1, true, true⟩]⟩
        (mkMpReach 2 1 [⟨1, .ip ⟨0, [0,0,0,0,0,0,0,0,0,0,0,0,0,0,0,0]⟩⟩]
          [0x20, 1, 0xd, 0xb8, 0, 0, 0, 0, 0, 0, 0, 0, 0, 0, 0, 1] [])).length := by decide

/-- a 32-octet next hop whose second address is not link-local is accepted, kept, and dropped on
    re-serialisation (the next hop field shrinks to 16 octets) -/
theorem nexthop_not_linklocal_counterexample :
    decNexthop 1 32 (as16 [192, 0, 2, 1] ++ as16 [192, 0, 2, 2]) = some (as16 [192, 0, 2, 1], as16 [192, 0, 2, 2]) ∧
    (encNexthop 2 1 (as16 [192, 0, 2, 1]) (as16 [192, 0, 2, 2])).length = 16 := by decide


/-! ## Object history: what a Serialize leaves behind

`serialize` returns the object as BGPMessage.Serialize leaves it.  A refused Serialize returns no
object at all, i.e. leaves the message untouched — the harness replays "refused → retry" and
"refused → trim → serialise" on the real code against this (`enc2`, class
history:after-refused-serialize).  After a SUCCESSFUL Serialize the cached Header.Len is reused
(known finding history:header-len-cached-by-success): -/

/-- a message built fresh (Header.Len = 0) is encoded as a function of its value and the options
    only: header length = 19 + body, and the cap applies -/
theorem fresh_serialize_value_only (o : Opts) (m : Msg) (bs : Bytes) (m' : Msg) (h0 : m.hlen = 0)
    (hs : serialize o m = some (bs, m')) :
    bs = encHeader (19 + (encBody o m.body).length) m.typ ++ encBody o m.body ∧
    19 + (encBody o m.body).length ≤ maxLen o m.typ := by
  obtain ⟨_, _, e3, e4, _⟩ := serialize_object hs
  obtain ⟨hl, hc⟩ := e4 h0
  rw [hl] at e3
  exact ⟨e3, by omega⟩

/-- the known finding, on the model: serialise, drop the NLRI, serialise again — the header still
    announces the old length (27 octets announced, 23 emitted) -/
theorem header_cache_counterexample :
    ∃ bs1 m1 bs2 m2,
      serialize ⟨false, false, false, false⟩ (mkUpdate [] [] [⟨0, ⟨24, [10, 1, 2, 0]⟩⟩]) = some (bs1, m1) ∧
      serialize ⟨false, false, false, false⟩
        { m1 with body := .update ⟨0, [], 0, [], []⟩ } = some (bs2, m2) ∧
      bs2.length = 23 ∧ rd16 (bs2.drop 16) = 27 := ⟨_, _, _, _, rfl, rfl, by decide, by decide⟩


/-! ## End-of-RIB: the empty MP_UNREACH_NLRI under every ADD-PATH setting -/

/-- **End-of-RIB round trip.** For every modelled family and EVERY option set — whatever the ADD-PATH
    receive / send bits of the family are, equal or not — the attribute NewEndOfRib builds
    (MP_UNREACH_NLRI without a route) is emitted as 6 octets and decodes back to itself, also when
    other octets follow.  (The empty list is also inside the domain of `mp_unreach_decode_encode`;
    this statement drops its `apRx = apTx` hypothesis, which an empty list does not need.) -/
theorem end_of_rib_roundtrip (o : OptsX) (afi safi : Nat) (k : Kind) (w : Nat) (rest : Bytes)
    (ha : afi < 65536) (hs : safi < 256) (hk : famKind afi safi = some (k, w)) :
    decAttrX o (encMpUnreach o (mkMpUnreach afi safi []) ++ rest) = .ok (.unreach (mkMpUnreach afi safi [])) ∧
    (encMpUnreach o (mkMpUnreach afi safi [])).length = 6 ∧
    attrXLen (.unreach (mkMpUnreach afi safi [])) = 6 := by
  have hm : mkMpUnreach afi safi [] = ⟨128, 3, afi, safi, []⟩ := by
    simp [mkMpUnreach, sumLens, getPathAttrFlags, pathAttrFlags, FLAG_EXT]
  rw [hm]
  have hv : encMpUnreachVal o ⟨128, 3, afi, safi, []⟩ = be16 afi ++ [safi] := by
    simp [encMpUnreachVal, encPathNlrisX, Nat.mod_eq_of_lt hs]
  have hvl : (be16 afi ++ [safi]).length = 3 := by simp [be16_length]
  refine ⟨?_, ?_, ?_⟩
  · unfold decAttrX encMpUnreach
    rw [hv, decAttrHdr_enc (flags := 128) (typ := 15) (by decide) (by decide) (by rw [hvl]; decide)
      (Or.inr (by rw [hvl]; decide)) (by decide) rest]
    simp only [show (15 : Nat) ≠ 14 by decide, if_false, if_true, hvl]
    unfold decMpUnreachVal
    have g2 : (be16 afi ++ [safi]).getD 2 0 = safi := by simp [be16]
    have d3 : (be16 afi ++ [safi]).drop 3 = [] := by simp [be16]
    have r16 := rd16_be16 afi ha [safi]
    simp only [show ¬ (3 < 3) by decide, if_false, r16, g2, d3, hk, List.length_nil, decNlriLoop, if_true]
  · unfold encMpUnreach
    show (encAttrHdr 128 15 (encMpUnreachVal o ⟨128, 3, afi, safi, []⟩)).length = 6
    rw [hv, encAttrHdr_short (flags := 128) (typ := 15) (by decide) (by decide) (by rw [hvl]; decide) (by decide)]
    simp [hvl]
  · simp [attrXLen, hasBit, FLAG_EXT]

example : MpUnreachWF exOptsX (mkMpUnreach 2 128 []) := by decide
example : MpUnreachWF ⟨⟨true, true, false, false⟩, []⟩ (mkMpUnreach 1 1 []) := by decide
example : ∃ k w, famKind 2 1 = some (k, w) := ⟨_, _, rfl⟩

end C04
