/-
  C09 — per-peer-type export rewriting and loop prevention; producing a peer's copy never alters
  the stored route.

  Property theorems only; helper lemmas live in Lemmas/Export*.lean and Lemmas/GoSlice.lean.
  Everything below is about the executable model Model/Export.lean, a branch-for-branch mirror of
    table.UpdatePathAttrs and the Path mutators / overlay readers           (`updatePathAttrs`, `getAttr`, `getAttrs`, …)
    filterpath, filterPathFromSourcePeer, (*BgpServer).filterpath            (`filter`, `fromSource`, `exportPath`)
    the loop checks of (*peer).handleUpdate, hasOwnASLoop                    (`inboundReject`, `hasOwnASLoop`)
  which is tied to the Go code on every run by the correspondence harnesses
  go/overlay/internal/pkg/table/zz_verif_c09_test.go and go/overlay/pkg/server/zz_verif_c09_test.go.

  Reading guide.  `rewrite g peer p` is what a peer is sent for a stored route `p` that passed the
  filters: UpdatePathAttrs followed by the LOCAL_PREF rule of postFilterpath (no export policy).
  `getAttr q t` is Path.getPathAttr(t); `getAttrs q` is Path.GetPathAttrs(), the list that is put on
  the wire; `list_view` says the two agree.  `exportPath g peer p old` is (*BgpServer).filterpath:
  `.update q` = q is announced, `.withdrawOld` / `.withdrawSelf` = a withdrawal, `.nothing`.

  Not modelled (so not covered by any theorem here): export policy, VRF peers, the Route-Target
  Constraint block of filterpath and the RTC special case of prePolicyFilterpath, the 2-octet AS
  conversion at send time, AS_PATH segments longer than 255 ASes (cannot come off the wire).
-/
import Lemmas.ExportThm
import Lemmas.ExportFilter
import Lemmas.GoSlice
import Lemmas.ExportReplay
namespace C09
open Export

/-! ## 0. the list that is serialised, read per type, is getPathAttr -/

theorem list_view (p : Path) (t : Nat) : findTyp t (getAttrs p) = getAttr p t := findTyp_getAttrs p t

/-! ## 1. eBGP peers -/

/-- To an eBGP peer the AS_PATH is: the stored AS_PATH after the remove-private-as option, without
    its confederation segments unless the peer is a confederation member (`ebgpBase`), with the
    session's local AS prepended exactly once — into the first segment when it has the right type
    (AS_SEQUENCE, or AS_CONFED_SEQUENCE toward a member) and fewer than 255 ASes, else as a new
    leading segment. -/
theorem ebgp_prepends_once (g : Global) (peer : Peer) (p : Path)
    (hrs : peer.rsClient = false) (ht : peer.peerType = 1) :
    getAsPath (rewrite g peer p) = some (ebgpSegs g peer (getAsPath p)) ∧
    allAS (ebgpSegs g peer (getAsPath p)) = peer.localAS :: allAS (ebgpBase g peer (getAsPath p)) ∧
    (allAS (ebgpSegs g peer (getAsPath p))).count peer.localAS =
      (allAS (ebgpBase g peer (getAsPath p))).count peer.localAS + 1 := by
  refine ⟨ebgp_asPath g peer p hrs ht, allAS_ebgpSegs g peer _, ?_⟩
  rw [allAS_ebgpSegs]; simp

/-- … the first segment starts with the local AS and has the type the peer's confederation
    membership asks for, and no segment exceeds 255 ASes when none of the stored ones did. -/
theorem ebgp_segments_wellformed (g : Global) (peer : Peer) (p : Path)
    (hb : ∀ segs, getAsPath p = some segs → ∀ s ∈ segs, s.as.length ≤ 255) :
    (∃ hd tl, ebgpSegs g peer (getAsPath p) = hd :: tl ∧
        hd.typ = (if g.members.contains peer.as then 3 else 2) ∧ hd.as.head? = some peer.localAS) ∧
    (∀ s ∈ ebgpSegs g peer (getAsPath p), s.as.length ≤ 255) ∧
    (g.members.contains peer.as = false → ∀ s ∈ ebgpSegs g peer (getAsPath p), s.typ = 2 ∨ s.typ = 1) := by
  refine ⟨ebgpSegs_head g peer _, ebgpSegs_bound g peer _ hb, ?_⟩
  intro hc s hs
  simp only [ebgpSegs, hc, Bool.false_eq_true, if_false] at hs
  have := (List.mem_filter.1 hs).2
  simpa using this

/-- To an eBGP peer nothing in the serialised list is LOCAL_PREF, ORIGINATOR_ID or CLUSTER_LIST;
    a MED learned from a neighbour is not there either, a MED of a local route is kept. -/
theorem ebgp_strips (g : Global) (peer : Peer) (p : Path)
    (hrs : peer.rsClient = false) (ht : peer.peerType = 1) :
    (∀ a ∈ getAttrs (rewrite g peer p),
        a.typ ≠ tLOCAL_PREF ∧ a.typ ≠ tORIGINATOR_ID ∧ a.typ ≠ tCLUSTER_LIST ∧
        (isLocal p = false → a.typ ≠ tMED)) ∧
    (isLocal p = true → getAttr (rewrite g peer p) tMED = getAttr p tMED) := by
  have h := ebgp_absent g peer p hrs ht
  refine ⟨fun a ha => ⟨(getAttr_none_iff _ _).1 h.1 a ha, (getAttr_none_iff _ _).1 h.2.1 a ha,
    (getAttr_none_iff _ _).1 h.2.2.1 a ha, fun hl => (getAttr_none_iff _ _).1 (h.2.2.2.1 hl) a ha⟩, h.2.2.2.2⟩

/-- To an eBGP peer the next hop is the session's local address, for every route that is not a
    local route with a specified next hop — provided the stored route has an attribute that can
    carry it (NEXT_HOP, MP_REACH_NLRI, or an IPv4-unicast route on a session with an IPv6 address). -/
theorem ebgp_next_hop (g : Global) (peer : Peer) (p : Path)
    (hrs : peer.rsClient = false) (ht : peer.peerType = 1) (hv : peer.localAddr.isValid = true)
    (hc : isLocal p = false ∨ (getNexthop p).isUnspecified = true)
    (h : hasNexthopAttr p ∨ (p.family = RF_IPv4_UC ∧ peer.localAddr.is6 = true)) :
    getNexthop (rewrite g peer p) = peer.localAddr := ebgp_nexthop g peer p hrs ht hv hc h

/-- To every peer that is not a route-server client (eBGP and iBGP alike), no attribute of a type
    unknown to gobgp without the transitive bit is in the serialised list.
    Hypothesis: the attribute types of the root (what came off the wire) are pairwise distinct. -/
theorem unknown_nontransitive_removed (g : Global) (peer : Peer) (p : Path)
    (hrs : peer.rsClient = false) (hn : (typs p.root.attrs).Nodup) :
    ∀ a ∈ getAttrs (rewrite g peer p), known a.typ = true ∨ transitive a.flags = true :=
  no_unknown_nontransitive g peer p hrs hn

/-- Everything else passes through: an attribute of a type other than AS_PATH, NEXT_HOP, MED,
    LOCAL_PREF, ORIGINATOR_ID, CLUSTER_LIST, MP_REACH_NLRI that is known or transitive is sent
    exactly as stored. -/
theorem other_attributes_unchanged (g : Global) (peer : Peer) (p : Path)
    (hrs : peer.rsClient = false) (hn : (typs p.root.attrs).Nodup) (t : Nat) (a : Attr)
    (ht : t ∉ footprint) (hg : getAttr p t = some a) (hka : known t = true ∨ transitive a.flags = true) :
    getAttr (rewrite g peer p) t = some a := passthrough g peer p hrs hn t a ht hg hka

/-! ## 2. iBGP peers -/

/-- To an iBGP peer the AS_PATH is the stored attribute itself (an empty one when there is none),
    LOCAL_PREF is present (the stored one, else 100), MED is the stored one, and unless the route is
    local with an unspecified next hop, NEXT_HOP and MP_REACH_NLRI are the stored attributes.
    Hypothesis: not the RFC 4684 case (RTC route to an RR client), where the next hop is rewritten. -/
theorem ibgp_unchanged (g : Global) (peer : Peer) (p : Path)
    (hrs : peer.rsClient = false) (ht : peer.peerType = 0)
    (hrtc : peer.rrClient = true → p.family ≠ RF_RTC_UC) :
    getAttr (rewrite g peer p) tAS_PATH = some ((getAttr p tAS_PATH).getD (mkAsPath [])) ∧
    getAttr (rewrite g peer p) tLOCAL_PREF = some ((getAttr p tLOCAL_PREF).getD (mkLocalPref 100)) ∧
    getAttr (rewrite g peer p) tMED = getAttr p tMED ∧
    ((isLocal p && (getNexthop p).isUnspecified) = false →
      getAttr (rewrite g peer p) tNEXT_HOP = getAttr p tNEXT_HOP ∧
      getAttr (rewrite g peer p) tMP_REACH = getAttr p tMP_REACH) := ibgp_core g peer p hrs ht hrtc

/-- To a route-reflector client: ORIGINATOR_ID is kept, else set to the router id of the source
    (the local router id for a local route) when that is an IPv4 address; CLUSTER_LIST is the local
    cluster-id followed by the stored list.  To a non-client iBGP peer neither attribute is sent. -/
theorem rr_client_attrs (g : Global) (peer : Peer) (p : Path)
    (hrs : peer.rsClient = false) (ht : peer.peerType = 0) :
    (peer.rrClient = true → p.family ≠ RF_RTC_UC →
      getAttr (rewrite g peer p) tORIGINATOR_ID =
        (getAttr p tORIGINATOR_ID).orElse
          (fun _ => mkOriginator? (if isLocal p then g.routerId else p.src.id)) ∧
      getAttr (rewrite g peer p) tCLUSTER_LIST = some (mkClusterList (peer.clusterId :: clusterList p))) ∧
    (peer.rrClient = false →
      getAttr (rewrite g peer p) tORIGINATOR_ID = none ∧ getAttr (rewrite g peer p) tCLUSTER_LIST = none) :=
  ⟨fun hr hf => rr_client_core g peer p hrs ht hr hf, fun hr => ibgp_nonclient_rr_attrs g peer p hrs ht hr⟩

/-! ## 3. route-server clients -/

/-- To a route-server client the route is the stored path itself. -/
theorem rs_client_identity (g : Global) (peer : Peer) (p : Path) (hrs : peer.rsClient = true) :
    rewrite g peer p = p := rewrite_rs g peer p hrs

/-! ## 4. what is announced at all (the filterpath family) -/

/-- Whatever (*BgpServer).filterpath announces is `rewrite` of the stored path (after the
    replace-peer-as step) and passed `filter`. -/
theorem announced_is_rewrite {g : Global} {peer : Peer} {p q : Path} {old : Option Path}
    (h : exportPath g peer p old = .update q) :
    filter peer (prep peer p) old = .path (prep peer p) ∧ q = rewrite g peer (prep peer p) :=
  exportPath_update h

/-- A route is never announced to a peer whose router id is the router id it was learned from
    (whatever session of that router), the RFC 4684 exception (RTC route to an RR client) aside. -/
theorem never_back_to_source (g : Global) (peer : Peer) (p : Path) (old : Option Path)
    (hid : peer.routerId = p.src.id)
    (hx : ¬ (peer.rsClient = false ∧ peer.rrClient = true ∧ p.family = RF_RTC_UC)) :
    ∀ q, exportPath g peer p old ≠ .update q := by
  intro q h
  have hs := prep_src peer p
  exact filter_not_back_to_source peer (prep peer p) old (by rw [hs.1]; exact hid)
    (by rw [hs.2]; exact hx) _ (exportPath_update h).1

/-- A route whose AS_PATH holds the peer's AS in an AS_SEQUENCE or AS_SET (after replace-peer-as,
    when configured) is never announced to that peer, route-server clients and local routes under
    allow-as-path-loop-local aside. -/
theorem never_to_as_in_path (g : Global) (peer : Peer) (p : Path) (old : Option Path)
    (hrs : peer.rsClient = false) (hloop : (asList (prep peer p)).contains peer.as = true)
    (hx : isLocal p = false ∨ peer.allowLoopLocal = false) :
    ∀ q, exportPath g peer p old ≠ .update q := by
  intro q h
  have hl : isLocal (prep peer p) = isLocal p := by simp [isLocal, (prep_src peer p).1]
  exact filter_not_to_as_in_path peer (prep peer p) old hrs hloop (by rw [hl]; exact hx) _
    (exportPath_update h).1

/- FULL STATEMENT, FALSE OF THE CODE: "… never announced to an eBGP peer whose AS is anywhere in its
   AS_PATH".  isASLoop reads Path.GetAsList, which skips AS_CONFED_SEQUENCE / AS_CONFED_SET, and
   those segments are kept toward confederation members.  Witness (replayed on the real code by
   the server harness, class `loop:peer-as-in-confed-segment`): -/

def cxGlobal : Global := ⟨100, ⟨4, 1⟩, true, 500, [65001, 65002]⟩
def cxPeer : Peer :=
  { peerType := 1, as := 65002, localAS := 100, localAddr := ⟨4, 2⟩, rrClient := false, clusterId := 0,
    rsClient := false, removePrivate := 0, routerId := ⟨4, 3⟩, addr := ⟨4, 4⟩, allowLoopLocal := false,
    replacePeerAs := false, famEnabled := true, llgrEnabled := false }
def cxRoute : Path :=
  { leaf := ⟨[⟨1, 64, .num 0⟩, mkAsPath [⟨3, [65001, 65002]⟩], mkNextHop ⟨4, 9⟩], []⟩, parents := [],
    src := ⟨65001, ⟨4, 5⟩, ⟨4, 1⟩, ⟨4, 6⟩, false⟩, family := RF_IPv4_UC, withdraw := false, nlri := "" }

theorem never_to_as_in_path_confed_counterexample :
    cxPeer.peerType = 1 ∧ cxPeer.rsClient = false ∧
    getAsPath cxRoute = some [⟨3, [65001, 65002]⟩] ∧ cxPeer.as ∈ allAS [⟨3, [65001, 65002]⟩] ∧
    ∃ q, exportPath cxGlobal cxPeer cxRoute none = .update q ∧
      getAsPath q = some [⟨3, [100, 65001, 65002]⟩] := by
  refine ⟨rfl, rfl, by decide, by decide, _, rfl, by decide⟩

/-- A route learned from an iBGP peer that is not a route-reflector client is never announced to
    an iBGP peer that is not a client either. -/
theorem no_nonclient_to_nonclient (g : Global) (peer : Peer) (p : Path) (old : Option Path)
    (ht : peer.peerType = 0) (hr : peer.rrClient = false) (hl : isLocal p = false)
    (has : p.src.as = peer.as) (hsr : p.src.rrClient = false) :
    ∀ q, exportPath g peer p old ≠ .update q := by
  intro q h
  have hs := prep_src peer p
  exact filter_no_nonclient_to_nonclient peer (prep peer p) old ht hr
    (by simp [isLocal, hs.1]; simpa [isLocal] using hl) (by rw [hs.1]; exact has) (by rw [hs.1]; exact hsr) _
    (exportPath_update h).1

/-- A route whose CLUSTER_LIST already holds the cluster-id used toward a client is not reflected
    to that client: the filter never answers with the route (it answers with nothing, or — since
    the C01 fix — with the withdrawal of the old best path the client may hold). -/
theorem cluster_loop_not_reflected (peer : Peer) (p : Path) (old : Option Path)
    (ht : peer.peerType = 0) (hr : peer.rrClient = true) (hl : isLocal p = false)
    (hc : (clusterList p).contains peer.clusterId = true) :
    ∀ q, filter peer p old ≠ .path q := filter_cluster_loop peer p old ht hr hl hc

/-! ## 5. received routes that are not used -/

/-- hasOwnASLoop counts the occurrences of the local AS — and of the confederation identifier when
    confederation is on and it differs — over all segments, and compares with allow-own-as. -/
theorem hasOwnASLoop_iff (own limit : Nat) (segs : List Seg) (cid : Nat) (ce : Bool) :
    hasOwnASLoop own limit segs cid ce =
      decide ((allAS segs).count own + (if ce && cid != own then (allAS segs).count cid else 0) > limit) := by
  simp [hasOwnASLoop, ownASCount_eq]

/-- A received route is rejected when its AS_PATH holds the local AS (or the confederation
    identifier) more often than allow-own-as, or, on an iBGP session, when its ORIGINATOR_ID is the
    local router id. -/
theorem inbound_loop_rejected (g : Global) (localAS allowOwnAS : Nat) (isIBGP : Bool) (p : Path) :
    (∀ segs, getAsPath p = some segs →
        (allAS segs).count localAS +
          (if g.confedEnabled && g.confedId != localAS then (allAS segs).count g.confedId else 0) > allowOwnAS →
        inboundReject g localAS allowOwnAS isIBGP p = true) ∧
    (isIBGP = true → originatorId p = g.routerId → inboundReject g localAS allowOwnAS isIBGP p = true) := by
  constructor
  · intro segs hs hc
    have : hasOwnASLoop localAS allowOwnAS segs g.confedId g.confedEnabled = true := by
      rw [hasOwnASLoop_iff]; exact decide_eq_true hc
    simp [inboundReject, hs, this]
  · intro hi ho
    simp [inboundReject, hi, ho]

/- FULL STATEMENT, FALSE OF THE CODE: "… or the local cluster-id in CLUSTER_LIST".  handleUpdate has
   no CLUSTER_LIST test at all (the only one is in filterpath, toward RR clients).  Witness
   (replayed on the real code by the server harness, class `inbound:local-cluster-id-accepted`):
   a route from an iBGP peer whose CLUSTER_LIST is [1.1.1.1] on a router whose cluster-id is
   1.1.1.1 is accepted. -/
def cxRR : Global := ⟨65000, ⟨4, 16843009⟩, false, 0, []⟩
def cxReflected : Path :=
  { leaf := ⟨[⟨1, 64, .num 0⟩, mkAsPath [], mkNextHop ⟨4, 9⟩, mkLocalPref 100,
              mkOriginator ⟨4, 7⟩, mkClusterList [16843009]], []⟩, parents := [],
    src := ⟨65000, ⟨4, 5⟩, ⟨4, 16843009⟩, ⟨4, 6⟩, false⟩, family := RF_IPv4_UC, withdraw := false, nlri := "" }

theorem inbound_cluster_id_counterexample :
    16843009 ∈ clusterList cxReflected ∧ inboundReject cxRR 65000 0 true cxReflected = false := by
  constructor <;> decide

/-! ### 5b. … and stay unused: the stored Adj-RIB-In entry and later replays of it

  `runIn` is the Adj-RIB-In of one peer after any sequence of announcements and withdrawals
  (handleUpdate marks the received path itself, adjRibIn.Update stores it); `replayList` is what
  softResetIn (PathList(families, accepted)) and StaleAll hand to the Loc-RIB again. -/

/-- After ANY history of UPDATEs, every stored entry is marked rejected exactly when its route fails
    an inbound loop check — so the accepted listing and the accepted counter leave it out. -/
theorem stored_loop_marked (g : Global) (localAS allowOwnAS : Nat) (isIBGP : Bool) (evs : List InEv) :
    (∀ e ∈ runIn g localAS allowOwnAS isIBGP evs,
        e.rejected = inboundReject g localAS allowOwnAS isIBGP e.path) ∧
    acceptedCount (runIn g localAS allowOwnAS isIBGP evs) =
      ((runIn g localAS allowOwnAS isIBGP evs).filter
        (fun e => !inboundReject g localAS allowOwnAS isIBGP e.path)).length := by
  have hm := marked_run g localAS allowOwnAS isIBGP evs
  refine ⟨hm, ?_⟩
  unfold acceptedCount replayList
  congr 1
  apply List.filter_congr
  intro e he
  rw [hm e he]

/-- After ANY history, no later replay of the stored state (soft reset in, a policy change followed
    by one, StaleAll under graceful restart) hands a route that fails an inbound loop check to the
    Loc-RIB: everything replayed passes both checks. -/
theorem replay_never_uses_looped (g : Global) (localAS allowOwnAS : Nat) (isIBGP : Bool) (evs : List InEv) :
    ∀ e ∈ replayList (runIn g localAS allowOwnAS isIBGP evs),
      inboundReject g localAS allowOwnAS isIBGP e.path = false := by
  intro e he
  have hm := marked_run g localAS allowOwnAS isIBGP evs
  have h1 := List.mem_filter.1 he
  have := hm e h1.1
  have hr : e.rejected = false := by simpa using h1.2
  rw [← this, hr]

/-- … in particular a route whose AS_PATH holds the local AS (or the confederation identifier) more
    often than allow-own-as, in whatever segment types, is in no replay. -/
theorem replay_excludes_own_as_loop (g : Global) (localAS allowOwnAS : Nat) (isIBGP : Bool) (evs : List InEv)
    (e : AdjIn) (he : e ∈ replayList (runIn g localAS allowOwnAS isIBGP evs)) (segs : List Seg)
    (hs : getAsPath e.path = some segs) :
    (allAS segs).count localAS +
      (if g.confedEnabled && g.confedId != localAS then (allAS segs).count g.confedId else 0) ≤ allowOwnAS := by
  have h := replay_never_uses_looped g localAS allowOwnAS isIBGP evs e he
  by_cases hc : (allAS segs).count localAS +
      (if g.confedEnabled && g.confedId != localAS then (allAS segs).count g.confedId else 0) > allowOwnAS
  · rw [(inbound_loop_rejected g localAS allowOwnAS isIBGP e.path).1 segs hs hc] at h; cases h
  · omega

/-! ## 6. the stored route -/

/-- Model level: the peer's copy is a fresh node whose parent chain is the stored path, node for
    node; source, family and NLRI are the stored ones.  (Lean values are immutable, so this alone
    says nothing about Go slices — see `overlay_pure` in Props/C09Heap for that.) -/
theorem copy_is_overlay (g : Global) (peer : Peer) (p : Path) (hrs : peer.rsClient = false) :
    (rewrite g peer p).parents = p.leaf :: p.parents ∧ (rewrite g peer p).src = p.src ∧
    (rewrite g peer p).family = p.family ∧ (rewrite g peer p).nlri = p.nlri := by
  have h := rewrite_sameNode g peer p hrs
  have s := sameNode_stripped peer p
  exact ⟨h.parents.trans s.1, h.src.trans s.2.1, h.family.trans s.2.2.1, h.nlri.trans s.2.2.2.2⟩

/-! ### the same statement where it can fail: Go slices (Model/GoSlice.lean)

  Heap = arrays of cells, slice = (array, off, len, cap), `append` writes in place when the capacity
  suffices.  `runOps` applies any sequence of setPathAttr / delPathAttr — all that UpdatePathAttrs,
  SetNexthop, PrependAsn, RemovePrivateAS, removeConfedAs, ReplaceAS, RemoveLocalPref do to a node —
  with the slice operation path.go uses for each. -/

open GoSlice in
/-- **overlay_pure.** Whatever attribute writes and deletions are applied to a node that Path.Clone
    just created (both slices nil), in whatever heap, every slice that existed before — the
    `pathAttrs` and `dels` of the stored path and of every other copy, and every payload array —
    reads exactly what it read before. -/
theorem overlay_pure (typOf : Nat → Nat) (h : Heap) (ops : List NodeOp) (s : Slice) (hs : s.arr < h.length) :
    read (runOps typOf h Node.fresh ops).1 s = read h s :=
  read_of_keeps (keeps_runOps typOf h.length h Node.fresh ops (Nat.le_refl _)
    ⟨owned_nil _, owned_nil _⟩).1 s hs

open GoSlice in
/-- … and the node keeps writing only to its own arrays afterwards: a node that owns its slices
    (nil, or in arrays allocated since the watermark) still does after any further operations, and
    nothing below the watermark changes.  (Induction step of the above; covers a copy that is
    rewritten a second time, e.g. by policy actions after UpdatePathAttrs.) -/
theorem overlay_pure_owned (typOf : Nat → Nat) (base : Nat) (h : Heap) (n : Node) (ops : List NodeOp)
    (hb : base ≤ h.length) (ho : OwnedNode base n) (s : Slice) (hs : s.arr < base) :
    read (runOps typOf h n ops).1 s = read h s ∧ OwnedNode base (runOps typOf h n ops).2 :=
  ⟨read_of_keeps (keeps_runOps typOf base h n ops hb ho).1 s hs, (keeps_runOps typOf base h n ops hb ho).2⟩

open GoSlice in
/-- The payload builders — the `make` + `append` loops of RemovePrivateAS / ReplaceAS / cloneAsPath and
    the scratch arithmetic of PrependAsn (as fixed) — write to fresh arrays only. -/
theorem payload_builders_pure (f : Nat → Option Nat) (h : Heap) (input : Slice) (asn repeatN rep : Nat)
    (s : Slice) (hs : s.arr < h.length) :
    read (filterMapGo f h input).1 s = read h s ∧
    read (prependScratchNew h asn repeatN rep input).1 s = read h s :=
  ⟨read_of_keeps (keeps_filterMapGo f h input) s hs,
   read_of_keeps (keeps_prependScratchNew h asn repeatN rep input) s hs⟩

/- Why "fresh" matters — the statement is FALSE for a node whose slice shares an array with spare
   capacity with somebody else (this is the shape of the SetLargeCommunities defect of C10): -/
open GoSlice in
theorem shared_capacity_counterexample :
    let h : Heap := [[11, 12, 13]]
    let mine : Node := ⟨⟨0, 0, 2, 3⟩, Slice.nil⟩      -- pathAttrs = arr[0:2], cap 3
    let theirs : Slice := ⟨0, 0, 3, 3⟩                -- somebody else's view arr[0:3]
    read (setAttrGo (fun c => c) h mine 99).1 theirs = [11, 12, 99] ∧ read h theirs = [11, 12, 13] := by
  decide

/- The defect this check found in PrependAsn (fixed on wt-C09): with repeat = 255 cut down to
   rep = 255 - len(asList), `append(asns[:rep], asList...)` has room to write asList over the tail
   of `asns`, and that tail is what becomes the new leading segment. -/
set_option maxRecDepth 8000 in
open GoSlice in
theorem prepend_scratch_old_counterexample :
    let h : Heap := [[64511, 300]]
    let asList : Slice := ⟨0, 0, 2, 2⟩
    let old := prependScratchOld h 23456 255 253 asList
    let new := prependScratchNew h 23456 255 253 asList
    read old.1 old.2.2 = [64511, 300] ∧                   -- should be [23456, 23456]
    read new.1 new.2.2 = [23456, 23456] ∧
    read new.1 new.2.1 = List.replicate 253 23456 ++ [64511, 300] := by
  decide

/-! ## non-vacuity: concrete peers and routes satisfying the hypotheses above -/

def exG : Global := ⟨65000, ⟨4, 100⟩, true, 500, [65001, 65002]⟩
def exEbgp : Peer :=
  { peerType := 1, as := 200, localAS := 65000, localAddr := ⟨4, 1⟩, rrClient := false, clusterId := 0,
    rsClient := false, removePrivate := 1, routerId := ⟨4, 9⟩, addr := ⟨4, 10⟩, allowLoopLocal := false,
    replacePeerAs := false, famEnabled := true, llgrEnabled := false }
def exIbgpRR : Peer := { exEbgp with peerType := 0, as := 65000, rrClient := true, clusterId := 77, removePrivate := 0 }
def exIbgp : Peer := { exIbgpRR with rrClient := false }
def exRS : Peer := { exEbgp with rsClient := true }
def exRoute : Path :=
  { leaf := ⟨[⟨1, 64, .num 0⟩, mkAsPath [⟨2, [300, 64512]⟩, ⟨3, [65001]⟩], mkNextHop ⟨4, 7⟩,
              ⟨4, 128, .num 5⟩, mkLocalPref 200, mkOriginator ⟨4, 8⟩, mkClusterList [5],
              ⟨99, 128, .raw "00"⟩, ⟨200, 192, .raw "01"⟩], []⟩,
    parents := [], src := ⟨300, ⟨4, 20⟩, ⟨4, 100⟩, ⟨4, 21⟩, false⟩, family := RF_IPv4_UC,
    withdraw := false, nlri := "" }

example : exEbgp.rsClient = false ∧ exEbgp.peerType = 1 ∧ exEbgp.localAddr.isValid = true ∧
    isLocal exRoute = false ∧ (typs exRoute.root.attrs).Nodup ∧
    (getAttr exRoute tNEXT_HOP).isSome = true := by decide
example : getAsPath (rewrite exG exEbgp exRoute) = some [⟨2, [65000, 300]⟩] := by decide
example : (getAttrs (rewrite exG exEbgp exRoute)).map (·.typ) = [1, 2, 3, 200] := by decide
example : getNexthop (rewrite exG exEbgp exRoute) = ⟨4, 1⟩ := by decide
example : exIbgpRR.rsClient = false ∧ exIbgpRR.peerType = 0 ∧ exIbgpRR.rrClient = true ∧
    exRoute.family ≠ RF_RTC_UC := by decide
example : getAttr (rewrite exG exIbgpRR exRoute) tCLUSTER_LIST = some (mkClusterList [77, 5]) := by decide
example : exIbgp.peerType = 0 ∧ exIbgp.rrClient = false ∧ exRS.rsClient = true := by decide
example : ∃ q, exportPath exG exEbgp exRoute none = .update q := ⟨_, rfl⟩
-- never_back_to_source / never_to_as_in_path / no_nonclient_to_nonclient / cluster_loop: hypotheses met
example : ({ exEbgp with routerId := ⟨4, 20⟩ } : Peer).routerId = exRoute.src.id := by decide
example : (asList (prep { exEbgp with as := 300 } exRoute)).contains 300 = true ∧ isLocal exRoute = false := by decide
example : ({ exIbgp with as := 300 } : Peer).peerType = 0 ∧ exRoute.src.as = 300 ∧ exRoute.src.rrClient = false := by decide
example : (clusterList exRoute).contains ({ exIbgpRR with clusterId := 5 } : Peer).clusterId = true := by decide
-- inbound_loop_rejected: both hypotheses met by concrete routes
example : getAsPath exRoute = some [⟨2, [300, 64512]⟩, ⟨3, [65001]⟩] ∧
    (allAS [⟨2, [300, 64512]⟩, ⟨3, [65001]⟩]).count 300 + 0 > 0 := by decide
example : originatorId exRoute = (⟨4, 8⟩ : Addr) := by decide
-- stored_loop_marked / replay_*: a history with a clean and a looped announcement: only the clean one is replayed
example : (replayList (runIn exG 300 0 false [.ann 1 exRoute, .ann 2 cxRoute])).map (·.key) = [2] ∧
    (runIn exG 300 0 false [.ann 1 exRoute, .ann 2 cxRoute]).map (·.rejected) = [true, false] := by decide

end C09
