/-
  C17 — VRF import/export and RT Constraint distribute exactly the matching routes.

  Everything here is about the hand-written model Model/VrfRtc.lean (a mirror of vrf.go, rtc.go,
  policy.go CanImportToVrf, path.go ToLocal/ToGlobal, table.go updateVPNIdx, server.go filterpath /
  processRTCMembership / rtcVPNCandidates / prePolicyFilterpath as repaired on branch wt-C17); the
  tie to the Go code is the correspondence run of ./check C17 (sampled, not proved).

  Scope of the RTC statements: one RTC peer that does not send ADD-PATH and never is the source of a
  VPN route, no export policy, no RTC End-of-RIB wait pending (deferral time 0).  Scope of the CE
  statement: every prefix occurs under one RD only (gobgp keeps no per-VRF best path).
-/
import Lemmas.VrfRtcDefs
import Lemmas.VrfRtcIdx
import Lemmas.VrfRtcVrf
import Lemmas.VrfRtcView
import Lemmas.VrfRtcMgr
import Lemmas.VrfRtcSup
import Lemmas.VrfRtcDel
namespace C17
open VrfRtc

/-! ### VRF import / export -/

/-- A VPN route can be imported into a VRF iff one of its TRANSITIVE extended communities of a
    route-target-capable type is an import target of the VRF. -/
theorem vrf_visible_iff (v : Vrf) (ecs : List EC) :
    canImport v ecs = true ↔ ∃ e, e ∈ ecs ∧ isTransitive e = true ∧ keyable e = true ∧ e ∈ v.imports :=
  canImport_iff v ecs

/-- What ListPath(vrf) / Select(VRF) shows: exactly the importable known paths, as plain routes. -/
theorem vrf_select_iff (v : Vrf) (known : List VPath) (l : LPath) :
    l ∈ vrfSelect v known ↔ ∃ p, p ∈ known ∧ canImport v p.ecs = true ∧ l = toLocal p :=
  vrfSelect_iff v known l

/-- A route whose only matching communities are non-transitive is not imported. -/
theorem vrf_nontransitive_not_imported (v : Vrf) (ecs : List EC)
    (h : ∀ e, e ∈ ecs → e ∈ v.imports → isTransitive e = false) : canImport v ecs = false :=
  canImport_nontransitive v ecs h

/-- A route originated in a VRF is exported with the VRF's RD and label, its prefix and marker kept,
    and the VRF's export targets appended to its own communities. -/
theorem vrf_export_attrs (v : Vrf) (l : LPath) :
    (toGlobal v l).rd = v.rd ∧ (toGlobal v l).label = v.label ∧ (toGlobal v l).pfx = l.pfx ∧
    (toGlobal v l).ecs = l.ecs ++ v.exports ∧ (toGlobal v l).marker = l.marker ∧
    (∀ e, e ∈ v.exports → e ∈ (toGlobal v l).ecs) :=
  toGlobal_attrs v l

/-- What Info / GetTable(VRF) reports agrees with what Select / ListPath(VRF) lists: NumPath is the
    number of importable PATHS (not all paths of a destination that has one), NumDestination the
    number of destinations with one. -/
theorem vrf_info_eq_select (t : Tbl) (vr : Vrf) :
    (vrfInfo t vr).2 = (t.nlris.map (fun n => (vrfSelect vr (t.dest n)).length)).sum ∧
    (vrfInfo t vr).1 = (t.nlris.filter (fun n => (vrfSelect vr (t.dest n)).length != 0)).length :=
  vrfInfo_eq_select t vr

/-- What remains after DeleteVrf: no route originated in the VRF (locally originated under its RD),
    whatever its rank in its destination was — best, runner-up behind another PE's path, last … -/
theorem vrf_delete_removes_originated (t : Tbl) (vr : Vrf) (h : TblWF t)
    (hl : ∀ n p, p ∈ t.dest n → p.src = 0 → p.pathId = 0) :
    ∀ n p, p ∈ (t.withdrawAll (delVrfPaths t vr)).dest n → ¬ (p.src = 0 ∧ p.rd = vr.rd) :=
  delVrf_removes t vr h hl

/-- … and every other route stays in its place (so a later withdrawal of the competing path cannot
    bring anything back, and a VRF re-created with the same RD starts without originated routes). -/
theorem vrf_delete_keeps_others (t : Tbl) (vr : Vrf) (h : TblWF t)
    (hl : ∀ n p, p ∈ t.dest n → p.src = 0 → p.pathId = 0) :
    ∀ n, (t.withdrawAll (delVrfPaths t vr)).dest n =
      (t.dest n).filter (fun p => !(p.src == 0 && p.rd == vr.rd)) :=
  delVrf_keeps t vr h hl

/-- A table update keeps "the VRF neighbor holds exactly the importable best paths, as plain
    prefixes" (prefixes unique across RDs). -/
theorem vrf_ce_step (t : Tbl) (vr : Vrf) (v : LView) (p : VPath) (wd : Bool)
    (h : TblWF t) (hf : wd = false → Fresh t p) (hinj : PfxInj (t.update p wd).nlris)
    (hv : CEViewOK t vr v) :
    CEViewOK (t.update p wd) vr
      (v.apply (ceOnTableChange vr (t.dest p.nlri) ((t.update p wd).dest p.nlri))) :=
  ce_table_step t vr v p wd h hf hinj hv

/-
  Full strength (`vrf_ce_view_exact`), FALSE of the model that mirrors the code and of the code:

    theorem vrf_ce_view_exact (vr : Vrf) (evs : List (VPath × Bool)) (fresh announcements) :
        CEViewExact (CESys.run vr evs).t vr (CESys.run vr evs).v

  gobgp keeps no per-VRF best path: propagateUpdateToNeighbors works per VPN destination (rd, prefix)
  and a neighbor in a VRF has one key per prefix, so the destination that changed last decides.
  Replayed on the real BgpServer by the first histories of c17CorpusSrv `dual` (known findings
  vrf-ce-lost-route-with-other-rd, vrf-ce-not-best-among-rds).
-/

/-- the witness: the dual-homed prefix 0 under RD 5 (preferred) and RD 6; RD 6 is withdrawn -/
def dualA : VPath := { uid := 1, root := 1, src := 1, pathId := 0, rd := 5, pfx := 0, label := 1005, pref := 292, marker := 1, ecs := [842122827661313] }
def dualB : VPath := { uid := 2, root := 2, src := 2, pathId := 0, rd := 6, pfx := 0, label := 1006, pref := 168, marker := 2, ecs := [842122827661313] }
def dualVrf : Vrf := { name := 1, rd := 1, label := 0, imports := [842122827661313], exports := [] }

/-- after "announce under RD 5, announce under RD 6" the neighbor holds the less preferred route … -/
theorem vrf_ce_view_exact_counterexample_not_best :
    (CESys.run dualVrf [(dualA, false), (dualB, false)]).v 0 = some 2 ∧
    (pickBest (vrfCands (CESys.run dualVrf [(dualA, false), (dualB, false)]).t dualVrf 0)).map (·.marker) = some 1 := by
  decide

/-- … and after the withdrawal of the RD 6 route it holds nothing, although the RD 5 route is still
    imported: the full-strength statement fails on this history. -/
theorem vrf_ce_view_exact_counterexample :
    ¬ CEViewExact (CESys.run dualVrf [(dualA, false), (dualB, false), (dualB, true)]).t dualVrf
        (CESys.run dualVrf [(dualA, false), (dualB, false), (dualB, true)]).v := by
  intro h
  have h0 := h 0
  revert h0
  decide

/-- `vrf_ce_view_partial`: over every history in which a prefix never occurs under two RDs, the
    neighbor holds exactly the importable best path of the prefix's destination. -/
theorem vrf_ce_view_partial (vr : Vrf) (x : CESys) (h : CEReachUniq vr x) : CEViewOK x.t vr x.v := by
  suffices hs : Reach x.t ∧ CEViewOK x.t vr x.v from hs.2
  induction h with
  | init =>
    refine ⟨Reach.empty, ?_, ?_⟩
    · intro n hn; simp [CESys.init, Tbl.empty] at hn
    · intro x _; rfl
  | step x p wd _ hf hinj ih =>
    obtain ⟨hr, hv⟩ := ih
    exact ⟨Reach.step _ p wd hr hf, ce_table_step x.t vr x.v p wd (reach_inv _ hr).1 hf hinj hv⟩

/-! ### the memberships this speaker originates for its VRFs -/

/-- After any sequence of VRF adds, VRF deletes and memberships received from neighbours for the same
    NLRI (whatever their preference, i.e. wherever the local path stands in its destination), this
    speaker originates a membership for an RT iff some configured VRF imports it. -/
theorem vrf_local_memberships (ops : List MOp) (h : RecvOK ops) (k : Nat) :
    scanLocal ((Mgr.run ops).rtc k) = true ↔ ∃ v, v ∈ (Mgr.run ops).vrfs ∧ k ∈ v.imports :=
  local_memberships_eq ops h k

/-- A VRF delete withdraws exactly the import targets of the deleted VRF that no remaining VRF imports. -/
theorem vrf_delete_withdraws (ops : List MOp) (h : RecvOK ops) (name : Nat) (v : Vrf)
    (hv : v ∈ (Mgr.run ops).vrfs) (hn : v.name = name) (k : Nat) :
    k ∈ ((Mgr.run ops).delVrf name).2 ↔
      (k ∈ v.imports ∧ ∀ w, w ∈ ((Mgr.run ops).delVrf name).1.vrfs → k ∉ w.imports) :=
  delVrf_withdraws ops h name v hv hn k

/-! ### the membership structure -/

/-- After any history of accepted announcements / withdrawals the structure holds exactly the
    (RT, origin AS, path-id) entries whose last event was an announcement … -/
theorem rtm_refines (evs : List MemEv) (m : Mem) :
    m ∈ Rtm.run [] evs ↔ lastEv evs m = some true := by
  have h := rtm_run_mem evs [] m
  cases hl : lastEv evs m with
  | none => rw [hl] at h; simp at h; simp [h]
  | some b => rw [hl] at h; simpa using h

/-- … and HasRouteTarget(rt) holds iff one of them is for that RT (duplicates with another origin AS
    or path-id keep the interest alive when one of them is withdrawn). -/
theorem rtm_has_iff (evs : List MemEv) (k : Nat) :
    (Rtm.run [] evs).has k = true ↔ ∃ m, m.rt = k ∧ lastEv evs m = some true :=
  rtm_run_has evs k

/-! ### the RT index -/

/-- After any sequence of table updates — each announcement a new path object, the very same stored
    object fed again, or a new clone of the stored announcement it replaces (soft reset in without /
    with a modifying import policy), see `Fresh` — the index returns, for an RT key, exactly the
    stored paths carrying it that are the best path of their destination or were received with a
    non-zero path-id. -/
theorem idx_consistent (t : Tbl) (h : Reach t) (k : Nat) (q : VPath) :
    q ∈ t.idx.byRT k ↔
      (q ∈ t.dest q.nlri ∧ k ∈ keys q.ecs ∧ (q.pathId ≠ 0 ∨ t.best q.nlri = some q)) := by
  rw [mem_byRT]
  exact (reach_inv t h).2 k q

/-- Feeding the very same stored object again is an admissible update (`Fresh`) … -/
theorem feed_same_object (t : Tbl) (p : VPath) (h : TblWF t) (hp : p ∈ t.dest p.nlri) : Fresh t p :=
  ⟨fun n q hq hu => h.uid_uniq n p.nlri q p hq hp hu,
   fun n q hq hr => by
     have e := h.root_uniq n p.nlri q p hq hp hr
     subst e
     exact ⟨rfl, by simp [sameSlot]⟩⟩

/-- … and so is a new clone (new object, same root) of the stored path `q` it replaces. -/
theorem feed_clone (t : Tbl) (p q : VPath) (h : TblWF t) (hq : q ∈ t.dest q.nlri)
    (hn : q.nlri = p.nlri) (hs : sameSlot p q = true) (hroot : q.root = p.root)
    (hnew : ∀ n x, x ∈ t.dest n → x.uid ≠ p.uid) : Fresh t p :=
  ⟨fun n x hx hu => absurd hu (hnew n x hx),
   fun n x hx hr => by
     have e : x = q := h.root_uniq n q.nlri x q hx hq (hr.trans hroot.symm)
     subst e
     exact ⟨hn, hs⟩⟩

/-! ### RT Constraint -/

/-- Toward the RTC peer a route passes the RTC block of filterpath iff the peer has an accepted
    membership for one of its targets or the default membership. -/
theorem rtc_filter_iff (s : Rtm) (p : VPath) :
    rtcFilter s p false none ≠ [] ↔ (s.has 0 = true ∨ ∃ k, k ∈ keys p.ecs ∧ s.has k = true) := by
  unfold rtcFilter interested
  by_cases h : (s.has 0 || (keys p.ecs).any fun k => s.has k) = true
  · simp only [h, if_true]
    simp only [Bool.or_eq_true, List.any_eq_true] at h
    simp [h]
  · simp only [h]
    simp only [Bool.or_eq_true, List.any_eq_true] at h
    simp [h]

/-- `rtc_invariant`: after any interleaving of VPN table updates and membership events, the peer
    holds the best path of a destination iff it is interested in it, and nothing else. -/
theorem rtc_invariant (x : Sys) (h : SysReach x) : ViewOK x.t x.s x.v := by
  suffices hs : Reach x.t ∧ ViewOK x.t x.s x.v from hs.2
  induction h with
  | init =>
    refine ⟨Reach.empty, ?_⟩
    intro n
    simp [Sys.init, Tbl.empty, Tbl.best]
  | step x e _ hf ih =>
    obtain ⟨hr, hv⟩ := ih
    have hwi := reach_inv _ hr
    cases e with
    | upd p wd =>
      have hfr : wd = false → Fresh x.t p := fun hw => hf p (by rw [hw])
      exact ⟨Reach.step _ p wd hr hfr, rtc_table_step _ _ _ p wd hwi.1 hfr hv⟩
    | mem m wd => exact ⟨hr, rtc_member_step _ _ _ m wd hwi.1 hwi.2 hv⟩

/-- The deferred / initial table transfer gives a peer that holds nothing exactly what its
    memberships, as they are at that moment, entitle it to. -/
theorem rtc_catchup (t : Tbl) (s : Rtm) (h : TblWF t) :
    ViewOK t s (View.apply (fun _ => none) (catchUp t s)) :=
  catchUp_view t s h

/-- `rtc_invariant` with advertisement toward the peer suppressed for a while (a new session on which
    the local speaker is the restarting one — any reason for which needToAdvertise is false from the
    start of a session): membership and route changes that arrive meanwhile are recorded; the peer
    holds nothing until the deferral ends and exactly what it is entitled to afterwards. -/
theorem rtc_invariant_suppressed (x : SysS) (h : SysSReach x) :
    if x.sup then (∀ n, x.v n = none) else ViewOK x.t x.s x.v :=
  (sysS_inv x h).2

/-
  RT-membership prefixes over their whole length domain, full strength (RFC 4684 §4), FALSE of the
  code and of the model that mirrors it for the lengths 33..95:

    theorem rtc_filter_prefix (ms : List MemL) (ecs : List EC) :
        interested (ms.map MemL.toMem) ecs = wantsRFC ms ecs

  gobgp keeps the leading bits zero-padded as an exact key (known finding
  rtc-partial-length-membership-not-prefix-matched, replayed by c17CorpusSrv `gr`).
-/

/-- the witness: 65000:(rt 65000:*)/64 — every two-octet-AS target of AS 65000 — against rt 65000:1 -/
theorem rtc_filter_prefix_counterexample :
    wantsRFC [⟨64, 65000, 842122827661313⟩] [842122827661313] = true ∧
    interested ([⟨64, 65000, 842122827661313⟩].map MemL.toMem) [842122827661313] = false := by
  decide

/-- `rtc_filter_prefix_partial`: for the default (0), the origin-AS-only prefix (32, and anything
    shorter) and full route targets (96) the exact-key test of the code is RFC 4684's prefix test. -/
theorem rtc_filter_prefix_partial (ms : List MemL) (ecs : List EC)
    (hlen : ∀ m, m ∈ ms → (m.len ≤ 32 ∨ (m.len = 96 ∧ m.rt ≠ 0))) :
    interested (ms.map MemL.toMem) ecs = wantsRFC ms ecs :=
  interested_iff_rfc ms ecs hlen

/-- the same per step, for any well-formed table -/
theorem rtc_invariant_member_step (t : Tbl) (s : Rtm) (v : View) (m : Mem) (wd : Bool)
    (h : TblWF t) (hi : IdxInv t) (hv : ViewOK t s v) :
    ViewOK t (rtcStep t s false m wd).1 (v.apply (rtcStep t s false m wd).2) :=
  rtc_member_step t s v m wd h hi hv

/-- `rtc_minimal`, part 1: nothing is sent when the peer's interest in the RT does not change
    (duplicate announcement, withdrawal of one of several memberships, withdrawal of a membership
    that was never there). -/
theorem rtc_minimal_unchanged (t : Tbl) (s : Rtm) (e : Bool) (m : Mem) (wd : Bool)
    (hsame : (s.sync m wd).has m.rt = s.has m.rt) : (rtcStep t s e m wd).2 = [] :=
  VrfRtc.rtc_minimal_unchanged t s e m wd hsame

/-- part 2: on the first interest in an RT exactly the best paths carrying it are advertised
    (including those the peer already holds through another target: a re-advertisement). -/
theorem rtc_minimal_announce (t : Tbl) (s : Rtm) (m : Mem) (h : TblWF t) (hi : IdxInv t)
    (hk : m.rt ≠ 0) (hb : s.has m.rt = false) (x : Msg) :
    x ∈ (rtcStep t s false m false).2 ↔
      ∃ b, t.best b.nlri = some b ∧ m.rt ∈ keys b.ecs ∧ x = Msg.adv b.nlri b.marker :=
  VrfRtc.rtc_minimal_announce t s m h hi hk hb x

/-- part 3: on the last interest exactly the best paths carrying it that no remaining membership
    covers are withdrawn. -/
theorem rtc_minimal_withdraw (t : Tbl) (s : Rtm) (e : Bool) (m : Mem) (h : TblWF t) (hi : IdxInv t)
    (hk : m.rt ≠ 0) (hb : s.has m.rt = true) (ha : (s.sub m).has m.rt = false) (x : Msg) :
    x ∈ (rtcStep t s e m true).2 ↔
      ∃ b, t.best b.nlri = some b ∧ m.rt ∈ keys b.ecs ∧ interested (s.sub m) b.ecs = false ∧
        x = Msg.wd b.nlri :=
  VrfRtc.rtc_minimal_withdraw t s e m h hi hk hb ha x

/-! ### non-vacuity -/

section Examples
/-- 0x0002FDE800000001 = transitive two-octet-AS RT 65000:1; 0x4002… its non-transitive twin -/
def X : EC := 842122827661313
def Xn : EC := 4612528141255049217
def Y : EC := 842122827661314
def red : Vrf := { name := 1, rd := 1, label := 16, imports := [X, Xn], exports := [X] }
def pa : VPath := { uid := 1, root := 1, src := 1, pathId := 0, rd := 5, pfx := 0, label := 1005, pref := 100, marker := 1, ecs := [X, Y] }
def pb : VPath := { uid := 2, root := 2, src := 3, pathId := 1, rd := 5, pfx := 0, label := 1005, pref := 300, marker := 2, ecs := [Y] }

example : canImport red [Y, X] = true := by decide
example : canImport red [Xn, Y] = false :=
  vrf_nontransitive_not_imported red [Xn, Y] (by intro e he hi; simp [red, X, Xn, Y] at he hi ⊢; rcases he with rfl | rfl <;> simp_all <;> decide)
example : (vrfSelect red [pa, pb]).map (·.marker) = [1] := by decide
example : (toGlobal red (toLocal pa)).ecs = [X] ∧ (toGlobal red (toLocal pa)).rd = 1 := by decide
example : lastEv [⟨⟨X, 65000, 0⟩, false⟩, ⟨⟨X, 65001, 0⟩, false⟩, ⟨⟨X, 65000, 0⟩, true⟩] ⟨X, 65001, 0⟩ = some true := by decide
example : (Rtm.run [] [⟨⟨X, 65000, 0⟩, false⟩, ⟨⟨X, 65001, 0⟩, false⟩, ⟨⟨X, 65000, 0⟩, true⟩]).has X = true := by decide

/-- a reachable table with a best ADD-PATH path and a non-best path without path-id -/
def t2 : Tbl := (Tbl.empty.update pa false).update pb false
theorem stored_after_pa (n : Nat × Nat) (q : VPath) (hq : q ∈ (Tbl.empty.update pa false).dest n) : q = pa := by
  simp only [Tbl.update, Tbl.empty] at hq
  split at hq
  · simpa [calcDest, removeSlot, insertSort] using hq
  · simp at hq
theorem t2_reach : Reach t2 :=
  Reach.step _ pb false
    (Reach.step _ pa false Reach.empty
      (fun _ => ⟨fun n q hq => by simp [Tbl.empty] at hq, fun n q hq => by simp [Tbl.empty] at hq⟩))
    (fun _ => ⟨fun n q hq hu => by rw [stored_after_pa n q hq] at hu; exact absurd hu (by decide),
               fun n q hq hr => by rw [stored_after_pa n q hq] at hr; exact absurd hr (by decide)⟩)
/-- the same object fed again (soft reset in without a modifying policy) keeps the table reachable
    and the path indexed; so does a clone with other targets (soft reset in with a modifying policy) -/
def pb' : VPath := { pb with uid := 3, ecs := [X] }
theorem t2_refeed : Reach (t2.update pb false) :=
  Reach.step _ pb false t2_reach (fun _ => feed_same_object t2 pb (reach_inv t2 t2_reach).1 (by decide))
theorem t2_refeed_clone : Reach ((t2.update pb false).update pb' false) :=
  Reach.step _ pb' false t2_refeed (fun _ =>
    feed_clone _ pb' pb (reach_inv _ t2_refeed).1 (by decide) (by decide) (by decide) (by decide)
      (by
        intro n q hq
        have hwf := (reach_inv _ t2_refeed).1
        have hn := hwf.nlri_ok n q hq
        subst hn
        intro hu
        have h1 : pb ∈ (t2.update pb false).dest pb.nlri := by decide
        by_cases hq5 : q.nlri = (5, 0)
        · have hq' : q ∈ (t2.update pb false).dest (5, 0) := hq5 ▸ hq
          have : q ∈ [pb, pa] := by
            have e : (t2.update pb false).dest (5, 0) = [pb, pa] := by decide
            rw [e] at hq'; exact hq'
          simp at this
          rcases this with rfl | rfl <;> exact absurd hu (by decide)
        · have : (t2.update pb false).dest q.nlri = [] := by
            have e1 : pb.nlri = (5, 0) := by decide
            have e2 : pa.nlri = (5, 0) := by decide
            simp only [t2, Tbl.update, Tbl.empty, e1, e2, if_neg hq5]
          rw [this] at hq; cases hq))
example : ((t2.update pb false).idx.byRT Y).map (·.uid) = [2] ∧
    (((t2.update pb false).update pb' false).idx.byRT X).map (·.uid) = [3] ∧
    (((t2.update pb false).update pb' false).idx.byRT Y).map (·.uid) = [] := by decide

/-- a reachable system in which the peer holds a route, and one in which it lost it -/
def sys1 : Sys := ((Sys.init.step (.upd pa false)).step (.mem ⟨X, 65000, 0⟩ false))
example : sys1.v (5, 0) = some 1 := by decide
example : (rtcStep sys1.t sys1.s false ⟨Y, 65000, 0⟩ false).2 = [Msg.adv (5, 0) 1] := by decide
example : (rtcStep sys1.t (sys1.s.add ⟨Y, 65000, 0⟩) false ⟨X, 65000, 0⟩ true).2 = [] := by decide
example : (rtcStep sys1.t sys1.s false ⟨X, 65000, 0⟩ true).2 = [Msg.wd (5, 0)] := by decide
example : (rtcStep sys1.t sys1.s false ⟨X, 65001, 0⟩ true).2 = [] :=
  rtc_minimal_unchanged _ _ _ _ _ (by decide)
/-- the local membership is the runner-up behind a neighbour's; deleting the only VRF withdraws it -/
def blue : Vrf := { name := 2, rd := 2, label := 17, imports := [X, Y], exports := [] }
def mops : List MOp := [.add red, .recv X ⟨3, 200⟩ false, .add blue, .recv Y ⟨4, 50⟩ false]
theorem mops_ok : RecvOK mops := by simp [mops, RecvOK]
example : ((Mgr.run mops).rtc X).map (·.src) = [3, 0] ∧ ((Mgr.run mops).rtc Y).map (·.src) = [0, 4] := by decide
example : ((Mgr.run mops).delVrf 1).2 = [Xn] ∧ ((Mgr.run (mops ++ [.del 1])).delVrf 2).2 = [X, Y] := by decide
/-- a session with deferred updates: the membership announced meanwhile is honoured by the transfer -/
def sysS1 : SysS := (((SysS.init.step (.upd pa false)).step .restart).step (.mem ⟨X, 65000, 0⟩ false))
theorem sysS1_reach : SysSReach (sysS1.step .resume) := by
  refine SysSReach.step _ _ (SysSReach.step _ _ (SysSReach.step _ _ (SysSReach.step _ _ SysSReach.init ?_) ?_) ?_) ?_
  · intro p hp
    cases hp
    exact ⟨fun n q hq => by simp [SysS.init, Tbl.empty] at hq, fun n q hq => by simp [SysS.init, Tbl.empty] at hq⟩
  all_goals intro p hp; cases hp
example : sysS1.sup = true ∧ sysS1.v (5, 0) = none ∧ (sysS1.step .resume).v (5, 0) = some 1 := by decide
example : wantsRFC [⟨32, 65000, 0⟩] [Y] = true ∧ interested ([⟨32, 65000, 0⟩].map MemL.toMem) [Y] = true := by decide
/-- a VRF-originated route that is the runner-up behind another PE's route for the same RD:prefix,
    with a foreign target: reported as 1 destination / 1 path, and gone after DeleteVrf -/
def vrf3 : Vrf := { name := 3, rd := 3, label := 0, imports := [X], exports := [X] }
def loc3 : VPath := { uid := 11, root := 11, src := 0, pathId := 0, rd := 3, pfx := 8, label := 0, pref := 115, marker := 11, ecs := [X] }
def pe3 : VPath := { uid := 12, root := 12, src := 1, pathId := 0, rd := 3, pfx := 8, label := 1003, pref := 292, marker := 12, ecs := [Y] }
def t3 : Tbl := (Tbl.empty.update loc3 false).update pe3 false
example : (t3.dest (3, 8)).map (·.marker) = [12, 11] ∧ vrfInfo t3 vrf3 = (1, 1) ∧
    (delVrfPaths t3 vrf3).map (·.marker) = [11] ∧
    ((t3.withdrawAll (delVrfPaths t3 vrf3)).dest (3, 8)).map (·.marker) = [12] := by decide
end Examples

end C17
