import Lemmas.Fsm
/-
  C07 — peering sessions follow the RFC 4271 state machine, timers included.

  Every theorem is about `Fsm.step` / `Fsm.run` of Model/Fsm.lean: the hand-written mirror of
  fsm.go's five state handlers for a PASSIVE peer at the granularity "one event, then run to
  quiescence", time in virtual seconds.  The model is tied to the Go code on every check by
  (a) the session harness (real BgpServer + fsm.go in a synctest bubble, scripted remote) comparing
  every message, its instant, every reported transition, ListPeer's state and the Adj-RIB-In
  count with `step` on the same event sequences, and (b) the source edge table of the handlers
  regenerated from fsm.go's syntax tree and compared with `allowedEdge`.  That tie is sampled, not
  proved.  Collision resolution inside opensent() is outside `step` (only `dominant` is proved and
  compared with fsm.isDominant); graceful restart is not modelled.
-/
set_option linter.unusedSimpArgs false
namespace C07
open Fsm

/-! ## the RFC tables the theorems refer to -/

/-- RFC 4271 8.2.2, as far as gobgp's handlers can move (no CONNECT state). -/
theorem allowed_table :
    ∀ a b, allowedEdge a b = true ↔
      (a, b) ∈ [(S.idle, S.active), (S.idle, S.idle),
                (S.active, S.opensent), (S.active, S.openconfirm), (S.active, S.idle),
                (S.opensent, S.openconfirm), (S.opensent, S.idle),
                (S.openconfirm, S.established), (S.openconfirm, S.idle),
                (S.established, S.idle)] := by
  intro a b; cases a <;> cases b <;> decide

/-- RFC 4271 6.2 / RFC 6286: OPEN Message Error subcode for an unacceptable OPEN. -/
def rfcOpenErr (c : Cfg) (o : OpenMsg) : Option Nat :=
  if o.version ≠ 4 then some 1                                             -- Unsupported Version Number
  else if o.id = 0 ∨ (o.as = c.localAS ∧ o.id = c.localID) then some 3     -- Bad BGP Identifier
  else if c.peerAS ≠ 0 ∧ o.as ≠ c.peerAS then some 2                       -- Bad Peer AS
  else if o.hold = 1 ∨ o.hold = 2 then some 6                              -- Unacceptable Hold Time
  else none

/-- Message Header Error subcode (RFC 4271 6.1) for the four kinds of bad header:
    0 marker → Connection Not Synchronized, 1/2 length → Bad Message Length, 3 → Bad Message Type. -/
def rfcHdr (k : Nat) : Nat := if k = 0 then 1 else if k = 3 then 3 else 2

/-- The NOTIFICATION (code, subcode) an event must provoke in a state; `none`: no NOTIFICATION.
    RFC 4271 8.2.2 (ManualStop → Cease; header / OPEN errors), RFC 6608 (FSM Error subcodes
    1/2/3 for an unexpected message in OpenSent / OpenConfirm / Established), RFC 4486 (Cease
    subcodes: 1 maximum prefixes, 2 administrative shutdown, 3 peer de-configured, 4 reset). -/
def rfcNotif (c : Cfg) (s : St) (e : Ev) : Option (Nat × Nat) :=
  match s.st, e with
  -- a transport fault (`close`, `connLost`) never provokes a NOTIFICATION: the `_, _` case
  | .opensent, .open o => (rfcOpenErr c o).map (fun sub => (2, sub))
  | .opensent, .keepalive | .opensent, .update _ | .opensent, .refresh
  | .opensent, .notification => some (5, 1)
  | .opensent, .badHeader k => some (1, rfcHdr k)
  | .opensent, .disable => some (6, 2)
  | .openconfirm, .open _ | .openconfirm, .update _ | .openconfirm, .refresh => some (5, 2)
  | .openconfirm, .badHeader k => some (1, rfcHdr k)
  | .openconfirm, .disable => some (6, 2)
  | .established, .open _ => some (5, 3)
  | .established, .badHeader k => some (1, rfcHdr k)
  | .established, .disable | .established, .shutdown => some (6, 2)
  | .established, .reset => some (6, 4)
  | .established, .delete => some (6, 3)
  | .established, .update n =>
    if c.prefixLimit ≠ 0 ∧ s.rib + n > c.prefixLimit then some (6, 1) else none
  | _, _ => none

theorem validateOpen_eq_rfc (c : Cfg) (o : OpenMsg) : validateOpen c o = rfcOpenErr c o := by
  unfold validateOpen rfcOpenErr
  by_cases h1 : o.version ≠ 4 <;> simp [h1]
  by_cases h2 : o.id = 0 <;> simp [h2]
  by_cases h3 : o.as = c.localAS ∧ o.id = c.localID <;> simp [h3]
  by_cases h4 : c.peerAS ≠ 0 ∧ o.as ≠ c.peerAS <;> simp [h4]
  by_cases h5 : o.hold < 3 ∧ o.hold ≠ 0
  · have : o.hold = 1 ∨ o.hold = 2 := by omega
    simp [h5, this]
  · have : ¬ (o.hold = 1 ∨ o.hold = 2) := by omega
    simp [h5, this]

/-- the nested loops of getASN visit the capabilities in order of appearance, whatever
    optional parameters carry them -/
theorem scanParams_flat (a : Nat) (ps : List OptParam) :
    scanParams a ps = scanCaps a (flatCaps ps) := by
  induction ps generalizing a with
  | nil => rfl
  | cons p r ih =>
    cases p with
    | unknown => simpa [scanParams, flatCaps] using ih a
    | caps l =>
      have happ : ∀ (b : Nat) (l1 l2 : List Cap), scanCaps b (l1 ++ l2) = scanCaps (scanCaps b l1) l2 := by
        intro b l1 l2
        induction l1 generalizing b with
        | nil => rfl
        | cons c r1 ih1 => cases c <;> simp [scanCaps, ih1]
      simp [scanParams, flatCaps, ih, happ]

theorem scanCaps_last (a : Nat) (l : List Cap) : scanCaps a l = (lastAs4 l).getD a := by
  induction l generalizing a with
  | nil => rfl
  | cons c r ih =>
    cases c with
    | other => simpa [scanCaps, lastAs4] using ih a
    | as4 v =>
      simp only [scanCaps, lastAs4, ih]
      cases lastAs4 r <;> simp [Option.orElse]

/-- **open_layout_irrelevant** — the AS every FSM decision works with (ValidateOpenMsg, the
    collision tie-break of isDominant, State.PeerAs and the peer type) is the value of the last
    4-octet-AS capability wherever it sits, the My-AS field if there is none: two OPENs with the
    same My-AS field and the same capabilities in order get the same AS however the
    capabilities are spread over optional parameters and whatever other parameters lie between. -/
theorem open_layout_irrelevant (w : OpenWire) :
    getASN w = w.cap4.getD w.myas ∧
    ∀ w' : OpenWire, w'.myas = w.myas → flatCaps w'.params = flatCaps w.params → getASN w' = getASN w := by
  refine ⟨by simp [getASN, OpenWire.cap4, scanParams_flat, scanCaps_last], ?_⟩
  intro w' h1 h2
  simp [getASN, scanParams_flat, h1, h2]

example : getASN ⟨4, asTrans, [.caps [.other], .unknown, .caps [.other, .as4 70002]], 1, 90⟩ = 70002 := by decide

/-- RFC 6286 with RFC 6793: the "own identifier from an internal peer" test is made on the AS
    the OPEN really announces — the value of the 4-octet-AS capability when there is one —
    whatever the 2-octet My-AS field says (AS_TRANS for a speaker in a 4-octet AS). -/
theorem bad_identifier_uses_real_as (c : Cfg) (w : OpenWire) (hv : w.version = 4)
    (hc : w.cap4 = some c.localAS) (hi : w.id = c.localID) :
    validateOpen c w.toMsg = some 3 := by
  have h := (open_layout_irrelevant w).1
  unfold validateOpen OpenWire.toMsg
  simp [hv, hc, hi, h]

example : validateOpen ⟨70000, 1, 70000, 90, 30, 30, 0⟩
    (OpenWire.toMsg ⟨4, asTrans, [.caps [.other], .caps [.as4 70000]], 1, 90⟩) = some 3 := by
  decide

/-- without the capability the My-AS field is the announced AS -/
theorem getASN_nocap (w : OpenWire) (h : w.cap4 = none) : getASN w = w.myas := by
  simp [(open_layout_irrelevant w).1, h]

/-! ## the property -/

/-- **edges_allowed** — for ALL event sequences from ANY state: the transitions reported along
    the run are contiguous (each starts where the previous one ended, the first in the start
    state), every one is an allowed edge, and they end in the state the session really is in. -/
theorem edges_allowed (c : Cfg) (s : St) (es : List Ev) :
    chain s.st (run c s es).2 = some (run c s es).1.st ∧
    ∀ a b adm t, Out.trans a b adm t ∈ (run c s es).2 → allowedEdge a b = true :=
  ⟨run_chain c s es, chain_allowed (run_chain c s es)⟩

example : (run ⟨65001, 1, 65002, 90, 30, 30, 0⟩ init
    [.tick 0, .connect, .open ⟨4, 65002, 2, 30⟩, .keepalive, .tick 31]).1.st = .idle := by decide

/-- **established_needs_open_keepalive** — a run that starts outside OPENCONFIRM/ESTABLISHED
    and ends ESTABLISHED contains an OPEN the daemon accepted (or the hand-over of a connection on
    which the outgoing-connection manager received one) and, later, a KEEPALIVE. -/
theorem established_needs_open_keepalive (c : Cfg) (s : St) (es : List Ev)
    (h0 : s.st ≠ .established) (h1 : s.st ≠ .openconfirm)
    (h : (run c s es).1.st = .established) : seenOpenKa c es := by
  rcases run_established c s es h with h2 | ⟨h2, _⟩ | h2
  · exact absurd h2 h0
  · exact absurd h2 h1
  · exact h2

/-- its single-step core: ESTABLISHED is entered only from OPENCONFIRM by a KEEPALIVE,
    OPENCONFIRM only from OPENSENT by an acceptable OPEN or from ACTIVE by the hand-over. -/
theorem established_entered_by_keepalive (c : Cfg) (s : St) (e : Ev)
    (h : (step c s e).1.st = .established) (h0 : s.st ≠ .established) :
    s.st = .openconfirm ∧ e = .keepalive := by
  rcases established_entry c s e h with h2 | h2
  · exact absurd h2 h0
  · exact h2

example : (run ⟨65001, 1, 65002, 90, 30, 30, 0⟩ init
    [.tick 0, .connect, .open ⟨4, 65002, 2, 30⟩, .keepalive]).1.st = .established := by decide

/-- **no_rib_effect_unless_established** — whatever arrives while the session is not
    ESTABLISHED leaves the Adj-RIB-In as it is (or empties it on the way to IDLE). -/
theorem no_rib_effect_unless_established (c : Cfg) (s : St) (e : Ev) (h : s.st ≠ .established) :
    (step c s e).1.rib = s.rib ∨ (step c s e).1.rib = 0 :=
  step_rib c s e h

example : (step ⟨65001, 1, 65002, 90, 30, 30, 0⟩ { init with st := .openconfirm } (.update 3)).1.rib = 0 := by
  decide

/-- **notif_table** — for every state and every event other than silence: the NOTIFICATIONs the
    daemon writes are exactly the one `rfcNotif` prescribes (none if it prescribes none), written
    at the instant of the event, and after a NOTIFICATION the session is IDLE. -/
theorem notif_table (c : Cfg) (s : St) (e : Ev) (hd : s.deleted = false) (ht : ∀ t, e ≠ .tick t) :
    notifs (step c s e).2 = (match rfcNotif c s e with
                             | some (a, b) => [(a, b, s.now)]
                             | none => []) ∧
    (rfcNotif c s e ≠ none → (step c s e).1.st = .idle) := by
  unfold step
  simp only [hd]
  cases e with
  | tick t => exact absurd rfl (ht t)
  | «open» o =>
    cases hs : s.st <;> simp [rfcNotif, hs, onIdle, onActive, onOpensent, onOpenconfirm, onEstablished,
      notifyIdle, toIdle, notifs]
    rw [← validateOpen_eq_rfc]
    cases hv : validateOpen c o <;> simp [notifyIdle, toIdle, notifs]
  | update n =>
    cases hs : s.st <;> simp [rfcNotif, hs, onIdle, onActive, onOpensent, onOpenconfirm, onEstablished,
      notifyIdle, toIdle, notifs]
    by_cases hl : c.prefixLimit ≠ 0 ∧ s.rib + n > c.prefixLimit
    · simp [hl, notifs]
    · simp [hl, notifs]
      intro h; omega
  | badHeader k =>
    cases hs : s.st <;> simp [rfcNotif, rfcHdr, hdrSub, hs, onIdle, onActive, onOpensent, onOpenconfirm,
      onEstablished, notifyIdle, toIdle, notifs]
  | _ =>
    cases hs : s.st <;> simp [rfcNotif, hs, onIdle, onActive, onOpensent, onOpenconfirm, onEstablished,
      notifyIdle, closeIdle, toIdle, die, notifs, notifs_append]

example : rfcNotif ⟨65001, 1, 65002, 90, 30, 30, 0⟩ { init with st := .opensent } (.open ⟨4, 65003, 2, 30⟩)
    = some (2, 2) := by decide

/-- **timer_instants** — in OPENSENT / OPENCONFIRM / ESTABLISHED with the hold timer armed for
    instant `d` (and sane ticker deadlines), `t` seconds of silence produce exactly one
    NOTIFICATION, Hold Timer Expired (4/0), at exactly `d`, if `d` lies within the silence, and
    none otherwise — keepalives the daemon sends meanwhile do not move it. -/
theorem timer_instants (c : Cfg) (s : St) (t d : Nat) (hdel : s.deleted = false)
    (hs : isSession s) (hh : s.holdT = some d) (wf : TimersWF s) :
    notifs (step c s (.tick t)).2 = if d ≤ s.now + t then [(4, 0, d)] else [] := by
  unfold step
  simp only [hdel]
  exact advance_hold (t + 3) s (s.now + t) d hs hh wf (by omega)

/-- the deadlines the handlers arm: OPENSENT 240 s after the connection was accepted;
    OPENCONFIRM the negotiated hold time after the OPEN; ESTABLISHED the negotiated hold time
    after the KEEPALIVE that completed the handshake and after every later KEEPALIVE / UPDATE
    (`lastRx` is that instant). -/
theorem hold_armed_opensent (c : Cfg) (s : St) (h : s.st = .active) (hd : s.deleted = false) :
    (step c s .connect).1.holdT = some (s.now + 240) ∧ (step c s .connect).1.st = .opensent := by
  simp [step, hd, h, onActive, holdtimeOpensent]

theorem hold_armed_openconfirm (c : Cfg) (s : St) (o : OpenMsg) (h : s.st = .opensent)
    (hd : s.deleted = false) (hv : validateOpen c o = none) (hn : negotiate c o ≠ 0) :
    (step c s (.open o)).1.holdT = some (s.now + min o.hold c.hold) := by
  have h1 : negotiate c o = min o.hold c.hold := by unfold negotiate; split <;> omega
  simp only [step, hd, h, onOpensent, hv, armSession, hn]
  simp [h1]

theorem hold_rearmed_established (c : Cfg) (s : St) (h : s.st = .established)
    (hd : s.deleted = false) (hn : s.negHold ≠ 0) :
    (step c s .keepalive).1.holdT = some (s.now + s.negHold) ∧
    (step c s .keepalive).1.lastRx = s.now := by
  simp [step, hd, h, onEstablished, touch, hn]

example : ∃ s : St, isSession s ∧ s.holdT = some 30 ∧ TimersWF s ∧ s.deleted = false :=
  ⟨{ init with st := .established, holdT := some 30, kaT := some 10, kaI := 10 },
   Or.inr (Or.inr rfl), rfl,
   ⟨by intro k h; simp [init] at h; subst h; decide, by intro _; decide,
    by intro h' h; simp [init] at h; subst h; decide⟩, rfl⟩

/-- **collision_rule** — `dominant` (fsm.isDominant) keeps the connection the local speaker
    initiated iff its (BGP identifier, AS) is lexicographically greater than the remote's
    (RFC 4271 6.8, RFC 6286 2.3); so the two ends never both keep their own connection, and
    when the pairs differ exactly one end does. -/
theorem collision_rule (lid las rid ras : Nat) :
    (dominant lid las rid ras = true ↔ (rid < lid ∨ (rid = lid ∧ ras < las))) ∧
    ¬ (dominant lid las rid ras = true ∧ dominant rid ras lid las = true) ∧
    ((lid, las) ≠ (rid, ras) → (dominant lid las rid ras = true ∨ dominant rid ras lid las = true)) := by
  unfold dominant
  refine ⟨?_, ?_, ?_⟩
  · simp; omega
  · simp; omega
  · intro h
    have : lid ≠ rid ∨ las ≠ ras := by
      by_cases h1 : lid = rid
      · right; intro h2; exact h (by rw [h1, h2])
      · left; exact h1
    simp; omega

example : dominant 5 1 4 9 = true ∧ dominant 4 9 5 1 = false := by decide

/-- **transport_fault** — in every state that reads from the connection (OPENSENT, OPENCONFIRM,
    ESTABLISHED) a transport failure at any point of a message (between messages, inside the
    header, between header and body, inside the body) brings the session to IDLE at that very
    instant: the only outputs are the close of a completed outgoing connection still waiting to be
    taken (`drainOuts`) and the reported transition, no NOTIFICATION is written, hold timer
    and keepalive ticker are stopped and the Adj-RIB-In is emptied. -/
theorem transport_fault (c : Cfg) (s : St) (e : Ev) (hd : s.deleted = false) (hs : isSession s)
    (he : e = .close ∨ ∃ k, e = .connLost k) :
    (step c s e).2 = drainOuts s ++ [.trans s.st .idle s.admin s.now] ∧
    (step c s e).1.st = .idle ∧ (step c s e).1.now = s.now ∧
    (step c s e).1.holdT = none ∧ (step c s e).1.kaT = none ∧ (step c s e).1.rib = 0 := by
  unfold step
  simp only [hd]
  rcases he with he | ⟨k, he⟩ <;> subst he <;> rcases hs with h | h | h <;>
    simp [h, onOpensent, onOpenconfirm, onEstablished, toIdle]

example : (step ⟨65001, 1, 65002, 90, 30, 30, 0⟩ { init with st := .established, rib := 3, holdT := some 90 }
    (.connLost 2)).1.st = .idle := by decide

/-! ## nothing of the old session generation survives a teardown -/

/-- in IDLE, in ACTIVE and after deletion no completed outgoing connection waits to be taken -/
def NoneQueued (s : St) : Prop := (s.st = .idle ∨ s.st = .active ∨ s.deleted = true) → s.queued = false

theorem fireTimer_noneQueued {s : St} {t d : Nat} {tm : Tm} (hd : due s t = some (tm, d))
    (h : NoneQueued s) : NoneQueued (fireTimer s tm d).1 := by
  cases tm with
  | idle =>
    have hs := due_idle hd
    have hq : s.queued = false := h (Or.inl hs)
    by_cases ha : s.admin = .up <;> simp [NoneQueued, fireTimer, ha, hs, hq]
  | hold => simp [NoneQueued, fireTimer, notifyIdle, toIdle]
  | ka =>
    have hne : s.st ≠ .idle ∧ s.st ≠ .active := by
      unfold due at hd
      constructor <;> intro hc <;> simp [hc] at hd
      repeat' split at hd
      all_goals simp_all
    intro hc
    simp [fireTimer] at hc ⊢
    rcases hc with hc | hc | hc
    · exact absurd hc hne.1
    · exact absurd hc hne.2
    · exact h (Or.inr (Or.inr hc))

theorem advance_noneQueued (f : Nat) (s : St) (t : Nat) (h : NoneQueued s) :
    NoneQueued (advance f s t).1 := by
  induction f generalizing s with
  | zero => simpa [advance] using h
  | succ f ih =>
    unfold advance
    cases hd : due s t with
    | none => simpa [NoneQueued] using h
    | some p =>
      obtain ⟨tm, d⟩ := p
      exact ih _ (fireTimer_noneQueued hd h)

theorem step_noneQueued (c : Cfg) (s : St) (e : Ev) (h : NoneQueued s) : NoneQueued (step c s e).1 := by
  unfold step
  by_cases hd : s.deleted = true
  · have hq : s.queued = false := h (Or.inr (Or.inr hd))
    simp only [hd, if_true]
    cases e <;> simp [onDeleted, NoneQueued, hq]
  · simp only [hd]
    cases e with
    | tick t => exact advance_noneQueued _ _ _ h
    | «open» o =>
      cases hs : s.st <;> simp_all [NoneQueued, onIdle, onActive, onOpensent, onOpenconfirm,
        onEstablished, notifyIdle, toIdle]
      cases hv : validateOpen c o <;> simp_all [notifyIdle, toIdle]
    | update n =>
      cases hs : s.st <;> simp_all [NoneQueued, onIdle, onActive, onOpensent, onOpenconfirm,
        onEstablished, notifyIdle, toIdle]
      split <;> simp_all
    | _ =>
      cases hs : s.st <;> simp_all [NoneQueued, onIdle, onActive, onOpensent, onOpenconfirm,
        onEstablished, notifyIdle, closeIdle, toIdle, die]

/-- **no_old_generation** — for every history: (1) whenever the peer is in IDLE or ACTIVE (or
    deleted) no connection of an earlier attempt waits in fsm.outgoingConnCh, so a session can
    leave ACTIVE only on a connection that arrives from then on (`connect`, or an `outgoing`
    hand-over event); (2) every step that brings a session state to IDLE, for whatever reason
    (disable, shutdown, reset, hold expiry, transport fault, NOTIFICATION, FSM / header / OPEN
    error, prefix limit), closes a connection that was waiting there, at that instant. -/
theorem no_old_generation (c : Cfg) (es : List Ev) :
    NoneQueued (run c init es).1 ∧
    ∀ (s : St) (e : Ev), s.deleted = false → s.queued = true → (∀ t, e ≠ .tick t) →
      (step c s e).1.st = .idle → s.st ≠ .idle → Out.close .o s.now ∈ (step c s e).2 := by
  constructor
  · have hrun : ∀ (s : St) (es : List Ev), NoneQueued s → NoneQueued (run c s es).1 := by
      intro s es
      induction es generalizing s with
      | nil => intro h; simpa [run] using h
      | cons e es ih => intro h; simp only [run]; exact ih _ (step_noneQueued c s e h)
    exact hrun init es (by simp [NoneQueued, init])
  · intro s e hd hq ht hidle hne
    revert hidle
    unfold step
    simp only [hd]
    cases e with
    | tick t => exact absurd rfl (ht t)
    | «open» o =>
      cases hs : s.st <;> simp_all [onIdle, onActive, onOpensent, onOpenconfirm, onEstablished,
        notifyIdle, toIdle, drainOuts]
      cases hv : validateOpen c o <;> simp_all [notifyIdle, toIdle, drainOuts]
    | update n =>
      cases hs : s.st <;> simp_all [onIdle, onActive, onOpensent, onOpenconfirm, onEstablished,
        notifyIdle, toIdle, drainOuts]
      split <;> simp_all [drainOuts]
    | _ =>
      cases hs : s.st <;> simp_all [onIdle, onActive, onOpensent, onOpenconfirm, onEstablished,
        notifyIdle, closeIdle, toIdle, die, drainOuts]

example : (run ⟨65001, 1, 65002, 90, 30, 30, 0⟩ init
    [.tick 0, .connect, .open ⟨4, 65002, 2, 30⟩, .keepalive, .outgoing ⟨4, 65002, 2, 30⟩, .shutdown]).2.contains
    (.close .o 0) = true := by decide

/-- **session_open_validated** — whichever way a connection collision in OPENSENT is resolved
    (the accepted connection's OPEN seen first, or the completed outgoing connection seen first),
    the OPEN the session is negotiated from has passed ValidateOpenMsg, provided the one the
    outgoing-connection manager hands over has (it only hands over validated ones); and when
    both OPENs are acceptable and come from one speaker the survivor is the one `collision_rule`
    names, on either path. -/
theorem session_open_validated (c : Cfg) (inc out : OpenMsg) (hout : validateOpen c out = none) :
    (∀ k o, collideIncomingFirst c inc out = .session k o → validateOpen c o = none) ∧
    (∀ k o, collideOutgoingFirst c inc out = .session k o → validateOpen c o = none) := by
  constructor
  · intro k o h
    unfold collideIncomingFirst at h
    cases hv : validateOpen c inc with
    | some sub => simp [hv] at h
    | none =>
      simp only [hv] at h
      split at h <;> (cases h; first | exact hout | exact hv)
  · intro k o h
    unfold collideOutgoingFirst at h
    cases hv : validateOpen c inc with
    | some sub => simp only [hv] at h; cases h; exact hout
    | none =>
      simp only [hv] at h
      split at h <;> (cases h; first | exact hout | exact hv)

theorem collision_paths_agree (c : Cfg) (inc out : OpenMsg) (hinc : validateOpen c inc = none)
    (hid : inc.id = out.id) (has : inc.as = out.as) :
    collideIncomingFirst c inc out = collideOutgoingFirst c inc out ∧
    collideOutgoingFirst c inc out =
      (if dominant c.localID c.localAS out.id out.as then .session .o out else .session .p inc) := by
  simp [collideIncomingFirst, collideOutgoingFirst, hinc, hid, has]

example : collideOutgoingFirst ⟨65001, 1, 65002, 90, 30, 30, 0⟩ ⟨4, 65002, 2, 1⟩ ⟨4, 65002, 2, 90⟩
    = .session .o ⟨4, 65002, 2, 90⟩ := by decide

/-! ## the N dimension (RFC 8538) -/

/-- RFC 8538 4: with notification support negotiated, a NOTIFICATION by which the speaker ends
    the session for good — Cease with subcode maximum-prefixes (1), administrative shutdown (2),
    peer de-configured (3) — goes out as Cease / Hard Reset (9); administrative reset (4) and
    everything that is not a Cease stay what they are.  Without it nothing is converted. -/
def rfc8538 (n : Bool) (code sub : Nat) : Nat × Nat :=
  if n = true ∧ code = 6 ∧ (sub = 1 ∨ sub = 2 ∨ sub = 3 ∨ sub = 9) then (6, 9) else (code, sub)

/-- the NOTIFICATIONs as they go on the wire of an established session -/
def wireNotifs (n : Bool) (outs : List Out) : List (Nat × Nat × Nat) :=
  (notifs outs).map (fun (a, b, t) => ((convertNotification n a b).1, (convertNotification n a b).2, t))

theorem convertNotification_eq_rfc (n : Bool) (code sub : Nat) :
    convertNotification n code sub = rfc8538 n code sub := by
  unfold convertNotification rfc8538 shouldHardReset
  cases n <;> simp
  by_cases h6 : code = 6 <;> simp [h6, or_assoc]

/-- **notif_table_n** — `notif_table` under every negotiation outcome of RFC 8538 notification
    support: in ESTABLISHED, for every event other than silence, what the daemon writes is the
    NOTIFICATION of `rfcNotif` converted by the RFC 8538 rule (shutdown / disable / delete /
    prefix limit become Cease/9 iff N is negotiated; reset, FSM and header errors never), at the
    instant of the event; N is negotiated only if configured locally and offered by the peer. -/
theorem notif_table_n (c : Cfg) (s : St) (e : Ev) (n : Bool) (hd : s.deleted = false)
    (ht : ∀ t, e ≠ .tick t) :
    wireNotifs n (step c s e).2 = (match rfcNotif c s e with
                                   | some (a, b) => [((rfc8538 n a b).1, (rfc8538 n a b).2, s.now)]
                                   | none => []) ∧
    (∀ gl nl pg pn, nNegotiated gl nl pg pn = true → gl = true ∧ nl = true ∧ pg = true ∧ pn = true) := by
  constructor
  · unfold wireNotifs
    rw [(notif_table c s e hd ht).1]
    cases rfcNotif c s e with
    | none => rfl
    | some p => obtain ⟨a, b⟩ := p; simp [convertNotification_eq_rfc]
  · intro gl nl pg pn h
    simp [nNegotiated] at h
    exact ⟨h.1.1.1, h.1.1.2, h.1.2, h.2⟩

example : convertNotification true 6 2 = (6, 9) ∧ convertNotification true 6 4 = (6, 4) ∧
    convertNotification false 6 2 = (6, 2) := by decide

/-! ## timer state carried from one session to the next -/

/-- outside IDLE the idle hold time is the default again (5 s): whatever an earlier
    administrative reset installed has been consumed by the expiry that led out of IDLE -/
def IdleHoldDefault (s : St) : Prop := s.st ≠ .idle → s.idleHold = holdtimeIdle

theorem fireTimer_idleHoldDefault {s : St} {t d : Nat} {tm : Tm} (hd : due s t = some (tm, d))
    (h : IdleHoldDefault s) : IdleHoldDefault (fireTimer s tm d).1 := by
  cases tm with
  | idle =>
    have hs := due_idle hd
    by_cases ha : s.admin = .up <;> simp [IdleHoldDefault, fireTimer, ha, hs]
  | hold => simp [IdleHoldDefault, fireTimer, notifyIdle, toIdle]
  | ka => simpa [IdleHoldDefault, fireTimer] using h

theorem advance_idleHoldDefault (f : Nat) (s : St) (t : Nat) (h : IdleHoldDefault s) :
    IdleHoldDefault (advance f s t).1 := by
  induction f generalizing s with
  | zero => simpa [advance] using h
  | succ f ih =>
    unfold advance
    cases hd : due s t with
    | none => simpa [IdleHoldDefault] using h
    | some p =>
      obtain ⟨tm, d⟩ := p
      exact ih _ (fireTimer_idleHoldDefault hd h)

theorem step_idleHoldDefault (c : Cfg) (s : St) (e : Ev) (h : IdleHoldDefault s) :
    IdleHoldDefault (step c s e).1 := by
  unfold step
  by_cases hd : s.deleted = true
  · simp only [hd, if_true]
    cases e <;> simpa [onDeleted, IdleHoldDefault] using h
  · simp only [hd]
    cases e with
    | tick t => exact advance_idleHoldDefault _ _ _ h
    | «open» o =>
      cases hs : s.st <;> simp_all [IdleHoldDefault, onIdle, onActive, onOpensent, onOpenconfirm,
        onEstablished, notifyIdle, toIdle]
      cases hv : validateOpen c o <;> simp_all [notifyIdle, toIdle]
    | update n =>
      cases hs : s.st <;> simp_all [IdleHoldDefault, onIdle, onActive, onOpensent, onOpenconfirm,
        onEstablished, notifyIdle, toIdle]
      split <;> simp_all
    | _ =>
      cases hs : s.st <;> simp_all [IdleHoldDefault, onIdle, onActive, onOpensent, onOpenconfirm,
        onEstablished, notifyIdle, closeIdle, toIdle, die]

/-- **idle_hold_consumed_once** — for every history (any number of sessions, resets, failures,
    disable/enable) from the initial state: (1) whenever the peer is outside IDLE its idle hold
    time is the default 5 s again — the idle-hold-time-after-reset an administrative reset
    installed governs exactly one IDLE period; (2) hence an IDLE period entered from such a state by
    any event other than silence, deletion or an administrative reset in ESTABLISHED is timed to
    end 5 s later, and one entered by that reset `idleAfterReset` later. -/
theorem idle_hold_consumed_once (c : Cfg) (es : List Ev) :
    IdleHoldDefault (run c init es).1 ∧
    ∀ e, (∀ t, e ≠ .tick t) →
      let s := (run c init es).1
      s.st ≠ .idle → (step c s e).1.st = .idle → (step c s e).1.deleted = false →
      (step c s e).1.idleT = some (s.now + (if s.st = .established ∧ e = .reset then c.idleAfterReset else 5)) := by
  have hrun : ∀ (s : St) (es : List Ev), IdleHoldDefault s → IdleHoldDefault (run c s es).1 := by
    intro s es
    induction es generalizing s with
    | nil => intro h; simpa [run] using h
    | cons e es ih => intro h; simp only [run]; exact ih _ (step_idleHoldDefault c s e h)
  have h0 : IdleHoldDefault init := by simp [IdleHoldDefault, init]
  refine ⟨hrun init es h0, ?_⟩
  intro e ht s hne hidle hdel
  have hdef : s.idleHold = holdtimeIdle := hrun init es h0 hne
  have hnd : s.deleted = false := by
    cases hsd : s.deleted with
    | false => rfl
    | true =>
      exfalso
      have : (step c s e).1.deleted = true := by
        unfold step; simp only [hsd, if_true]; cases e <;> simp [onDeleted, hsd]
      simp [this] at hdel
  revert hidle hdel
  unfold step
  simp only [hnd]
  cases e with
  | tick t => exact absurd rfl (ht t)
  | «open» o =>
    cases hs : s.st <;> simp_all [onIdle, onActive, onOpensent, onOpenconfirm, onEstablished,
      notifyIdle, toIdle, holdtimeIdle]
    cases hv : validateOpen c o <;> simp_all [notifyIdle, toIdle, holdtimeIdle]
  | update n =>
    cases hs : s.st <;> simp_all [onIdle, onActive, onOpensent, onOpenconfirm, onEstablished,
      notifyIdle, toIdle, holdtimeIdle]
    split <;> simp_all
  | _ =>
    cases hs : s.st <;> simp_all [onIdle, onActive, onOpensent, onOpenconfirm, onEstablished,
      notifyIdle, closeIdle, toIdle, die, holdtimeIdle]

example : (run ⟨65001, 1, 65002, 90, 30, 30, 0⟩ init
    [.tick 0, .connect, .open ⟨4, 65002, 2, 30⟩, .keepalive, .reset, .tick 30, .connect, .close, .tick 5]).1.st
    = .active := by decide

/-- **prefix_edit_shuts_iff** — one UpdatePeer call editing the prefix limits of any number of
    families, in any order: the peer is shut (adminStatePfxCt, Cease/1 "maximum number of prefixes
    reached") iff SOME family whose limit changed holds more prefixes than its new non-zero limit. -/
theorem prefix_edit_shuts_iff (fs : List FamEdit) :
    pfxEditShuts false fs = true ↔ ∃ f ∈ fs, f.oldMax ≠ f.newMax ∧ famOver f = true := by
  have hgen : ∀ (b : Bool) (fs : List FamEdit),
      pfxEditShuts b fs = true ↔ (b = true ∨ ∃ f ∈ fs, f.oldMax ≠ f.newMax ∧ famOver f = true) := by
    intro b fs
    induction fs generalizing b with
    | nil => simp [pfxEditShuts]
    | cons f r ih =>
      unfold pfxEditShuts
      by_cases hc : f.oldMax ≠ f.newMax
      · by_cases ho : famOver f = true
        · simp [hc, ho, ih]
        · simp [hc, ho, ih]
      · simp [hc, ih]
  simpa using hgen false fs

example : pfxEditShuts false [⟨3, 0, 2⟩, ⟨0, 0, 100⟩] = true := by decide

/-- what the operator's requests and the prefix limit make of the administrative state -/
def adminSpec (c : Cfg) (s : St) (e : Ev) : Admin :=
  match e with
  | .enable => .up
  | .disable => .down
  | .update n =>
    if s.st = .established ∧ c.prefixLimit ≠ 0 ∧ s.rib + n > c.prefixLimit then .pfxct else s.admin
  | _ => s.admin

/-- **admin_state_reported** — the administrative state after a step is the one the last
    operator request (enable / disable) or a prefix-limit overrun implies, nothing else moves
    it; with `edges_allowed` (the reported transitions end in the real session state) this is
    "the reported session/admin state matches the real one" for the model. -/
theorem admin_state_reported (c : Cfg) (s : St) (e : Ev) (hd : s.deleted = false) :
    (step c s e).1.admin = adminSpec c s e := by
  unfold step
  simp only [hd]
  cases e with
  | tick t => simp [adminSpec, advance_admin]
  | «open» o =>
    cases hs : s.st <;> simp [adminSpec, hs, onIdle, onActive, onOpensent, onOpenconfirm, onEstablished,
      notifyIdle, toIdle]
    cases hv : validateOpen c o <;> simp [notifyIdle, toIdle]
  | update n =>
    cases hs : s.st <;> simp [adminSpec, hs, onIdle, onActive, onOpensent, onOpenconfirm, onEstablished,
      notifyIdle, toIdle]
    split <;> simp_all
  | _ =>
    cases hs : s.st <;> simp [adminSpec, hs, onIdle, onActive, onOpensent, onOpenconfirm, onEstablished,
      notifyIdle, closeIdle, toIdle, die]

example : (step ⟨65001, 1, 65002, 90, 30, 30, 2⟩ { init with st := .established, rib := 2 } (.update 1)).1.admin
    = .pfxct := by decide

end C07
