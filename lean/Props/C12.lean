import Model.GR
import Lemmas.GRInv
import Lemmas.GRTimers
/-!
# C12 — graceful-restart and LLGR stale routes live exactly as long as the RFCs allow

All theorems are about `Model/GR.lean`, the hand-written mirror of gobgp's GR/LLGR handling for one
neighbour (fsm.go `established`/`stateChange`, server.go `handleFSMMessage`, peer.go, adj.go), AFTER the
repairs listed in the report (the unrepaired code violates several of them; the harness oracle found
the witnesses).  The tie model ↔ code is the correspondence run of `./check C12` (sampled), not a proof.
The theorems are per transition of the model (`peerDown`, `idlePurge`, `onEOR`, `onLLExpire`, `tick`, …);
no theorem here quantifies over whole histories — that part is sampled by the harness oracle.

`WF p` : every Adj-RIB-In route belongs to a configured family (the harness only announces those).
-/
namespace C12
open GR

/-- every route is of a configured family -/
def WF (p : Peer) : Prop := ∀ r ∈ p.rib, (famIds p).contains r.fam = true

/-! ## 1. which losses are graceful -/

/-- A session loss is treated as a graceful restart iff GR was negotiated and the loss is a transport
failure (read or write), a hold-timer expiry (whether or not the NOTIFICATION could be written), or a
received NOTIFICATION — of ANY error code and subcode except exactly Cease (6) / Hard Reset (9) — while
the N bit was negotiated.  In particular a received Cease/Hard Reset, every NOTIFICATION we sent
whatever its code and subcode (including the prefix-limit Cease) and an administrative shutdown are
never graceful, and subcode 9 under another error code (e.g. 3/9, Optional Attribute Error) IS graceful. -/
theorem graceful_notifRecv (en nb : Bool) (code sub : Nat) :
    graceful en nb (.notifRecv code sub) = (en && nb && !(code == 6 && sub == 9)) := by
  by_cases hc : code = 6 <;> by_cases hs : sub = 9 <;> cases en <;> cases nb <;>
    simp [graceful, classify, rawReason, reasonChGraceful, hc, hs]

theorem graceful_iff (en nb : Bool) (k : Loss) :
    graceful en nb k = true ↔
      en = true ∧ (k = .readFail ∨ k = .writeFail ∨ k = .holdExpiry ∨ k = .holdExpiryWriteErr ∨
                   (∃ code sub, k = .notifRecv code sub ∧ nb = true ∧ ¬ (code = 6 ∧ sub = 9))) := by
  cases k with
  | notifRecv code sub =>
    rw [graceful_notifRecv]
    constructor
    · intro h
      simp only [Bool.and_eq_true, Bool.not_eq_true', Bool.and_eq_false_iff, beq_eq_false_iff_ne, ne_eq] at h
      obtain ⟨⟨he, hn⟩, hcs⟩ := h
      refine ⟨he, Or.inr (Or.inr (Or.inr (Or.inr ⟨code, sub, rfl, hn, ?_⟩)))⟩
      rintro ⟨h1, h2⟩
      rcases hcs with h | h
      · exact h h1
      · exact h h2
    · rintro ⟨he, h⟩
      rcases h with h | h | h | h | ⟨c, s, hk, hn, hcs⟩
      · cases h
      · cases h
      · cases h
      · cases h
      · injection hk with h1 h2
        subst h1; subst h2
        by_cases hc : code = 6 <;> by_cases hs : sub = 9 <;> simp_all
  | notifSent code sub =>
    cases en <;> cases nb <;> simp [graceful, classify, rawReason, reasonChGraceful]
  | _ => cases en <;> cases nb <;> simp [graceful, classify, rawReason, reasonChGraceful]

/-- the received-NOTIFICATION clause on its own, over the whole (code, subcode) space -/
theorem notification_graceful_iff (en nb : Bool) (code sub : Nat) :
    graceful en nb (.notifRecv code sub) = true ↔ en = true ∧ nb = true ∧ ¬ (code = 6 ∧ sub = 9) := by
  rw [graceful_notifRecv]
  by_cases hc : code = 6 <;> by_cases hs : sub = 9 <;> cases en <;> cases nb <;> simp [hc, hs]

/-- no NOTIFICATION we send makes the loss graceful, whatever its code and subcode -/
theorem sent_notification_never_graceful (en nb : Bool) (code sub : Nat) :
    graceful en nb (.notifSent code sub) = false := by
  cases en <;> cases nb <;> simp [graceful, classify, rawReason, reasonChGraceful]

example : graceful true false .holdExpiry = true ∧ graceful true false (.notifRecv 6 6) = false ∧
    graceful true true (.notifRecv 6 6) = true ∧ graceful true true (.notifRecv 6 9) = false ∧
    graceful true true (.notifRecv 3 9) = true ∧ graceful true true (.notifRecv 0 255) = true ∧
    graceful true true .prefixLimit = false ∧ graceful false true .readFail = false := by decide

/-! ## 2. the split on loss -/

/-- Graceful loss: every surviving route is of a family the peer listed in its GR capability and is
marked stale; every route of such a family survives (marked stale, otherwise unchanged). -/
theorem split_on_loss_graceful (p : Peer) (hwf : WF p) :
    (∀ r ∈ (peerDown p true).rib, (grFams p).contains r.fam = true ∧ r.stale = true) ∧
    (∀ r ∈ p.rib, (grFams p).contains r.fam = true → { r with stale := true } ∈ (peerDown p true).rib) := by
  have hg : grFams { p with peerRestarting := true } = grFams p := rfl
  have hf : famIds { p with peerRestarting := true } = famIds p := rfl
  constructor
  · intro r hr
    simp only [peerDown, dropFams, staleAll, hg, hf, if_true] at hr
    rw [List.mem_filter, List.mem_map] at hr
    obtain ⟨⟨r0, hr0, rfl⟩, hkeep⟩ := hr
    by_cases hc : (grFams p).contains r0.fam = true
    · have hc' : r0.fam ∈ grFams p := by simpa using hc
      simp [hc']
    · have hw := hwf r0 hr0
      simp only [hc, Bool.false_eq_true, if_false] at hkeep ⊢
      simp only [Bool.not_eq_true', List.contains_eq_mem, List.mem_filter, decide_eq_false_iff_not] at hkeep
      exfalso
      apply hkeep
      refine ⟨by simpa using hw, ?_⟩
      simpa using hc
  · intro r hr hc
    simp only [peerDown, dropFams, staleAll, hg, hf, if_true]
    rw [List.mem_filter]
    constructor
    · rw [List.mem_map]
      have hc' : r.fam ∈ grFams p := by simpa using hc
      exact ⟨r, hr, by simp [hc']⟩
    · simp only [Bool.not_eq_true', List.contains_eq_mem, List.mem_filter, decide_eq_false_iff_not]
      intro ⟨_, h2⟩
      simp at hc
      simp [hc] at h2

/-- Any other loss removes everything at once and ends any earlier retention. -/
theorem split_on_loss_other (p : Peer) (hwf : WF p) :
    (peerDown p false).rib = [] ∧ (peerDown p false).peerRestarting = false ∧
    (peerDown p false).llTimers = [] := by
  refine ⟨?_, rfl, rfl⟩
  simp only [peerDown, dropFams, Bool.false_eq_true, if_false]
  rw [List.filter_eq_nil_iff]
  intro r hr
  have := hwf r hr
  simpa [stopPeerRestarting, famIds, List.map_map, Function.comp_def] using this

example : WF { cfgGR := true, cfgNotif := false, cfgLL := false, deferral := 0,
               fams := [{ id := 0, mpCfg := true, mpEnabled := true, mpReceived := true }, { id := 1, mpCfg := false, mpEnabled := false }],
               rib := [⟨0, 1, 1, false, 0, false, false⟩, ⟨1, 1, 1, false, 0, false, false⟩] } := by
  intro r hr; simp at hr; rcases hr with rfl | rfl <;> decide

/-! ## 3. lifetime of stale routes without re-establishment -/

/-- Entering the retention: a graceful loss arms the restart timer with the peer's restart time. -/
theorem loss_arms_restart_timer (p : Peer) (k : Loss) (he : p.est = true)
    (hg : graceful p.enabled p.notif k = true) :
    (onLoss p k).restartAt = some (p.now + p.restartTime) ∧ (onLoss p k).peerRestarting = true ∧
    (onLoss p k).est = false := by
  simp [onLoss, onDown, he, hg, onStateChange, peerDown]

/-- Before the restart deadline nothing happens to the Adj-RIB-In or to the restarting state
(no LLGR / deferral timer pending). -/
theorem tick_before_deadline (p : Peer) (d D : Nat) (hr : p.restartAt = some D)
    (hl : p.llTimers = []) (hd : p.defTimers = []) (hlt : p.now + d < D) :
    tick p d = { p with now := p.now + d } := by
  have hnd : nextDue p (p.now + d) = none := by
    simp [nextDue, hr, hl, hd, minBy, pickDue, Nat.not_le.mpr hlt]
  unfold tick advanceTo
  simp [hnd]

/-- When the restart timer expires without re-establishment and LLGR was not negotiated, every
retained route is removed and the restarting state ends. -/
theorem restart_expiry_purges (p : Peer) (hwf : WF p) (he : p.est = false)
    (hpr : p.peerRestarting = true) (hll : p.longLived = false) :
    (onRestartExpire p).rib = [] ∧ (onRestartExpire p).peerRestarting = false := by
  have hrib : (dropFams (famIds p) p.rib) = [] := by
    simp only [dropFams]
    rw [List.filter_eq_nil_iff]
    intro r hr
    simpa using hwf r hr
  simp [onRestartExpire, he, hpr, onStateChange, idlePurge, hll, famIds] at hrib ⊢
  exact hrib

/-- A failed connection attempt during the restart window (a transition to IDLE whose reason is
neither the restart timer nor an administrative shutdown) leaves the retained routes alone. -/
theorem failed_attempt_keeps_stale (p : Peer) (n : Next) (he : p.est = false) (hn : n ≠ .established) :
    stepRaw p (.goto n false) = p := by
  cases n <;> simp_all [stepRaw, onStateChange]

/-! ## 4. after re-establishment: End-of-RIB -/

/-- While the peer is restarting and the session is up, End-of-RIB for a family purges exactly when
it completes the set of GR families of the new session: then precisely the routes still stale (not
re-announced) are withdrawn and the restarting state ends; otherwise nothing changes in the RIB. -/
theorem eor_purge (p : Peer) (f : Nat) (he : p.est = true) (hpr : p.peerRestarting = true)
    (hlr : p.localRestarting = false) :
    (onEOR p f).rib = (if allEOR (markEOR p f) then p.rib.filter (fun r => !r.stale) else p.rib) ∧
    (onEOR p f).peerRestarting = !(allEOR (markEOR p f)) := by
  have h1 : eorLocal p (markEOR p f) = markEOR p f := by simp [eorLocal, hlr]
  have hp1 : (markEOR p f).peerRestarting = true := hpr
  simp only [onEOR, he, Bool.not_true, Bool.false_eq_true, if_false, h1, eorPeer, hp1, if_true]
  by_cases h : allEOR (markEOR p f) = true
  · simp only [h, if_true, Bool.not_true]
    exact ⟨rfl, rfl⟩
  · have h' : allEOR (markEOR p f) = false := by simpa using h
    simp only [h', Bool.false_eq_true, if_false, Bool.not_false]
    exact ⟨rfl, hpr⟩

theorem estDefer_rib (p : Peer) : (estDefer p).rib = p.rib ∧ (estDefer p).peerRestarting = p.peerRestarting := by
  unfold estDefer
  split
  · exact ⟨rfl, rfl⟩
  · split <;> exact ⟨rfl, rfl⟩

/-- RFC 4724 §4.2 at re-establishment, for every family at once: after the transition to ESTABLISHED a
stale route survives only if its family is listed in the NEW GR capability with the Forwarding State bit
set; nothing else is removed (fresh routes and stale routes of such families stay). -/
theorem reestablish_drops_unlisted (p : Peer) (hpr : p.peerRestarting = true) :
    (∀ r ∈ (onEstablished p).rib, r.stale = true → (keepFams p).contains r.fam = true) ∧
    (∀ r ∈ p.rib, (r.stale = false ∨ (keepFams p).contains r.fam = true) → r ∈ (onEstablished p).rib) := by
  have hrib : (onEstablished p).rib = dropStaleUnlisted p := by
    rw [onEstablished, (estDefer_rib _).1]
    simp only [estPurge, hpr, if_true]
  rw [hrib]
  constructor
  · intro r hr hs
    simp only [dropStaleUnlisted, List.mem_filter, hs, Bool.true_and, Bool.not_not] at hr
    exact hr.2
  · intro r hr h
    simp only [dropStaleUnlisted, List.mem_filter]
    refine ⟨hr, ?_⟩
    rcases h with h | h
    · simp [h]
    · have h' : r.fam ∈ keepFams p := by simpa using h
      simp [h']

/-- A peer that comes back listing no GR family at all (e.g. without the capability) has its stale
routes removed at once and the restart ends. -/
theorem reestablish_without_gr_purges (p : Peer) (hpr : p.peerRestarting = true)
    (hg : (grFams p).isEmpty = true) :
    (∀ r ∈ (onEstablished p).rib, r.stale = false) ∧ (onEstablished p).peerRestarting = false := by
  constructor
  · intro r hr
    cases hs : r.stale
    · rfl
    · have := (reestablish_drops_unlisted p hpr).1 r hr hs
      have hk : keepFams p = [] := by
        have : grFams p = [] := by simpa using hg
        simp [keepFams, this]
      simp [hk] at this
  · rw [onEstablished, (estDefer_rib _).2]
    simp [estPurge, hpr, hg, stopPeerRestarting]

/-- When the restart completes — the End-of-RIB that makes the set of awaited markers complete — no
stale route of ANY address family remains, whatever families the new session negotiated, and the
restarting state is over. -/
theorem restart_complete_no_stale (p : Peer) (f : Nat) (he : p.est = true) (hpr : p.peerRestarting = true)
    (hall : allEOR (markEOR p f) = true) :
    (∀ r ∈ (onEOR p f).rib, r.stale = false) ∧ (onEOR p f).peerRestarting = false := by
  have hl : ∀ q : Peer, q.peerRestarting = true → allEOR q = true →
      (∀ r ∈ (eorPeer q).rib, r.stale = false) ∧ (eorPeer q).peerRestarting = false := by
    intro q h1 h2
    simp only [eorPeer, h1, h2, if_true]
    constructor
    · intro r hr
      simp only [dropStale, List.mem_filter] at hr
      simpa using hr.2
    · rfl
  simp only [onEOR, he, Bool.not_true, Bool.false_eq_true, if_false]
  apply hl
  · unfold eorLocal; split <;> exact hpr
  · unfold eorLocal; split <;> exact hall

/-- What the negotiation of a new session yields depends on the new OPEN and the local configuration
only, never on what an earlier session negotiated. -/
theorem negotiation_forgets (p : Peer) (c : Caps) :
    (stateChangeEst p c).enabled = (p.cfgGR && c.gr) ∧
    (stateChangeEst p c).notif = (p.cfgGR && c.gr && (p.cfgNotif && c.nbit)) ∧
    (stateChangeEst p c).longLived = (p.cfgLL && c.gr && c.llgr) := by
  unfold stateChangeEst resetNegotiated
  cases p.cfgGR <;> cases c.gr <;> cases p.cfgLL <;> cases c.llgr <;> simp

/-- A re-announced route is fresh: after an announcement the entry for that (family, prefix) is the
new one, not stale, and it is the only one. -/
theorem announce_fresh (p : Peer) (fam key ver nLL : Nat) (noLL : Bool) (he : p.est = true)
    (hf : (famIds p).contains fam = true) :
    ⟨fam, key, ver, false, nLL, noLL, false⟩ ∈ (onAnnounce p fam key ver noLL nLL).rib ∧
    ∀ r ∈ (onAnnounce p fam key ver noLL nLL).rib, r.fam = fam → r.key = key →
      r = ⟨fam, key, ver, false, nLL, noLL, false⟩ := by
  simp only [onAnnounce, he, hf, Bool.not_true, Bool.false_eq_true, if_false, announce, Bool.or_self]
  constructor
  · simp
  · intro r hr hf hk
    rw [List.mem_append] at hr
    rcases hr with hr | hr
    · rw [List.mem_filter] at hr
      simp [hf, hk] at hr
    · simpa using hr

/-! ## 5. long-lived graceful restart -/

/-- When the restart timer expires with LLGR negotiated (and not already running, and at least one
LLGR family): the routes kept are exactly those of LLGR families without NO_LLGR, each with one more
LLGR_STALE value than before (`nLL + 1`; the harness announces with `nLL = 0`). -/
theorem llgr_mark (p : Peer) (hwf : WF p) (hll : p.longLived = true) (hrun : p.llRun = false) :
    ∀ r', r' ∈ (markLLGR (llFams p) (dropFams ((famIds p).filter (fun f => !(llFams p).contains f)) p.rib)) ↔
      ∃ r ∈ p.rib, (llFams p).contains r.fam = true ∧ r.noLL = false ∧ r' = { r with nLL := r.nLL + 1 } := by
  intro r'
  simp only [markLLGR, dropFams, List.mem_map, List.mem_filter]
  constructor
  · rintro ⟨r, ⟨⟨hr, hkeep⟩, hno⟩, rfl⟩
    have hw := hwf r hr
    have hc : (llFams p).contains r.fam = true := by
      by_cases hc : (llFams p).contains r.fam = true
      · exact hc
      · exfalso
        simp only [Bool.not_eq_true', List.contains_eq_mem, List.mem_filter, decide_eq_false_iff_not] at hkeep
        apply hkeep
        exact ⟨by simpa using hw, by simpa using hc⟩
    have hc' : r.fam ∈ llFams p := by simpa using hc
    refine ⟨r, hr, hc, ?_, by simp [hc']⟩
    simpa [hc'] using hno
  · rintro ⟨r, hr, hc, hno, rfl⟩
    have hc' : r.fam ∈ llFams p := by simpa using hc
    refine ⟨r, ⟨⟨hr, ?_⟩, by simp [hno]⟩, by simp [hc']⟩
    simp only [Bool.not_eq_true', List.contains_eq_mem, List.mem_filter, decide_eq_false_iff_not]
    intro ⟨_, h2⟩
    simp at hc
    simp [hc] at h2

/-- … and that set is what `idlePurge` leaves in the Adj-RIB-In. -/
theorem idlePurge_llgr_rib (p : Peer) (hll : p.longLived = true) (hrun : p.llRun = false) :
    (idlePurge p).rib = markLLGR (llFams p) (dropFams ((famIds p).filter (fun f => !(llFams p).contains f)) p.rib) := by
  have hfold : ∀ (l : List Nat) (q : Peer), (l.foldl startLL q).rib = q.rib := by
    intro l; induction l with
    | nil => intro q; rfl
    | cons a t ih => intro q; simp only [List.foldl_cons]; rw [ih]; rfl
  unfold idlePurge
  simp only [hll, hrun, Bool.not_false, Bool.and_self, if_true]
  split
  · rfl
  · rw [hfold]

/-- LLGR_STALE is attached once: while the long-lived period is running, a further restart-timer
expiry (or any other transition to IDLE) changes nothing. -/
theorem llgr_once (p : Peer) (hll : p.longLived = true) (hrun : p.llRun = true) : idlePurge p = p := by
  simp [idlePurge, hll, hrun]

/-- When the long-lived timer of family `f` expires, no stale route of `f` remains, and fresh routes
(re-announced over a re-established session) are kept. -/
theorem ll_expiry (p : Peer) (f : Nat) :
    (∀ r ∈ (onLLExpire p f).rib, ¬ (r.fam = f ∧ r.stale = true)) ∧
    (∀ r ∈ p.rib, r.stale = false → r ∈ (onLLExpire p f).rib) := by
  cases hall : p.fams.all (fun a => a.id == f || !a.llRunning)
  · constructor
    · intro r hr
      simp only [onLLExpire, hall, Bool.false_eq_true, if_false, dropStaleFam, List.mem_filter] at hr
      intro ⟨hf, hs⟩; simp [hf, hs] at hr
    · intro r hr hs
      simp only [onLLExpire, hall, Bool.false_eq_true, if_false, dropStaleFam, List.mem_filter]
      simp [hr, hs]
  · constructor
    · intro r hr
      simp only [onLLExpire, hall, if_true, stopPeerRestarting, dropStale, dropStaleFam, List.mem_filter] at hr
      intro ⟨_, hs⟩; simp [hs] at hr
    · intro r hr hs
      simp only [onLLExpire, hall, if_true, stopPeerRestarting, dropStale, dropStaleFam, List.mem_filter]
      simp [hr, hs]

/-- When the last long-lived timer expires, no stale route remains at all and the restarting state ends. -/
theorem ll_last_expiry (p : Peer) (f : Nat) (hall : p.fams.all (fun a => a.id == f || !a.llRunning) = true) :
    (onLLExpire p f).rib.all (fun r => !r.stale) = true ∧ (onLLExpire p f).peerRestarting = false ∧
    (onLLExpire p f).llRun = false := by
  simp [onLLExpire, hall, stopPeerRestarting, dropStale, List.all_filter]

/-! ## 6. a second loss during the restart window -/

/-- A second graceful loss (session re-established, not yet synchronised, lost again): every route of
a GR family — stale from the first loss or re-announced since — is retained and stale, and the restart
timer runs anew from the second loss.  (gobgp does not implement RFC 4724 §4.2 "a route previously
marked as stale MUST be deleted" for consecutive restarts; the property as stated does not ask for it.) -/
theorem second_loss (p : Peer) (k : Loss) (he : p.est = true)
    (hg : graceful p.enabled p.notif k = true)
    (hall : ∀ r ∈ p.rib, (grFams p).contains r.fam = true) :
    (onLoss p k).rib = p.rib.map (fun r => { r with stale := true }) ∧
    (onLoss p k).restartAt = some (p.now + p.restartTime) := by
  have h1 : staleAll (grFams p) p.rib = p.rib.map (fun r => { r with stale := true }) := by
    unfold staleAll
    apply List.map_congr_left
    intro r hr
    rw [if_pos (hall r hr)]
  have h2 : ∀ l : List Route, (∀ r ∈ l, (grFams p).contains r.fam = true) →
      dropFams ((famIds p).filter (fun f => !(grFams p).contains f)) l = l := by
    intro l hl
    unfold dropFams
    rw [List.filter_eq_self]
    intro r hr
    have := hl r hr
    simp only [Bool.not_eq_true', List.contains_eq_mem, List.mem_filter, decide_eq_false_iff_not]
    intro ⟨_, h3⟩
    simp at this
    simp [this] at h3
  have hrib : (onLoss p k).rib =
      dropFams ((famIds p).filter (fun f => !(grFams p).contains f)) (staleAll (grFams p) p.rib) := by
    simp only [onLoss, onDown, he, hg, onStateChange, peerDown, Bool.not_true, Bool.false_eq_true, if_false, if_true]
    rfl
  constructor
  · rw [hrib, h1, h2]
    intro r hr
    rw [List.mem_map] at hr
    obtain ⟨r0, hr0, rfl⟩ := hr
    exact hall r0 hr0
  · simp [onLoss, onDown, he, hg, onStateChange, peerDown]

/-! ## 7. the restarting speaker defers its advertisements -/

/-- While `LocalRestarting` is set nothing is advertised to the neighbour. -/
theorem deferral_suppresses (p : Peer) (h : p.localRestarting = true) : needToAdvertise p = false := by
  simp [needToAdvertise, h]

/-- … and that holds for EVERY way routes can be handed to the neighbour — a route change, a change of
its RT membership (either way), its ROUTE-REFRESH, a soft reset out, a locally added or deleted path, a
VRF path: in the model each of them goes through the one gate (`sendsOn`), which the deferral harness
compares with what gobgp queues toward the peer for each trigger kind, deferred and not. -/
theorem deferral_suppresses_every_trigger (p : Peer) (h : p.localRestarting = true) :
    ∀ t : Trigger, sendsOn p t = false := by
  intro t; simp [sendsOn, needToAdvertise, h]

/-- once the deferral is over an established neighbour is served on every trigger -/
theorem every_trigger_serves_after_deferral (p : Peer) (he : p.est = true) (h : p.localRestarting = false) :
    ∀ t : Trigger, sendsOn p t = true := by
  intro t; simp [sendsOn, needToAdvertise, he, h]

/-- On entering ESTABLISHED the deferral ends at once only if no End-of-RIB is awaited from the peer;
otherwise a deferral timer is started and `LocalRestarting` stays. -/
theorem deferral_on_established (p : Peer) (h : p.localRestarting = true) (hpr : p.peerRestarting = false) :
    (onEstablished p).localRestarting = !(allEOR p) ∧
    (allEOR p = false → (onEstablished p).defTimers = p.defTimers ++ [(p.now + p.deferral, p.deferral)]) := by
  by_cases ha : allEOR p = true <;> simp [onEstablished, estPurge, estDefer, h, hpr, ha]

/-- An End-of-RIB ends the deferral iff it is the last one awaited. -/
theorem eorPeer_localRestarting (q : Peer) : (eorPeer q).localRestarting = q.localRestarting := by
  unfold eorPeer
  split
  · split <;> rfl
  · rfl

theorem deferral_on_eor (p : Peer) (f : Nat) (he : p.est = true) (h : p.localRestarting = true) :
    (onEOR p f).localRestarting = !(allEOR (markEOR p f)) := by
  simp only [onEOR, he, Bool.not_true, Bool.false_eq_true, if_false, eorPeer_localRestarting, eorLocal, h, Bool.true_and]
  have hl1 : (markEOR p f).localRestarting = true := h
  by_cases ha : allEOR (markEOR p f) = true
  · simp [ha]
  · have ha' : allEOR (markEOR p f) = false := by simpa using ha
    simp [ha', hl1]

/-- The deferral timer ends the deferral when it fires on an established session (unless the session
went down less than the deferral time ago). -/
theorem deferral_on_timer (p : Peer) (dt : Nat) (he : p.est = true) (hd : p.downtime = none) :
    (onDeferralExpire p dt).localRestarting = false := by
  cases h : p.localRestarting <;> simp [onDeferralExpire, hd, he, h]

/-- No other event touches `LocalRestarting`: announcements, withdrawals, losses and FSM transitions
below ESTABLISHED leave it as it is. -/
theorem deferral_only_eor_or_timer (p : Peer) :
    (∀ f k v n l rj, (stepRaw p (.ann f k v l n rj)).localRestarting = p.localRestarting) ∧
    (∀ f k, (stepRaw p (.wd f k)).localRestarting = p.localRestarting) ∧
    (∀ k, (onLoss p k).localRestarting = p.localRestarting) := by
  refine ⟨?_, ?_, ?_⟩
  · intro f k v n l rj; simp only [stepRaw, onAnnounce]; split <;> rfl
  · intro f k; simp only [stepRaw, onWithdraw]; split <;> rfl
  · intro k
    simp only [onLoss, onDown]
    split
    · rfl
    · rename_i he
      have he' : p.est = true := by simpa using he
      cases hg : graceful p.enabled p.notif k <;>
        simp [onStateChange, he', peerDown, stopPeerRestarting]

/-! ## 8. LLGR_STALE routes: least preferred, exported only to LLGR-capable neighbours -/

/-- A route is withheld (withdrawn) from a neighbour exactly when it carries LLGR_STALE and the
neighbour did not negotiate LLGR for the family. -/
theorem llgr_export (peerLLGR stale : Bool) :
    exportWithdraws peerLLGR stale = true ↔ (stale = true ∧ peerLLGR = false) := by
  cases peerLLGR <;> cases stale <;> decide

/-- The LLGR step of the decision process prefers the path without LLGR_STALE and is silent otherwise
(its place in the chain, before every other step, is C03's subject). -/
theorem llgr_least_preferred (s1 s2 : Bool) :
    (compareLLGR s1 s2 = 1 ↔ (s1 = false ∧ s2 = true)) ∧ (compareLLGR s1 s2 = 2 ↔ (s1 = true ∧ s2 = false)) := by
  cases s1 <;> cases s2 <;> decide

/-! ## 9. every history

`GR.run p0 es` is the model state after the event history `es` (session establishment with any
capabilities, loss of any kind, failed connection attempts / administrative shutdown below ESTABLISHED,
announce, withdraw, End-of-RIB, clock steps of any length — the timers fire inside) from a neighbour `p0`
before its first session (`GR.Init`).  The only assumption on the events is `GR.EvOK`: the peer does not
itself announce routes already carrying LLGR_STALE.  The invariant `GR.Inv` (Lemmas/GRInv.lean) is the
harness oracle's deadline rule as a predicate; it is proved inductive over `GR.step` for EVERY event, and
`GR.Timely` (Lemmas/GRTimers.lean: no pending timer is overdue — the fuel of `advanceTo` always suffices)
holds after every event. -/

/-- the invariant and the no-overdue-timer property hold after every history -/
theorem C12_inv_run (p0 : Peer) (hi : Init p0) (es : List Ev) (hok : ∀ e ∈ es, EvOK e) :
    Inv (run p0 es) ∧ Timely (run p0 es) :=
  ⟨inv_run es p0 hok (inv_init p0 hi), timely_run es p0 (timely_init p0 hi)⟩

/-- NO ROUTE OUTLIVES ITS ALLOWANCE.  After every history, a STALE route in the Adj-RIB-In is there only
while the peer is restarting, and then one of three things holds:
* the session is re-established and End-of-RIB is still awaited (the stale routes of families the new GR
  capability does not keep went at the re-establishment, `reestablish_drops_unlisted`; all others go at
  the last awaited End-of-RIB, `restart_complete_no_stale`);
* the restart timer is running: it was armed at the recorded loss instant `t0` with the restart time the
  peer advertised, and the present instant is strictly before `t0 + restartTime`;
* an LLGR timer is running and the present instant is strictly before its deadline. -/
theorem C12_no_route_outlives_its_allowance (p0 : Peer) (hi : Init p0) (es : List Ev)
    (hok : ∀ e ∈ es, EvOK e) :
    ∀ r ∈ (run p0 es).rib, r.stale = true →
      (run p0 es).peerRestarting = true ∧
      ((run p0 es).est = true ∨
       (∃ t0, (run p0 es).downtime = some t0 ∧ (run p0 es).restartAt = some (t0 + (run p0 es).restartTime) ∧
              (run p0 es).now < t0 + (run p0 es).restartTime) ∨
       (∃ t ∈ (run p0 es).llTimers, (run p0 es).now < t.2)) := by
  obtain ⟨hinv, htime⟩ := C12_inv_run p0 hi es hok
  intro r hr hs
  obtain ⟨hpr, hor⟩ := hinv.stale r hr hs
  refine ⟨hpr, ?_⟩
  rcases hor with h1 | h1 | h1
  · exact Or.inl h1
  · right; left
    cases hra : (run p0 es).restartAt with
    | none => exact absurd hra h1
    | some D =>
      obtain ⟨t0, ht0, hD⟩ := hinv.core.rst D hra
      exact ⟨t0, ht0, by rw [hD], by rw [← hD]; exact htime.2 D hra⟩
  · right; right
    cases hl : (run p0 es).llTimers with
    | nil => exact absurd hl h1
    | cons t ts => exact ⟨t, List.mem_cons_self .., htime.1 t (by rw [hl]; exact List.mem_cons_self ..)⟩

/-- LLGR-stale routes, after every history: LLGR_STALE is carried at most once; a route carrying it is
stale, the long-lived period is running, and an LLGR timer OF ITS OWN FAMILY is pending and not overdue.
`_partial`: what is missing for the full deadline statement is that this pending deadline equals
(start of the long-lived period) + (the LLGR time the peer advertised for the family) — that equation is
proved for the transition that starts the timer (`ll_timer_deadline`), not carried through histories
(a later session may re-negotiate the family's time while the timer keeps running). -/
theorem C12_llgr_stale_deadline_partial (p0 : Peer) (hi : Init p0) (es : List Ev)
    (hok : ∀ e ∈ es, EvOK e) :
    ∀ r ∈ (run p0 es).rib, r.nLL ≤ 1 ∧
      (r.nLL = 1 → r.stale = true ∧ (run p0 es).llRun = true ∧
        ∃ D, (r.fam, D) ∈ (run p0 es).llTimers ∧ (run p0 es).now < D) := by
  obtain ⟨hinv, htime⟩ := C12_inv_run p0 hi es hok
  intro r hr
  obtain ⟨h1, h2⟩ := hinv.core.nll r hr
  refine ⟨h1, fun h3 => ?_⟩
  obtain ⟨h4, h5, D, hD⟩ := h2 h3
  exact ⟨h4, h5, D, hD, htime.1 _ hD⟩

/-- the deadline an LLGR timer is started with: now + the family's advertised LLGR time -/
theorem ll_timer_deadline (q : Peer) (f : Nat) :
    (startLL q f).llTimers = q.llTimers ++ [(f, q.now + ((q.fams.find? (·.id == f)).map (·.llTime)).getD 0)] := rfl

/-- After every history: once the restart is over — by End-of-RIB, by a timer, by a non-graceful loss, by
the peer returning without graceful restart — no stale route of any family is left. -/
theorem C12_no_stale_route_once_restart_is_over (p0 : Peer) (hi : Init p0) (es : List Ev)
    (hok : ∀ e ∈ es, EvOK e) (hpr : (run p0 es).peerRestarting = false) :
    ∀ r ∈ (run p0 es).rib, r.stale = false := by
  intro r hr
  cases hs : r.stale
  · rfl
  · have := ((C12_inv_run p0 hi es hok).1.stale r hr hs).1
    rw [hpr] at this; exact absurd this (by simp)

/-- After every history: while the session is down every route held is stale — a route that is not
stale was announced (or re-announced) over the current session. -/
theorem C12_fresh_routes_only_in_a_session (p0 : Peer) (hi : Init p0) (es : List Ev)
    (hok : ∀ e ∈ es, EvOK e) (hd : (run p0 es).est = false) :
    ∀ r ∈ (run p0 es).rib, r.stale = true :=
  (C12_inv_run p0 hi es hok).1.core.down hd

/-- STALE ONLY AFTER A GRACEFUL LOSS.  In a history whose losses are all of kinds that are never
graceful (administrative shutdown, prefix-limit teardown, a NOTIFICATION we sent — `neverGraceful`; for
the state-dependent kinds `graceful_iff` says when they are), the peer is never restarting and no route
is ever stale. -/
theorem C12_stale_only_after_graceful_loss (p0 : Peer) (hi : Init p0) (hpr0 : p0.peerRestarting = false)
    (es : List Ev) (hok : ∀ e ∈ es, EvOK e) (hng : ∀ e ∈ es, NoGraceful e) :
    (run p0 es).peerRestarting = false ∧ ∀ r ∈ (run p0 es).rib, r.stale = false := by
  have h1 : (run p0 es).peerRestarting = false := nr_run es p0 hng hpr0
  exact ⟨h1, C12_no_stale_route_once_restart_is_over p0 hi es hok h1⟩

/-! ## 10. the peer object goes away; what is reported -/

/-- DELETE PURGES.  When the neighbour is deleted (DeletePeer, UpdatePeer needing a new OPEN, StopBgp) —
in whatever phase: established, restart timer running, long-lived period, deferral — nothing of it is
left: no route, no restart state, no restart or LLGR timer; the neighbour configured again starts clean.
(`.del` is an event of the histories the theorems of §9 quantify over, so they hold across deletions.) -/
theorem delete_purges (p : Peer) :
    (onDelete p).rib = [] ∧ (onDelete p).restartAt = none ∧ (onDelete p).llTimers = [] ∧
    (onDelete p).peerRestarting = false ∧ (onDelete p).llRun = false ∧ (onDelete p).est = false ∧
    (onDelete p).enabled = false ∧ (∀ f, received (onDelete p) f = 0 ∧ accepted (onDelete p) f = 0) :=
  ⟨rfl, rfl, rfl, rfl, rfl, rfl, rfl, fun _ => ⟨rfl, rfl⟩⟩

/-- Marking the routes of a lost session stale changes nothing of what is reported about them: per
family the number of routes received and the number accepted (not rejected at reception) are the same. -/
theorem staleAll_keeps_counters (fs : List Nat) (rib : List Route) (f : Nat) :
    ((staleAll fs rib).filter (fun r => r.fam == f)).length = (rib.filter (fun r => r.fam == f)).length ∧
    ((staleAll fs rib).filter (fun r => r.fam == f && !r.rej)).length =
      (rib.filter (fun r => r.fam == f && !r.rej)).length := by
  have key : ∀ q : Route → Bool,
      (∀ r : Route, q (if fs.contains r.fam = true then { r with stale := true } else r) = q r) →
      ((staleAll fs rib).filter q).length = (rib.filter q).length := by
    intro q hq
    have hfun : (q ∘ fun r : Route => if fs.contains r.fam = true then { r with stale := true } else r) = q :=
      funext hq
    simp only [staleAll, List.filter_map, List.length_map, hfun]
  constructor
  · apply key; intro r; split <;> rfl
  · apply key; intro r; split <;> rfl

/-- the accepted count never exceeds the received count -/
theorem accepted_le_received (p : Peer) (f : Nat) : accepted p f ≤ received p f := by
  unfold accepted received
  induction p.rib with
  | nil => simp
  | cons r t ih =>
    simp only [List.filter_cons]
    by_cases h1 : (r.fam == f) = true <;> by_cases h2 : r.rej = true <;> simp [h1, h2] <;> omega

/-- non-vacuity: a neighbour with two families; GR (restart time 20) and LLGR (25 s for family 0)
negotiated; two routes; transport failure; 10 s later both routes are held stale under the restart
timer; 15 s later (restart timer expired) the LLGR family's route is LLGR-stale under its timer. -/
def exPeer : Peer :=
  { cfgGR := true, cfgNotif := false, cfgLL := true, deferral := 30,
    fams := [{ id := 0, mpCfg := true, mpEnabled := true }, { id := 1, mpCfg := true, mpEnabled := true }] }

def exCaps : Caps :=
  { gr := true, nbit := false, rbit := false, time := 20, tuples := [0, 1], llgr := true, ltuples := [(0, 25)], mp := [0, 1] }

def exHistory : List Ev :=
  [.est exCaps, .ann 0 1 1 false 0 false, .ann 1 1 1 false 0 false, .eor 0, .eor 1, .loss .readFail, .tick 10]

example : Init exPeer := ⟨rfl, rfl, rfl, rfl, rfl, by decide⟩
theorem exHistory_ok : ∀ e ∈ exHistory, EvOK e := by
  intro e he
  simp only [exHistory, List.mem_cons, List.mem_nil_iff, or_false] at he
  rcases he with rfl | rfl | rfl | rfl | rfl | rfl | rfl <;> simp [EvOK]
example : (run exPeer exHistory).rib = [⟨0, 1, 1, true, 0, false, false⟩, ⟨1, 1, 1, true, 0, false, false⟩] ∧
    (run exPeer exHistory).restartAt = some 20 ∧ (run exPeer exHistory).now = 10 ∧
    (run exPeer exHistory).peerRestarting = true := by decide
example : (run exPeer (exHistory ++ [.tick 15])).rib = [⟨0, 1, 1, true, 1, false, false⟩] ∧
    (run exPeer (exHistory ++ [.tick 15])).llTimers = [(0, 45)] ∧
    (run exPeer (exHistory ++ [.tick 15])).now = 25 := by decide
example : (run exPeer (exHistory ++ [.tick 15, .tick 20])).rib = [] ∧
    (run exPeer (exHistory ++ [.tick 15, .tick 20])).peerRestarting = false := by decide

end C12
