import Model.ApiConv
import Props.C18X
import Lemmas.Wire
import Lemmas.ApiConv
/-!
  C18 — API and native representations convert losslessly in both directions.

  What is PROVED here is about the model `Model/ApiConv.lean` (mirror of pkg/apiutil
  MarshalPathAttributes / UnmarshalAttribute / UnmarshalPathAttributes, MarshalNLRI / UnmarshalNLRI for
  IPv4 prefixes, MarshalCapability / unmarshalCapability) over the fragment shared with the wire model
  `Model/Wire.lean`: 14 attribute types, IPv4 prefixes, 9 capability kinds.  Everything else of the
  protobuf surface (MP_REACH/UNREACH, the other 25 families, extended communities, tunnel-encap,
  prefix-SID, BGP-LS, AIGP, PMSI, the config / policy converters, AddPath/ListPath) is only SAMPLED by
  the Go oracles of the C18 harnesses; props/C18.json says so.

  Reading guide:
   * `fromApi_toApi`       native -> API -> native is `rebuild` (stated independently in the model):
                           the value rebuilt by the New… constructor, i.e. flags/length recomputed,
                           AS numbers 4-octet, segment counts recomputed;
   * `rebuild_eq_self`     on the form the RIB holds (`Canonical`: well-formed, constructor flags,
                           4-octet AS kinds) `rebuild` is the identity, so the trip is lossless;
   * `wire_preserved`      hence the same octets are emitted after the trip;
   * `…_counterexample`    the hypotheses of `rebuild_eq_self` are needed: PARTIAL bit, an unneeded
                           EXTENDED_LENGTH bit, 2-octet AS_PATH / AGGREGATOR do not survive (the API has
                           no field for them) — the full-strength statement "for every native value" is false;
   * `toApi_fromApi`       API -> native -> API is the identity on API values within the ranges Marshal
                           produces (`ApiOk`); `fromApi_total_on_ok` says they are all accepted;
   * `attrs_roundtrip`     the list level, with the duplicate-type rejection of UnmarshalPathAttributes;
   * `prefix_roundtrip`, `cap_fromApi_toApi`, `cap_wire_preserved` the same for IPv4 NLRI / capabilities.
-/
namespace C18
open Wire ApiConv

/-- 4-octet-AS session options: the form every attribute has inside the daemon -/
def o4 : Opts := ⟨false, false, false, false⟩

/-- the address-valued fields of a native attribute hold addresses (netip.Addr of the right family) -/
def AddrOk (a : Attr) : Prop :=
  match a.val with
  | .nextHop addr => addr.length = 4 ∨ addr.length = 16
  | .aggregator _ _ addr => addr < 4294967296
  | .originatorId x => x < 4294967296
  | .clusterList ids => ∀ v ∈ ids, v < 4294967296
  | .as4Aggregator _ addr => addr < 4294967296
  | _ => True

/-- **native -> API -> native.**  For every native attribute of a modelled type (any flags, any cached
    length, 2- or 4-octet AS numbers) UnmarshalAttribute accepts what MarshalPathAttributes produced and
    returns exactly `rebuild a`. -/
theorem fromApi_toApi (a : Attr) (h : AddrOk a) : fromApiAttr (toApiAttr a) = some (rebuild a) := by
  obtain ⟨flags, typ, length, val⟩ := a
  cases val with
  | asPath segs => simp only [toApiAttr, fromApiAttr, rebuild, map_fromApiSeg_toApiSeg]
  | as4Path segs => simp only [toApiAttr, fromApiAttr, rebuild, map_fromApiSeg_toApiSeg]
  | clusterList ids =>
    simp only [AddrOk] at h
    simp only [toApiAttr, fromApiAttr, rebuild, all_isV4_be32, map_rd32_be32 ids h, if_true]
  | nextHop addr =>
    simp only [AddrOk] at h
    simp only [toApiAttr, fromApiAttr, rebuild, h, if_true]
  | aggregator as4 as addr =>
    simp only [AddrOk] at h
    simp only [toApiAttr, fromApiAttr, rebuild, isV4_be32, rd32_be32' addr h, if_true]
  | originatorId x =>
    simp only [AddrOk] at h
    simp only [toApiAttr, fromApiAttr, rebuild, isV4_be32, rd32_be32' x h, if_true]
  | as4Aggregator as addr =>
    simp only [AddrOk] at h
    simp only [toApiAttr, fromApiAttr, rebuild, isV4_be32, rd32_be32' addr h, if_true]
  | origin v => rfl
  | med v => rfl
  | localPref v => rfl
  | atomicAgg => rfl
  | communities vs => rfl
  | largeComm vs => rfl
  | unknown v => rfl

example : AddrOk (mkAsPath [mkSeg false 2 [65001, 65002]]) := trivial
example : AddrOk ⟨224, 8, 8, .communities [1, 2]⟩ := trivial
example : AddrOk (mkClusterList [1, 2]) := by intro v hv; simp [mkClusterList] at hv; omega

/-- a NEXT_HOP whose address is not valid is refused on the way back (netip.Addr{} prints "invalid IP") -/
theorem fromApi_toApi_bad_nexthop (f t l : Nat) (addr : Bytes) (h : ¬(addr.length = 4 ∨ addr.length = 16)) :
    fromApiAttr (toApiAttr ⟨f, t, l, .nextHop addr⟩) = none := by
  simp [toApiAttr, fromApiAttr, h]

/-- The form attributes have in the RIB: well formed for a 4-octet session (`AttrWF` of Lemmas/Wire:
    cached length = emitted length, extended-length bit whenever needed, flags valid for the type, value
    in range, AS segments 4-octet with 1..255 members) and, for the known types, exactly the flags the
    constructor gives (no PARTIAL bit, no unneeded EXTENDED_LENGTH) and a 4-octet AGGREGATOR. -/
def Canonical (a : Attr) : Prop :=
  AttrWF o4 a ∧
  (match a.val with
   | .unknown _ => True
   | .aggregator as4 _ _ => as4 = true ∧ a.flags = getPathAttrFlags a.typ a.length
   | _ => a.flags = getPathAttrFlags a.typ a.length)

theorem canonical_addrOk {a : Attr} (h : Canonical a) : AddrOk a := by
  obtain ⟨flags, typ, length, val⟩ := a
  obtain ⟨⟨_, _, _, _, _, _, hv⟩, _⟩ := h
  cases val <;> simp only [ValWF] at hv <;> simp only [AddrOk]
  · exact hv.2
  · exact hv.2.2
  · exact hv.2
  · exact hv.2
  · exact hv.2.2

/-- **lossless on RIB-form values**: the API trip rebuilds exactly the same object -/
theorem rebuild_eq_self (a : Attr) (h : Canonical a) : rebuild a = a := by
  obtain ⟨flags, typ, length, val⟩ := a
  obtain ⟨⟨hf, ht, hl, hlt, hext, _, hv⟩, hc⟩ := h
  simp only at hf ht hl hlt hext hc
  cases val with
  | origin v =>
    obtain ⟨rfl, hv⟩ := hv
    simp only [encVal, List.length_cons, List.length_nil] at hl
    subst hl
    simp [rebuild, mkOrigin, Nat.mod_eq_of_lt hv, hc, getPathAttrFlags, pathAttrFlags, FLAG_EXT]
  | asPath segs =>
    obtain ⟨rfl, hv⟩ := hv
    have hv' : ∀ s ∈ segs, SegWF true s := hv
    have hlen := encSegs_length segs hv'
    simp only [encVal] at hl
    simp only [rebuild, map_rebuildSeg_of_wf segs hv', mkAsPath]
    rw [← hlen, ← hl, Nat.mod_eq_of_lt hlt, hc]
  | nextHop addr =>
    obtain ⟨rfl, hv⟩ := hv
    simp only [encVal] at hl
    subst hl
    rcases hv with h4 | h16
    · simp [rebuild, mkNextHop, h4, hc, getPathAttrFlags, pathAttrFlags]
    · simp [rebuild, mkNextHop, h16, hc, getPathAttrFlags, pathAttrFlags]
  | med v =>
    obtain ⟨rfl, _⟩ := hv
    simp only [encVal, be32_length] at hl
    subst hl
    simp [rebuild, mkMed, hc, getPathAttrFlags, pathAttrFlags]
  | localPref v =>
    obtain ⟨rfl, _⟩ := hv
    simp only [encVal, be32_length] at hl
    subst hl
    simp [rebuild, mkLocalPref, hc, getPathAttrFlags, pathAttrFlags]
  | atomicAgg =>
    have hv' : typ = 6 := hv
    subst hv'
    simp only [encVal, List.length_nil] at hl
    subst hl
    simp [rebuild, mkAtomicAgg, hc, getPathAttrFlags, pathAttrFlags]
  | aggregator as4 as addr =>
    obtain ⟨rfl, _, _⟩ := hv
    obtain ⟨rfl, hc⟩ := hc
    simp only [encVal, if_true, List.length_append, be32_length] at hl
    subst hl
    simp [rebuild, mkAggregator, hc, getPathAttrFlags, pathAttrFlags]
  | communities vs =>
    obtain ⟨rfl, _⟩ := hv
    simp only [encVal, encU32s_length] at hl
    simp only [rebuild, mkCommunities]
    rw [← hl, Nat.mod_eq_of_lt hlt, hc]
  | originatorId x =>
    obtain ⟨rfl, _⟩ := hv
    simp only [encVal, be32_length] at hl
    subst hl
    simp [rebuild, mkOriginatorId, hc, getPathAttrFlags, pathAttrFlags]
  | clusterList ids =>
    obtain ⟨rfl, _⟩ := hv
    simp only [encVal, encU32s_length] at hl
    simp only [rebuild, mkClusterList]
    rw [← hl, Nat.mod_eq_of_lt hlt, hc]
  | as4Path segs =>
    obtain ⟨rfl, hv⟩ := hv
    have hlen := encSegs_length segs hv
    simp only [encVal] at hl
    simp only [rebuild, map_rebuildSeg_of_wf segs hv, mkAs4Path]
    rw [← hlen, ← hl, Nat.mod_eq_of_lt hlt, hc]
  | as4Aggregator as addr =>
    obtain ⟨rfl, _, _⟩ := hv
    simp only [encVal, List.length_append, be32_length] at hl
    subst hl
    simp [rebuild, mkAs4Aggregator, hc, getPathAttrFlags, pathAttrFlags]
  | largeComm vs =>
    obtain ⟨rfl, _⟩ := hv
    simp only [encVal, encLarge_length] at hl
    simp only [rebuild, mkLargeComm]
    rw [← hl, Nat.mod_eq_of_lt hlt, hc]
  | unknown v =>
    simp only [encVal] at hl
    simp only [rebuild, mkUnknown, Nat.mod_eq_of_lt hf, Nat.mod_eq_of_lt ht]
    rw [← hl, Nat.mod_eq_of_lt hlt]
    have : (decide (length > 255) && !hasBit flags FLAG_EXT) = false := by
      rcases hext with he | hle
      · simp [he]
      · have : ¬ length > 255 := by omega
        simp [this]
    simp [this]

/-- **same wire octets after the trip** (`encAttr` = PathAttribute….Serialize of Model/Wire.lean) -/
theorem wire_preserved (a : Attr) (h : Canonical a) :
    ∃ a', fromApiAttr (toApiAttr a) = some a' ∧ encAttr a' = encAttr a ∧ attrLen a' = attrLen a :=
  ⟨rebuild a, fromApi_toApi a (canonical_addrOk h), by rw [rebuild_eq_self a h], by rw [rebuild_eq_self a h]⟩

/-- `Canonical` is satisfiable by non-trivial values: a two-segment AS_PATH, a communities attribute
    and an unknown optional transitive attribute with the PARTIAL bit (kept for unknown types) -/
example : Canonical (mkAsPath [mkSeg true 2 [65001, 4200000000], mkSeg true 1 [7]]) := by
  refine ⟨⟨by decide, by decide, by decide, by decide, by decide, by decide, ?_⟩, rfl⟩
  refine ⟨rfl, ?_⟩
  intro s hs
  simp only [List.mem_cons, List.mem_nil_iff, or_false] at hs
  rcases hs with rfl | rfl
  · refine ⟨rfl, by decide, by decide, by decide, by decide, by decide, ?_⟩
    intro a ha; simp [mkSeg] at ha; rcases ha with rfl | rfl <;> decide
  · refine ⟨rfl, by decide, by decide, by decide, by decide, by decide, ?_⟩
    intro a ha; simp [mkSeg] at ha; subst ha; decide

example : Canonical (mkUnknown 224 99 [1, 2, 3]) :=
  ⟨⟨by decide, by decide, by decide, by decide, by decide, by decide,
    (by show pathAttrFlags 99 = none; decide)⟩, trivial⟩

/-! ### the hypotheses are needed: what does NOT survive the API -/

/-- full strength ("every native value converts to an API value that reproduces the same wire bytes")
    is FALSE of the faithful model; four witnesses, each replayed on the real code by the harness corpus. -/
theorem partial_flag_counterexample :
    let a : Attr := ⟨224, 8, 4, .communities [65001 * 65536 + 1]⟩      -- received with the PARTIAL bit
    AttrWF o4 a ∧ fromApiAttr (toApiAttr a) = some (mkCommunities [65001 * 65536 + 1]) ∧
    encAttr (mkCommunities [65001 * 65536 + 1]) ≠ encAttr a := by
  refine ⟨⟨by decide, by decide, by decide, by decide, by decide, by decide, ?_⟩, by decide, by decide⟩
  exact ⟨rfl, by intro v hv; simp at hv; omega⟩

theorem unneeded_ext_flag_counterexample :
    let a : Attr := ⟨80, 1, 1, .origin 0⟩                               -- EXTENDED_LENGTH on a 1-octet value
    AttrWF o4 a ∧ fromApiAttr (toApiAttr a) = some (mkOrigin 0) ∧ encAttr (mkOrigin 0) ≠ encAttr a := by
  refine ⟨⟨by decide, by decide, by decide, by decide, by decide, by decide, ?_⟩, by decide, by decide⟩
  exact ⟨rfl, by decide⟩

theorem two_octet_aspath_counterexample :
    let a : Attr := mkAsPath [mkSeg false 2 [65001]]                     -- AS_PATH as a 2-octet peer sends it
    fromApiAttr (toApiAttr a) = some (mkAsPath [mkSeg true 2 [65001]]) ∧
    encAttr (mkAsPath [mkSeg true 2 [65001]]) ≠ encAttr a := by
  exact ⟨by decide, by decide⟩

theorem two_octet_aggregator_counterexample :
    let a : Attr := mkAggregator false 65001 167772161
    fromApiAttr (toApiAttr a) = some (mkAggregator true 65001 167772161) ∧
    encAttr (mkAggregator true 65001 167772161) ≠ encAttr a := by
  exact ⟨by decide, by decide⟩

/-! ### API -> native -> API -/

/-- API values within the ranges MarshalPathAttributes produces: uint8 fields below 256, address texts
    that parse to IPv4 where the code demands it, the extended-length bit present on long unknown values -/
def ApiOk : ApiAttr → Prop
  | .unknown f t v => f < 256 ∧ t < 256 ∧ (v.length > 255 → hasBit f FLAG_EXT = true)
  | .origin o => o < 256
  | .asPath segs => ∀ s ∈ segs, ApiSegOk s
  | .nextHop addr => addr.length = 4 ∨ addr.length = 16
  | .aggregator _ addr => Octets4 addr
  | .originatorId id => Octets4 id
  | .clusterList ids => ∀ b ∈ ids, Octets4 b
  | .as4Path segs => ∀ s ∈ segs, ApiSegOk s
  | .as4Aggregator _ addr => Octets4 addr
  | .unset => False
  | _ => True

theorem isV4_of_octets {b : Bytes} (h : Octets4 b) : isV4 b = true := by simp [isV4, h.1]

/-- **API -> native -> API** is the identity on `ApiOk` values, and they are all accepted -/
theorem toApi_fromApi (x : ApiAttr) (h : ApiOk x) : ∃ a, fromApiAttr x = some a ∧ toApiAttr a = x := by
  cases x with
  | unknown f t v =>
    obtain ⟨hf, ht, he⟩ := h
    refine ⟨_, rfl, ?_⟩
    simp only [toApiAttr, mkUnknown, Nat.mod_eq_of_lt hf, Nat.mod_eq_of_lt ht]
    by_cases hl : v.length > 255
    · simp [he hl]
    · simp [hl]
  | origin o => exact ⟨_, rfl, by simp [toApiAttr, mkOrigin, Nat.mod_eq_of_lt h]⟩
  | asPath segs => exact ⟨_, rfl, by simp [toApiAttr, mkAsPath, map_toApiSeg_fromApiSeg segs h]⟩
  | nextHop addr =>
    have h' : addr.length = 4 ∨ addr.length = 16 := h
    exact ⟨mkNextHop addr, by simp only [fromApiAttr, h', if_true], by simp [toApiAttr, mkNextHop]⟩
  | med v => exact ⟨_, rfl, rfl⟩
  | localPref v => exact ⟨_, rfl, rfl⟩
  | atomicAgg => exact ⟨_, rfl, rfl⟩
  | aggregator asn addr =>
    exact ⟨mkAggregator true asn (rd32 addr), by simp [fromApiAttr, isV4_of_octets h],
      by simp [toApiAttr, mkAggregator, be32_rd32_of addr h]⟩
  | communities vs => exact ⟨_, rfl, rfl⟩
  | originatorId id =>
    exact ⟨mkOriginatorId (rd32 id), by simp [fromApiAttr, isV4_of_octets h],
      by simp [toApiAttr, mkOriginatorId, be32_rd32_of id h]⟩
  | clusterList ids =>
    exact ⟨mkClusterList (ids.map rd32), by simp [fromApiAttr, all_isV4_of ids h],
      by simp only [toApiAttr, mkClusterList, map_be32_rd32 ids h]⟩
  | as4Path segs => exact ⟨_, rfl, by simp [toApiAttr, mkAs4Path, map_toApiSeg_fromApiSeg segs h]⟩
  | as4Aggregator asn addr =>
    exact ⟨mkAs4Aggregator asn (rd32 addr), by simp [fromApiAttr, isV4_of_octets h],
      by simp [toApiAttr, mkAs4Aggregator, be32_rd32_of addr h]⟩
  | largeComm vs => exact ⟨_, rfl, rfl⟩
  | unset => exact absurd h (by simp [ApiOk])

example : ApiOk (.asPath [⟨2, [65001, 4200000000]⟩, ⟨1, []⟩]) := by
  intro s hs; simp at hs; rcases hs with rfl | rfl <;> simp [ApiSegOk]
example : ApiOk (.aggregator 65001 [10, 0, 0, 1]) := ⟨rfl, by intro x hx; simp at hx; omega⟩

/-- outside `ApiOk` the trip normalises: an ORIGIN of 256 comes back as 0 (uint8 conversion) -/
theorem origin_truncation_counterexample :
    ∃ a, fromApiAttr (.origin 256) = some a ∧ toApiAttr a = .origin 0 := ⟨_, rfl, rfl⟩

/-- what Marshal produces from any native value satisfies `ApiOk` except for unknown attributes
    whose long value lacks the extended-length bit and ORIGIN / segment types beyond a uint8 — i.e. on
    `Canonical` natives `toApiAttr a` is `ApiOk` and the two theorems compose -/
theorem toApi_fromApi_toApi (a : Attr) (h : Canonical a) :
    ∃ a', fromApiAttr (toApiAttr a) = some a' ∧ toApiAttr a' = toApiAttr a :=
  ⟨rebuild a, fromApi_toApi a (canonical_addrOk h), by rw [rebuild_eq_self a h]⟩

/-! ### the list level: UnmarshalPathAttributes ∘ MarshalPathAttributes -/

theorem fromApiAttrsAux_toApi : ∀ (l : List Attr) (seen : List Nat),
    (∀ a ∈ l, AddrOk a) →
    (∀ a ∈ l, (rebuild a).typ ∉ seen) →
    (l.map fun a => (rebuild a).typ).Nodup →
    fromApiAttrsAux seen (toApiAttrs l) = some (l.map rebuild)
  | [], _, _, _, _ => rfl
  | a :: as, seen, hok, hseen, hnd => by
    have hnd' := List.nodup_cons.mp hnd
    simp only [toApiAttrs, List.map_cons, fromApiAttrsAux]
    rw [fromApi_toApi a (hok a (by simp))]
    have hns : seen.contains (rebuild a).typ = false := by
      simpa using hseen a (by simp)
    simp only [hns]
    have ih := fromApiAttrsAux_toApi as ((rebuild a).typ :: seen)
      (fun x hx => hok x (by simp [hx]))
      (fun x hx => by
        intro hm
        rcases List.mem_cons.mp hm with he | hm
        · exact hnd'.1 (List.mem_map.mpr ⟨x, hx, he⟩)
        · exact hseen x (by simp [hx]) hm)
      hnd'.2
    simp only [toApiAttrs] at ih
    simp [ih]

/-- **lists of attributes**: when no attribute type occurs twice (after the rebuild: unknown types are
    taken mod 256) the whole list converts element-wise … -/
theorem attrs_roundtrip (l : List Attr) (hok : ∀ a ∈ l, AddrOk a)
    (hnd : (l.map fun a => (rebuild a).typ).Nodup) :
    fromApiAttrs (toApiAttrs l) = some (l.map rebuild) :=
  fromApiAttrsAux_toApi l [] hok (fun _ _ => by simp) hnd

/-- … and on RIB-form lists it is the identity and re-emits the same octets -/
theorem attrs_wire_preserved (l : List Attr) (hc : ∀ a ∈ l, Canonical a)
    (hnd : (l.map fun a => a.typ).Nodup) :
    fromApiAttrs (toApiAttrs l) = some l := by
  have hmap : l.map rebuild = l := by
    have : ∀ (l : List Attr), (∀ a ∈ l, Canonical a) → l.map rebuild = l := by
      intro l
      induction l with
      | nil => intro _; rfl
      | cons a as ih =>
        intro h
        simp only [List.map_cons]
        rw [rebuild_eq_self a (h a (by simp)), ih (fun x hx => h x (by simp [hx]))]
    exact this l hc
  have hty : (l.map fun a => (rebuild a).typ) = l.map fun a => a.typ := by
    apply List.map_congr_left
    intro a ha
    rw [rebuild_eq_self a (hc a ha)]
  have := attrs_roundtrip l (fun a ha => canonical_addrOk (hc a ha)) (by rw [hty]; exact hnd)
  rw [hmap] at this
  exact this

/-- a second attribute of the same type makes UnmarshalPathAttributes fail (a native list with two
    unknown attributes of one type, which the wire decoder accepts, cannot be listed back) -/
theorem duplicate_type_rejected :
    fromApiAttrs (toApiAttrs [mkUnknown 192 99 [1], mkUnknown 192 99 [2]]) = none := by decide

example : ((([mkOrigin 0, mkMed 5, mkUnknown 192 99 [1]] : List Attr).map fun a => (rebuild a).typ)).Nodup := by
  decide

/-! ### IPv4 NLRI -/

/-- MarshalNLRI / UnmarshalNLRI on an IPv4 prefix as NewIPAddrPrefix or the decoder builds it -/
theorem prefix_roundtrip (p : Prefix) (h : p.wf = true) : fromApiPrefix (toApiPrefix p) = some p := by
  have hb := Prefix.wf_bits h
  have hl := Prefix.wf_len h
  have hm := Prefix.wf_mask h
  obtain ⟨bits, addr⟩ := p
  simp only at hb hl hm
  simp only [fromApiPrefix, toApiPrefix, hl, ne_eq, not_true_eq_false, if_false]
  have : ¬ bits > 32 := by omega
  simp only [this, if_false, maskAddr, hm]

theorem prefix_wire_preserved (p : Prefix) (h : p.wf = true) :
    ∃ p', fromApiPrefix (toApiPrefix p) = some p' ∧ encPrefix p' = encPrefix p :=
  ⟨p, prefix_roundtrip p h, rfl⟩

/-- the API accepts unmasked addresses and masks them (NewIPAddrPrefix): not the identity there -/
theorem prefix_masking_counterexample :
    fromApiPrefix ⟨8, [10, 1, 2, 3]⟩ = some ⟨8, [10, 0, 0, 0]⟩ := by decide

/-- a length beyond 32 is refused -/
theorem prefix_len_rejected (n : Nat) (addr : Bytes) (h : n > 32) : fromApiPrefix ⟨n, addr⟩ = none := by
  simp only [fromApiPrefix]
  by_cases hl : addr.length ≠ 4
  · simp [hl]
  · simp [hl, h]

example : (⟨24, [192, 168, 1, 0]⟩ : Prefix).wf = true := by decide

/-! ### capabilities -/

/-- field ranges of the Go structs (uint16 AFI, uint8 SAFI / mode / flags / code, 12-bit restart time
    is not needed: uint16 is) -/
def CapOk : Cap → Prop
  | .multiProtocol afi safi => afi < 65536 ∧ safi < 256
  | .addPath ts => ∀ t ∈ ts, t.1 < 65536 ∧ t.2.1 < 256 ∧ t.2.2 < 256
  | .gracefulRestart flags time ts =>
    flags < 256 ∧ time < 65536 ∧ ∀ t ∈ ts, t.1 < 65536 ∧ t.2.1 < 256 ∧ t.2.2 < 256
  | .llgr ts => ∀ t ∈ ts, t.1 < 65536 ∧ t.2.1 < 256 ∧ t.2.2.1 < 256
  | .unknown code _ => code < 256
  | _ => True

theorem map_t3_id : ∀ ts : List (Nat × Nat × Nat), (∀ t ∈ ts, t.1 < 65536 ∧ t.2.1 < 256 ∧ t.2.2 < 256) →
    ts.map (fun t => (t.1 % 65536, t.2.1 % 256, t.2.2 % 256)) = ts
  | [], _ => rfl
  | (a, s, x) :: ts, h => by
    obtain ⟨h1, h2, h3⟩ := h (a, s, x) (by simp)
    simp only at h1 h2 h3
    simp only [List.map_cons, Nat.mod_eq_of_lt h1, Nat.mod_eq_of_lt h2, Nat.mod_eq_of_lt h3,
      map_t3_id ts (fun t ht => h t (by simp [ht]))]

theorem map_t4_id : ∀ ts : List (Nat × Nat × Nat × Nat), (∀ t ∈ ts, t.1 < 65536 ∧ t.2.1 < 256 ∧ t.2.2.1 < 256) →
    ts.map (fun t => (t.1 % 65536, t.2.1 % 256, t.2.2.1 % 256, t.2.2.2)) = ts
  | [], _ => rfl
  | (a, s, x, y) :: ts, h => by
    obtain ⟨h1, h2, h3⟩ := h (a, s, x, y) (by simp)
    simp only at h1 h2 h3
    simp only [List.map_cons, Nat.mod_eq_of_lt h1, Nat.mod_eq_of_lt h2, Nat.mod_eq_of_lt h3,
      map_t4_id ts (fun t ht => h t (by simp [ht]))]

/-- **capabilities, native -> API -> native** is the identity on values of the Go field ranges
    (every flag bit included: see fix commit "apiutil keeps every flag bit of the graceful-restart …") -/
theorem cap_fromApi_toApi (c : Cap) (h : CapOk c) : fromApiCap (toApiCap c) = some c := by
  cases c with
  | multiProtocol afi safi =>
    obtain ⟨h1, h2⟩ := h
    simp [toApiCap, fromApiCap, toApiFamily, fromApiFamily, Nat.mod_eq_of_lt h1, Nat.mod_eq_of_lt h2]
  | routeRefresh => rfl
  | extendedMessage => rfl
  | enhancedRouteRefresh => rfl
  | fourOctetAs asn => rfl
  | addPath ts =>
    simp only [toApiCap, fromApiCap, List.map_map, Option.some.injEq, Cap.addPath.injEq]
    exact map_t3_id ts h
  | gracefulRestart flags time ts =>
    obtain ⟨h1, h2, h3⟩ := h
    simp only [toApiCap, fromApiCap, List.map_map, grFlags, Nat.mod_eq_of_lt h1, Nat.mod_eq_of_lt h2,
      Option.some.injEq, Cap.gracefulRestart.injEq, true_and]
    exact map_t3_id ts h3
  | llgr ts =>
    simp only [toApiCap, fromApiCap, List.map_map, Option.some.injEq, Cap.llgr.injEq]
    exact map_t4_id ts h
  | unknown code value =>
    simp [toApiCap, fromApiCap, Nat.mod_eq_of_lt h]

example : CapOk (.gracefulRestart 15 4095 [(1, 1, 255), (25, 70, 128)]) := by
  refine ⟨by decide, by decide, ?_⟩
  intro t ht; simp at ht; rcases ht with rfl | rfl <;> decide

/-- **capabilities re-emit the same octets** — for EVERY value, in range or not (Serialize truncates
    the same way the conversions do) -/
theorem cap_wire_preserved (c : Cap) : ∃ c', fromApiCap (toApiCap c) = some c' ∧ encCap c' = encCap c := by
  cases c with
  | multiProtocol afi safi =>
    exact ⟨_, rfl, by simp [encCap, toApiFamily, fromApiFamily, be16_mod]⟩
  | routeRefresh => exact ⟨_, rfl, rfl⟩
  | extendedMessage => exact ⟨_, rfl, rfl⟩
  | enhancedRouteRefresh => exact ⟨_, rfl, rfl⟩
  | fourOctetAs asn => exact ⟨_, rfl, rfl⟩
  | addPath ts =>
    refine ⟨_, rfl, ?_⟩
    simp only [encCap, List.map_map]
    have := encTuples3_norm (fun x => x % 256) (fun x => Nat.mod_mod x 256) ts
    simp only [Function.comp_def, toApiFamily, fromApiFamily] at this ⊢
    rw [this]
  | gracefulRestart flags time ts =>
    refine ⟨_, rfl, ?_⟩
    simp only [encCap, List.map_map, grFlags, Nat.mod_mod]
    have := encTuples3_norm (fun x => x % 256) (fun x => Nat.mod_mod x 256) ts
    simp only [Function.comp_def, toApiFamily, fromApiFamily, grTupleFlags] at this ⊢
    rw [this]
  | llgr ts =>
    refine ⟨_, rfl, ?_⟩
    simp only [encCap, List.map_map]
    have := encLlgr_norm ts
    simp only [Function.comp_def, toApiFamily, fromApiFamily, grTupleFlags] at this ⊢
    rw [this]
  | unknown code value =>
    exact ⟨_, rfl, by simp [encCap, encCapHdr]⟩

end C18
