import Lemmas.Lock
import Model.LockEdges
import Model.Handoff
/-
C20 — no deadlock (lock-order part) and lockset discipline.  What is proved here, about what:

* `acyclic_no_deadlock`   (general, induction over runs of the abstract lock machine Model/Lock.lean):
  if every lock request respects a strict order (`ok l' l → rank l' < rank l`), no reachable state has
  a cycle of threads each waiting for the next — with RW locks and writer preference.
* `lock_edges_ranked`, `lock_edges_acyclic`, `no_same_class_nesting` (by `decide` on the table
  Model/LockEdges.lean): the lock-order edges of the Go code respect the numbering `Cls.rank`; in
  particular the class graph is acyclic and no class is requested while a lock of the same class is held.
* `code_lock_order_no_deadlock`: the two together — a program whose requests are all listed edges never
  deadlocks on locks, whatever the mapping of lock instances to classes.
* `documented_hierarchy_differs`: exactly where the code departs from the documented hierarchy
  shared → refresh → bucket → shard → fsm (it is still acyclic).
* `mutual_exclusion`, `guarded_accesses_exclusive`: two threads never hold a lock in conflicting
  modes; hence two access sites that satisfy the lockset rule of a guarded datum (on the same lock
  instances) are never occupied at the same time.
* `deadlock_without_order`, `recursive_rlock_deadlocks`: the discipline is needed (the second is the shape
  of the defect found in TableManager.Update → handleMacMobility → GetPathListWithMac).

NOT proved (sampled / outside): that the extracted edge list is complete (trusted translator), data
races in general, channel blocking, goroutine leaks, shutdown — see props/C20.json.
-/
namespace C20
open Lock LockEdges

/-- Full statement of the lock-order theorem. -/
theorem acyclic_no_deadlock (ok : LockId → LockId → Prop) (rank : LockId → Nat)
    (hok : ∀ a b, ok a b → rank a < rank b) (s : St) (hr : Reachable ok s) : ¬ Deadlocked s := by
  intro ⟨t, p⟩
  have hinv := ordInv_reachable hok hr
  have := path_increases hinv p (path_head p)
  omega

/-- hypotheses satisfiable, non-trivially: under the order `<` on lock ids a state is reachable in
which thread 1 is blocked on a lock thread 0 holds (a wait-for edge exists, a cycle cannot) -/
example : ∃ s, Reachable (fun a b => a < b) s ∧ waitsFor s 1 0 := by
  let s1 := setWait St.init 0 (some (5, .W))
  let s2 := setHeld (setWait s1 0 none) 0 5 (some .W)
  let s3 := setWait s2 1 (some (5, .W))
  refine ⟨s3, ?_, ?_⟩
  · have r1 : Reachable (fun a b => a < b) s1 :=
      .step .init (.request St.init 0 5 .W rfl (by intro l' h; simp [St.init] at h))
    have r2 : Reachable (fun a b => a < b) s2 :=
      .step r1 (.grant s1 0 5 .W (by simp [s1, setWait]) (by intro t'; simp [s1, setWait, St.init]))
    exact .step r2 (.request s2 1 5 .W (by simp [s2, s1, setHeld, setWait, St.init])
      (by intro l' h; simp [s2, s1, setHeld, setWait, St.init] at h))
  · exact ⟨5, .W, by simp [s3, setWait], Or.inl (by simp [s3, s2, setHeld, setWait])⟩

/-- every expected edge of the code goes up in `Cls.rank` -/
theorem lock_edges_ranked : ∀ e ∈ edges, e.1.1.rank < e.2.1.rank := by decide

theorem lock_edges_acyclic (a b : Cls) (h : edgeOk a b = true) : a.rank < b.rank := by
  unfold edgeOk at h
  rw [List.any_eq_true] at h
  obtain ⟨e, he, hab⟩ := h
  simp at hab
  obtain ⟨h1, h2⟩ := hab
  have := lock_edges_ranked e he
  rw [h1, h2] at this
  exact this

example : edgeOk .bucket .refresh = true ∧ edgeOk .shared .bucket = true := by decide

/-- no lock is requested while a lock of the same class is held (two buckets, two shards, two
peers' refresh or fsm locks never nest; no recursive read lock) -/
theorem no_same_class_nesting (c : Cls) : edgeOk c c = false := by
  cases c <;> decide

/-- A program that only makes lock requests listed in `edges` (class of the held lock → class of the
requested lock, for ANY assignment `cls` of lock instances to classes) cannot deadlock on locks. -/
theorem code_lock_order_no_deadlock (cls : LockId → Cls) (s : St)
    (hr : Reachable (fun l' l => edgeOk (cls l') (cls l) = true) s) : ¬ Deadlocked s :=
  acyclic_no_deadlock _ (fun l => (cls l).rank) (fun a b h => lock_edges_acyclic (cls a) (cls b) h) s hr

example : ∃ s, Reachable (fun l' l => edgeOk ((fun n => if n = 0 then Cls.shared else Cls.bucket) l')
    ((fun n => if n = 0 then Cls.shared else Cls.bucket) l) = true) s ∧ (s.held 7 0).isSome ∧ s.wait 7 = some (3, .W) := by
  let cls : LockId → Cls := fun n => if n = 0 then Cls.shared else Cls.bucket
  let ok : LockId → LockId → Prop := fun l' l => edgeOk (cls l') (cls l) = true
  let s1 := setWait St.init 7 (some (0, .R))
  let s2 := setHeld (setWait s1 7 none) 7 0 (some .R)
  let s3 := setWait s2 7 (some (3, .W))
  refine ⟨s3, ?_, by simp [s3, s2, setHeld, setWait], by simp [s3, setWait]⟩
  have r1 : Reachable ok s1 := .step .init (.request St.init 7 0 .R rfl (by intro l' h; simp [St.init] at h))
  have r2 : Reachable ok s2 :=
    .step r1 (.grant s1 7 0 .R (by simp [s1, setWait]) (by
      constructor
      · intro t'; simp [s1, setWait, St.init]
      · intro t' hne; simp [s1, setWait, St.init, hne]))
  refine .step r2 (.request s2 7 3 .W (by simp [s2, s1, setHeld, setWait]) ?_)
  intro l' h
  simp only [s2, s1, setHeld, setWait, St.init] at h
  by_cases e : l' = 0
  · subst e; decide
  · simp [e] at h

/-- The code's order differs from the documented hierarchy shared → refresh → bucket → shard → fsm in
exactly these edges: the bucket lock is taken BEFORE the per-peer refresh lock, and fsm.lock is not
innermost (a shard read lock is taken under it, via isPrefixLimit → AdjRib.Count). -/
theorem documented_hierarchy_differs :
    againstDocumented = [((.bucket, .W), (.refresh, .R)), ((.bucket, .W), (.refresh, .W)), ((.fsm, .W), (.shard, .R))] := by
  decide

/-- two different threads never hold the same lock unless both hold it in read mode -/
theorem mutual_exclusion (ok : LockId → LockId → Prop) (s : St) (hr : Reachable ok s)
    (t1 t2 : Tid) (l : LockId) (m1 m2 : Mode) (hne : t1 ≠ t2)
    (h1 : s.held t1 l = some m1) (h2 : s.held t2 l = some m2) : m1 = .R ∧ m2 = .R :=
  mutexInv_reachable hr t1 t2 l m1 m2 hne h1 h2

/-- thread `t` holds, for every class in `h`, the instance `inst c` in the listed mode -/
def HoldsAll (s : St) (t : Tid) (inst : Cls → LockId) (h : Held) : Prop :=
  ∀ c m, (c, m) ∈ h → s.held t (inst c) = some m

theorem guard_conflict (g : Guard) (hg : g = .sentPaths ∨ g = .underFsm ∨ g = .underShardW)
    (h1 h2 : Held) (ok1 : guardOk g h1 = true) (ok2 : guardOk g h2 = true) :
    ∃ c m1 m2, (c, m1) ∈ h1 ∧ (c, m2) ∈ h2 ∧ (m1 = .W ∨ m2 = .W) := by
  rcases hg with rfl | rfl | rfl
  · simp [guardOk, has, hasAny] at ok1 ok2
    rcases ok1 with ⟨b1, r1⟩ | w1
    · rcases ok2 with ⟨b2, _⟩ | w2
      · exact ⟨.bucket, .W, .W, b1, b2, Or.inl rfl⟩
      · rcases r1 with r1 | r1
        · exact ⟨.refresh, .W, .W, r1, w2, Or.inl rfl⟩
        · exact ⟨.refresh, .R, .W, r1, w2, Or.inr rfl⟩
    · rcases ok2 with ⟨_, r2⟩ | w2
      · rcases r2 with r2 | r2
        · exact ⟨.refresh, .W, .W, w1, r2, Or.inl rfl⟩
        · exact ⟨.refresh, .W, .R, w1, r2, Or.inl rfl⟩
      · exact ⟨.refresh, .W, .W, w1, w2, Or.inl rfl⟩
  · simp [guardOk, has] at ok1 ok2
    exact ⟨.fsm, .W, .W, ok1, ok2, Or.inl rfl⟩
  · simp [guardOk, has] at ok1 ok2
    exact ⟨.shard, .W, .W, ok1, ok2, Or.inl rfl⟩

/-- (ii) Two threads are never simultaneously at access sites of the same guarded datum when both sites
satisfy the datum's lockset rule — `inst` picks, per class, the lock instance that belongs to the datum
(the bucket of the prefix, the refresh lock / fsm.lock of the peer, the shard of the destination). -/
theorem guarded_accesses_exclusive (ok : LockId → LockId → Prop) (s : St) (hr : Reachable ok s)
    (g : Guard) (hg : g = .sentPaths ∨ g = .underFsm ∨ g = .underShardW)
    (inst : Cls → LockId) (t1 t2 : Tid) (hne : t1 ≠ t2) (h1 h2 : Held)
    (ok1 : guardOk g h1 = true) (ok2 : guardOk g h2 = true)
    (hold1 : HoldsAll s t1 inst h1) (hold2 : HoldsAll s t2 inst h2) : False := by
  obtain ⟨c, m1, m2, in1, in2, hw⟩ := guard_conflict g hg h1 h2 ok1 ok2
  have := mutual_exclusion ok s hr t1 t2 (inst c) m1 m2 hne (hold1 c m1 in1) (hold2 c m2 in2)
  rcases hw with hw | hw
  · rw [hw] at this; exact absurd this.1 (by decide)
  · rw [hw] at this; exact absurd this.2 (by decide)

/-- The datum rule "what leaves a shard lock is a copy": live shard state (a *destination stored in a
shard map, a slice aliasing its knownPathList) handed to a caller that does not hold the shard lock is
acceptable under NO set of held locks — every such flow the extractor finds is a violation. -/
theorem escape_rule_unsatisfiable (h : Held) : guardOk .never h = false := rfl

example : guardOf "shardEscape" false = some .never := rfl

example : guardOk .sentPaths [(.shared, .R), (.bucket, .W), (.refresh, .R)] = true
    ∧ guardOk .sentPaths [(.shared, .W), (.refresh, .W)] = true
    ∧ guardOk .sentPaths [(.shared, .R), (.bucket, .W)] = false := by decide

/-- Without an order the machine does deadlock (so `Deadlocked` is not vacuous): AB / BA. -/
theorem deadlock_without_order : ∃ s, Reachable (fun _ _ => True) s ∧ Deadlocked s := by
  let ok : LockId → LockId → Prop := fun _ _ => True
  let s1 := setWait St.init 0 (some (0, .W))
  let s2 := setHeld (setWait s1 0 none) 0 0 (some .W)
  let s3 := setWait s2 1 (some (1, .W))
  let s4 := setHeld (setWait s3 1 none) 1 1 (some .W)
  let s5 := setWait s4 0 (some (1, .W))
  let s6 := setWait s5 1 (some (0, .W))
  refine ⟨s6, ?_, 0, ?_⟩
  · have r1 : Reachable ok s1 := .step .init (.request St.init 0 0 .W rfl (fun _ _ => trivial))
    have r2 : Reachable ok s2 :=
      .step r1 (.grant s1 0 0 .W (by simp [s1, setWait]) (by intro t'; simp [s1, setWait, St.init]))
    have r3 : Reachable ok s3 :=
      .step r2 (.request s2 1 1 .W (by simp [s2, s1, setHeld, setWait, St.init]) (fun _ _ => trivial))
    have r4 : Reachable ok s4 :=
      .step r3 (.grant s3 1 1 .W (by simp [s3, setWait]) (by
        intro t'; simp [s3, s2, s1, setHeld, setWait, St.init]))
    have r5 : Reachable ok s5 :=
      .step r4 (.request s4 0 1 .W (by simp [s4, s3, s2, s1, setHeld, setWait]) (fun _ _ => trivial))
    exact .step r5 (.request s5 1 0 .W (by simp [s5, s4, s3, setHeld, setWait]) (fun _ _ => trivial))
  · refine .cons (b := 1) ⟨1, .W, by simp [s6, s5, setWait], Or.inl ?_⟩
      (.single ⟨0, .W, by simp [s6, setWait], Or.inl ?_⟩)
    · simp [s6, s5, s4, setHeld, setWait]
    · simp [s6, s5, s4, s3, s2, setHeld, setWait]

/-- A recursive read lock deadlocks as soon as a writer queues up in between (writer preference):
thread 0 holds lock 0 for reading, thread 1 calls Lock, thread 0 calls RLock again.  This is the shape
of the defect found in gobgp (TableManager.Update → handleMacMobility → GetPathListWithMac). -/
theorem recursive_rlock_deadlocks : ∃ s, Reachable (fun l' l => l' = l) s ∧ Deadlocked s := by
  let ok : LockId → LockId → Prop := fun l' l => l' = l
  let s1 := setWait St.init 0 (some (0, .R))
  let s2 := setHeld (setWait s1 0 none) 0 0 (some .R)
  let s3 := setWait s2 1 (some (0, .W))
  let s4 := setWait s3 0 (some (0, .R))
  refine ⟨s4, ?_, 0, ?_⟩
  · have r1 : Reachable ok s1 :=
      .step .init (.request St.init 0 0 .R rfl (by intro l' h; simp [St.init] at h))
    have r2 : Reachable ok s2 :=
      .step r1 (.grant s1 0 0 .R (by simp [s1, setWait]) (by
        constructor
        · intro t'; simp [s1, setWait, St.init]
        · intro t' hne; simp [s1, setWait, St.init, hne]))
    have r3 : Reachable ok s3 :=
      .step r2 (.request s2 1 0 .W (by simp [s2, s1, setHeld, setWait, St.init])
        (by intro l' h; simp [s2, s1, setHeld, setWait, St.init] at h))
    refine .step r3 (.request s3 0 0 .R (by simp [s3, s2, setHeld, setWait]) ?_)
    intro l' h
    simp only [s3, s2, s1, setHeld, setWait, St.init] at h
    by_cases e : l' = 0
    · exact e
    · simp [e] at h
  · refine .cons (b := 1) ⟨0, .R, by simp [s4, setWait], Or.inr ⟨rfl, ?_⟩⟩
      (.single ⟨0, .W, by simp [s4, s3, setWait], Or.inl ?_⟩)
    · simp [s4, s3, setWait]
    · simp [s4, s3, s2, setHeld, setWait]

/-! ### (iii) joined goroutines: one-shot producers on buffered channels -/

open Handoff in
theorem handoff_inv (cap sends : Nat) (h : sends ≤ cap) (c : Ch)
    (hr : Handoff.Reachable (start cap sends) c) : c.cap = cap ∧ c.buf + c.toSend ≤ c.cap := by
  induction hr with
  | init => simp [start]; exact h
  | step _ hs ih =>
    cases hs with
    | sendBuf h1 h2 => simp at *; omega
    | sendDirect h1 h2 => simp at *; omega
    | recv h1 h2 => simp at *; omega
    | leave => simp at *; exact ih

/-- A producer that makes at most `cap` sends on a channel of capacity `cap` is never blocked, whatever
the consumer does — in particular after the consumer has left to join it. -/
theorem buffered_producer_never_blocks (cap sends : Nat) (h : Handoff.handoffOk cap sends = true)
    (c : Handoff.Ch) (hr : Handoff.Reachable (Handoff.start cap sends) c) : ¬ Handoff.Blocked c := by
  have hle : sends ≤ cap := by simpa [Handoff.handoffOk] using h
  obtain ⟨_, hinv⟩ := handoff_inv cap sends hle c hr
  intro ⟨hpos, hns⟩
  apply hns
  left
  omega

example : Handoff.handoffOk 1 1 = true ∧ Handoff.handoffOk 3 2 = true ∧ Handoff.handoffOk 0 1 = false := by decide

/-- On an unbuffered channel the producer is blocked exactly when the consumer is gone … -/
theorem unbuffered_blocked_iff_consumer_left (c : Handoff.Ch) (hcap : c.cap = 0) (hpos : 0 < c.toSend) :
    Handoff.Blocked c ↔ c.consumer = false := by
  unfold Handoff.Blocked Handoff.canSend
  constructor
  · intro ⟨_, h⟩
    cases hc : c.consumer with
    | false => rfl
    | true => exact absurd (Or.inr hc) h
  · intro hc
    refine ⟨hpos, ?_⟩
    intro h
    rcases h with h | h
    · omega
    · rw [hc] at h; exact absurd h (by decide)

/-- … and then it stays blocked for ever (the spawner's wg.Wait() never returns): the state reached by
`make(chan *fsmMsg)` + one message read + the handler leaving through a returning branch. -/
theorem unbuffered_blocked_forever (c c' : Handoff.Ch) (hcap : c.cap = 0) (hb : Handoff.Blocked c)
    (hs : Handoff.Step c c') : Handoff.Blocked c' ∧ c'.cap = 0 := by
  obtain ⟨hpos, hns⟩ := hb
  have hcons : c.consumer = false := by
    cases hc : c.consumer with
    | false => rfl
    | true => exact absurd (Or.inr hc) hns
  cases hs with
  | sendBuf _ h2 => omega
  | sendDirect _ h2 => rw [hcons] at h2; exact absurd h2 (by decide)
  | recv h1 _ => rw [hcons] at h1; exact absurd h1 (by decide)
  | leave =>
    refine ⟨⟨hpos, ?_⟩, hcap⟩
    intro h
    rcases h with h | h
    · simp at h; omega
    · simp at h

/-- the blocked state is reachable with an unbuffered channel and a single message -/
theorem unbuffered_one_shot_can_block :
    ∃ c, Handoff.Reachable (Handoff.start 0 1) c ∧ Handoff.Blocked c :=
  ⟨_, .step .init (.leave _), by
    refine ⟨by decide, ?_⟩
    intro h
    rcases h with h | h
    · exact absurd h (by decide)
    · exact absurd h (by decide)⟩

end C20
