import Lemmas.As4
/-!
# C14 — the 2-octet / 4-octet AS transition (RFC 6793) loses nothing

All theorems are about `Model/As4.lean`, the hand-written mirror of
`internal/pkg/table/message.go` (`UpdatePathAttrs2ByteAs` = `down`, `UpdatePathAttrs4ByteAs` = `up`
/ `upAttr`, `UpdatePathAggregator2ByteAs/4ByteAs` = `aggDown` / `aggUp`) and of
`validateAsPathValueBytes` (`validateBytes`), as the code stands AFTER the four `fix:` commits on
branch wt-C14.  The tie model ↔ code is the correspondence run of `./check C14` (sampled), not a proof.

The pinned commit does NOT have the property; its behaviour is kept in the model as `downOld`,
`upOld`, `upAttrOld` and the four `…_counterexample` theorems below state the defects on the
concrete witnesses that the harness replays on the real code.

Vocabulary (`Model/As4.lean`): `Wire p` – every segment has a type 1..4 and 1..255 members (what
the wire can carry); `flat p` – the AS_PATH as a sequence of items, one per AS of an AS_SEQUENCE,
one per AS_SET / confederation segment (so it does not see where AS_SEQUENCEs are cut);
`confedTrans p` – `p` with the 4-octet members of confederation segments replaced by AS_TRANS;
`asLen` – the AS count of route selection (SET = 1, confederation = 0).
-/
namespace C14
open As4

/-! ## the form sent to a 2-octet peer is well-formed -/

/-- For every wire-valid AS_PATH: the 2-octet AS_PATH keeps the segment structure, is wire-valid
and all its members fit 16 bits; an AS4_PATH, when one is emitted, has at least one segment, is
wire-valid and holds no confederation segment. -/
theorem down_wf (p : Path) (h : Wire p) :
    Wire (down p).1 ∧ (∀ s ∈ (down p).1, ∀ a ∈ s.as, a < 65536) ∧
    (∀ q, (down p).2 = some q → q ≠ [] ∧ Wire q ∧ ∀ s ∈ q, isConfed s.typ = false) := by
  refine ⟨Wire_down2 h, ?_, ?_⟩
  · intro s hs a ha
    simp only [down, down2, List.mem_map] at hs
    obtain ⟨t, _, rfl⟩ := hs
    simp only [List.mem_map] at ha
    obtain ⟨b, _, rfl⟩ := ha
    exact trans_lt b
  · intro q hq
    simp only [down] at hq
    split at hq
    · rename_i hc
      simp only [Bool.and_eq_true, Bool.not_eq_true', List.isEmpty_eq_false_iff] at hc
      injection hq with hq
      subst hq
      refine ⟨hc.2, ?_, ?_⟩
      · intro s hs
        exact h s (List.mem_filter.mp hs).1
      · intro s hs
        have := (List.mem_filter.mp hs).2
        simpa using this
    · cases hq

/-- …and octet for octet: the serialised values pass `validateAsPathValueBytes` with the width
the receiver will use (2 for AS_PATH towards an OLD speaker, 4 for AS4_PATH). -/
theorem down_bytes_valid (p : Path) (h : Wire p) :
    validateBytes 2 (serSegs 2 (down p).1) = true ∧
    (∀ q, (down p).2 = some q → validateBytes 4 (serSegs 4 q) = true) := by
  have hw := down_wf p h
  exact ⟨validateBytes_ser 2 (by decide) _ hw.1,
    fun q hq => validateBytes_ser 4 (by decide) q (hw.2.2 q hq).2.1⟩

example : Wire [⟨3, [70000, 2]⟩, ⟨1, [7, 80000]⟩, ⟨2, [1, 70000, 23456]⟩] := by
  intro s hs; simp at hs; rcases hs with rfl | rfl | rfl <;> decide

example : down [⟨3, [70000, 2]⟩, ⟨1, [7, 80000]⟩, ⟨2, [1, 70000, 23456]⟩] =
    ([⟨3, [23456, 2]⟩, ⟨1, [7, 23456]⟩, ⟨2, [1, 23456, 23456]⟩],
     some [⟨1, [7, 80000]⟩, ⟨2, [1, 70000, 23456]⟩]) := by decide

/-! ## round trip -/

/-- **Round trip.** For every RFC-valid AS_PATH `c ++ q` – a leading run `c` of confederation
segments, then any mix `q` of AS_SEQUENCE / AS_SET segments (a leading SET included), every
segment with 1..255 members, members of any size – reconstructing from the form sent to a 2-octet
peer gives back the same sequence of ASes, sets and confederation segments, except that 4-octet
members of confederation segments come back as AS_TRANS (AS4_PATH must not carry them). -/
theorem up_down (c q : Path)
    (hc : ∀ s ∈ c, isConfed s.typ = true) (hq : ∀ s ∈ q, isConfed s.typ = false)
    (hw : Wire (c ++ q)) :
    flat (up (down (c ++ q)).1 (down (c ++ q)).2) = flat (confedTrans (c ++ q)) := by
  rw [up_down_eq c q hc hq hw]
  split
  · rw [merge_flat, confedTrans_append, confedTrans_confed hc, confedTrans_plain hq, flat_append]
  · rfl

/-- **Round trip, segment for segment.** If in addition the AS_SEQUENCE segments of the path are
packed (of two adjacent AS_SEQUENCEs the first has 255 members — the shape the reconstruction
itself produces), the very same segment list comes back.  Without that hypothesis only `up_down`
holds: adjacent AS_SEQUENCEs are concatenated and re-cut at 255 whenever an AS4_PATH was needed. -/
theorem up_down_exact (c q : Path)
    (hc : ∀ s ∈ c, isConfed s.typ = true) (hq : ∀ s ∈ q, isConfed s.typ = false)
    (hw : Wire (c ++ q)) (hp : Packed q) :
    up (down (c ++ q)).1 (down (c ++ q)).2 = confedTrans (c ++ q) := by
  rw [up_down_eq c q hc hq hw]
  split
  · rw [merge_packed _ q (Wire_append.mp hw).2 hp, confedTrans_append, confedTrans_confed hc,
      confedTrans_plain hq]
    intro last hl h2
    have hm : last ∈ down2 c := List.mem_of_getLast? hl
    simp only [down2, List.mem_map] at hm
    obtain ⟨v, hv, rfl⟩ := hm
    have := confed_segLen (hc v hv)
    simp only at h2
    unfold segLen at this
    rw [if_pos h2] at this
    have hvv := (validSeg_iff v).mp ((Wire_append.mp hw).1 v hv)
    omega
  · rfl

/-- the hypotheses of `up_down` / `up_down_exact` are satisfiable by a non-trivial path: a
confederation run with a 4-octet member, a leading AS_SET, AS_SEQUENCEs separated by a set -/
example :
    let c : Path := [⟨3, [70000, 2]⟩, ⟨4, [9]⟩]
    let q : Path := [⟨1, [7, 80000]⟩, ⟨2, [70000, 65536]⟩, ⟨1, [4]⟩, ⟨2, [1, 70000]⟩]
    up (down (c ++ q)).1 (down (c ++ q)).2 = confedTrans (c ++ q) := by
  intro c q
  apply up_down_exact c q
  · intro s hs; simp [c] at hs; rcases hs with rfl | rfl <;> rfl
  · intro s hs; simp [q] at hs; rcases hs with rfl | rfl | rfl | rfl <;> rfl
  · intro s hs; simp [c, q] at hs
    rcases hs with rfl | rfl | rfl | rfl | rfl | rfl <;> simp [validSeg]
  · simp [q, Packed]

/-- the segmentation CAN change when the path is not packed (here 2 + 1 members become 3) -/
theorem up_down_resegments :
    up (down [⟨2, [1, 2]⟩, ⟨2, [70000]⟩]).1 (down [⟨2, [1, 2]⟩, ⟨2, [70000]⟩]).2 =
      [⟨2, [1, 2, 70000]⟩] := by decide

example : Packed [⟨1, [7, 80000]⟩, ⟨2, [1, 70000]⟩, ⟨1, [5]⟩] := by simp [Packed]

example : up (down [⟨3, [70000, 2]⟩, ⟨1, [7, 80000]⟩, ⟨2, [1, 70000]⟩]).1
             (down [⟨3, [70000, 2]⟩, ⟨1, [7, 80000]⟩, ⟨2, [1, 70000]⟩]).2 =
    [⟨3, [23456, 2]⟩, ⟨1, [7, 80000]⟩, ⟨2, [1, 70000]⟩] := by decide

/-! ## reconstruction from arbitrary pairs -/

/-- **Safety of the reconstruction** for every independently chosen wire-valid pair
(AS_PATH `a` with members already widened, AS4_PATH `a4`, confederation segments allowed anywhere
in either): the result is wire-valid (no empty segment, none above 255 members, known types);
its AS count equals that of the AS_PATH (so it is never longer); an AS4_PATH that counts more ASes
than the AS_PATH is ignored; otherwise the result reads as a leading part of the AS_PATH followed
by the AS4_PATH without its confederation segments (RFC 6793 §4.2.3). -/
theorem up_safe (a a4 : Path) (ha : Wire a) (h4 : Wire a4) :
    Wire (up a (some a4)) ∧
    asLen (up a (some a4)) = asLen a ∧
    (asLen a < asLen (dropConfed a4) → up a (some a4) = a) ∧
    (asLen (dropConfed a4) ≤ asLen a →
      ∃ lead rest, flat (up a (some a4)) = lead ++ flat (dropConfed a4) ∧ flat a = lead ++ rest) := by
  have h4' : Wire (dropConfed a4) := fun s hs => h4 s (List.mem_filter.mp hs).1
  by_cases hlt : asLen a < asLen (dropConfed a4)
  · have e : up a (some a4) = a := by simp [up, hlt]
    rw [e]
    exact ⟨ha, rfl, fun _ => rfl, fun hle => absurd hlt (by omega)⟩
  · have e : up a (some a4) =
        merge (keep (asLen a - asLen (dropConfed a4)) a) (dropConfed a4) := by simp [up, hlt]
    rw [e]
    refine ⟨merge_wire _ _ (keep_wire _ a ha) h4', ?_, fun h => absurd h hlt, fun _ => ?_⟩
    · rw [merge_asLen, keep_asLen _ a (by omega)]; omega
    · obtain ⟨t, ht⟩ := keep_flat_prefix (asLen a - asLen (dropConfed a4)) a
      exact ⟨_, t, merge_flat _ _, ht⟩

/-- without AS4_PATH the AS_PATH is taken as it is -/
theorem up_none (a : Path) : up a none = a := rfl

example : up [⟨3, [1, 2, 3]⟩, ⟨2, [65000, 23456, 23456, 5]⟩] (some [⟨4, [9]⟩, ⟨2, [70000, 80000, 5]⟩]) =
    [⟨3, [1, 2, 3]⟩, ⟨2, [65000, 70000, 80000, 5]⟩] := by decide

example : up [⟨2, [1, 2]⟩] (some [⟨2, [70000, 80000, 90000]⟩]) = [⟨2, [1, 2]⟩] := by decide

/-! ## AGGREGATOR -/

/-- every AGGREGATOR AS comes back; what is sent in the 2-octet field fits 16 bits, and an
AS4_AGGREGATOR is sent exactly when the AS needs 4 octets -/
theorem agg_roundtrip (as : Nat) :
    aggUp (aggDown as).1 (aggDown as).2 = as ∧ (aggDown as).1 < 65536 ∧
    ((aggDown as).2.isSome ↔ as > 65535) := by
  by_cases h : as > 65535
  · simp [aggDown, aggUp, asTrans, h]
  · simp [aggDown, aggUp, h]; omega

example : aggDown 70000 = (23456, some 70000) ∧ aggDown 64999 = (64999, none) := by decide

/-! ## cached attribute length -/

/-- after `UpdatePathAttrs4ByteAs` the attribute's `Len()` equals the number of octets `Serialize()`
emits, whatever `Length` the received attribute carried and with or without AS4_PATH -/
theorem len_cache_consistent (a : Attr) (a4? : Option Path) :
    attrLen (upAttr a a4?) = serLen (upAttr a a4?) := by
  simp [upAttr, mkAttr, attrLen, serLen]

example : attrLen (upAttr (mkAttr 2 [⟨2, [1, 2, 3, 4, 5, 6, 7, 8, 9, 10]⟩]) none) = 45 := by decide

/-! ## the pinned commit (before the fixes) does not have the property -/

/-- stale `Length`: a 10-AS path from a 2-octet peer, no AS4_PATH: `Len()` 25, serialised 45 -/
theorem len_cache_counterexample :
    attrLen (upAttrOld (mkAttr 2 [⟨2, [1, 2, 3, 4, 5, 6, 7, 8, 9, 10]⟩]) none) = 25 ∧
    serLen (upAttrOld (mkAttr 2 [⟨2, [1, 2, 3, 4, 5, 6, 7, 8, 9, 10]⟩]) none) = 45 := by decide

/-- leading AS_SET: the old keep walk leaves a zero-member segment in front -/
theorem up_leading_set_counterexample :
    upOld (down [⟨1, [70000, 2]⟩]).1 (down [⟨1, [70000, 2]⟩]).2 = [⟨1, []⟩, ⟨1, [70000, 2]⟩] := by
  decide

/-- leading confederation run: the old count keeps the ASes AS4_PATH replaces (path grows 2 → 4) -/
theorem up_confed_counterexample :
    upOld (down [⟨3, [1, 2, 3]⟩, ⟨2, [70000, 5]⟩]).1 (down [⟨3, [1, 2, 3]⟩, ⟨2, [70000, 5]⟩]).2 =
      [⟨3, [1, 2, 3]⟩, ⟨2, [23456, 5, 70000, 5]⟩] := by decide

/-- only confederation segments hold a 4-octet AS: the old code emits an AS4_PATH of no segment -/
theorem down_empty_as4_counterexample : (downOld [⟨3, [70000, 2, 3]⟩]).2 = some [] := by decide

end C14
