/-
C02, table level: "table summaries and exact/longer/shorter lookups agree with that content …
over a prefix pool … including hash-colliding … paths".

What is proved here is about `Model/Table.lean` (`namespace Tbl`), the hand-written mirror of
`internal/pkg/table/table.go`: the bucket structure `Destinations` (map tableKey → collision
chain), `Table.update` (getOrCreateDest / Calculate / deleteDest with the localIdMap guard),
`InsertUpdate` / `setDestination`, `Table.Select` for the IPv4/IPv6 unicast families and
`Table.Info`.  Every theorem is stated for an ARBITRARY hash function `h : Pfx → Nat`
(constant = everything collides, injective = nothing collides, anything in between), an arbitrary
destination content type `δ` with an arbitrary per-destination step (`DestOps`: what
`Calculate` does inside one destination is C02's destination-level part and C03), and every
history of updates / withdrawals / deletions from the empty table.

"Readers get snapshots": in this model every answer (`get`, `entries`, `select`, `info`, `bests`) is a
VALUE computed from the table at the time of asking, so an answer taken at time t is a function of
the content at time t only (`observations_depend_on_content_only`) and cannot change afterwards.  On
the Go side that is a property of the code (copies in `snapshot`, `Select`, `Calculate`), tied by
the harness oracle `c02t-handed-out-value-changed:<accessor>`: every value handed out by a reader
is kept over the following operations and must keep rendering as it did when it was handed out.

The tie between this model and the Go code is the correspondence run (`./check C02T`), not a proof.
-/
import Lemmas.Table
import Lemmas.TableSel
import Lemmas.TableInfo
import Lemmas.TableAdj
import Lemmas.TableMp
import Lemmas.TableMpCalc

namespace C02T
open Tbl

variable {δ ρ : Type}

/-- **The bucket structure refines the finite map prefix → destination.**  After any history,
for any hash function: the representation invariant holds (map keys distinct, no empty bucket,
every chain member hashes to its bucket's key, no prefix twice in a chain) and the content read
off the iteration (`alookup`, which never looks at the hash) is the abstract map obtained by
replaying the history on `Pfx → Option δ` (`arun`: a destination disappears exactly when it is
empty AND the localIdMap guard allows deletion). -/
theorem table_refines_map (O : DestOps δ ρ) (h : Pfx → Nat) (ops : List (Pfx × ρ)) :
    WF h (run O h ops) ∧ ∀ p, alookup (run O h ops) p = arun O ops p := by
  refine ⟨run_wf O h ops, fun p => ?_⟩
  rw [← get_eq_alookup (run_wf O h ops) p]
  exact run_get O h ops p

/-- `Destinations.Get` / `GetDestination` = lookup in the abstract map -/
theorem get_is_map_lookup (O : DestOps δ ρ) (h : Pfx → Nat) (ops : List (Pfx × ρ)) (p : Pfx) :
    get h (run O h ops) p = arun O ops p :=
  run_get O h ops p

/-- … also when going through `getShard` (the 2048 shards) first -/
theorem get_sharded_is_map_lookup (O : DestOps δ ρ) (h : Pfx → Nat) (ops : List (Pfx × ρ)) (p : Pfx) :
    getSharded h (run O h ops) p = arun O ops p := by
  rw [getSharded_eq]; exact run_get O h ops p

/-- **No destination twice, none lost, none invented**: `iterateAllDestinations` /
`GetDestinations` lists every prefix at most once, and lists `(p, d)` iff the abstract map has
`p ↦ d`; the shard-by-shard walk of the Go loop is a permutation of the same list. -/
theorem iteration_exact (O : DestOps δ ρ) (h : Pfx → Nat) (ops : List (Pfx × ρ)) :
    ((entries (run O h ops)).map Prod.fst).Nodup ∧
    (∀ p d, (p, d) ∈ entries (run O h ops) ↔ arun O ops p = some d) ∧
    (entriesSharded (run O h ops)).Perm (entries (run O h ops)) := by
  have hw := run_wf O h ops
  refine ⟨entries_nodup hw, fun p d => ?_, entriesSharded_perm _⟩
  rw [mem_entries_iff hw, (table_refines_map O h ops).2]

/-- **The hash function, the chain order and the bucket order are irrelevant to the content**:
two hash functions (e.g. the real one and a constant one) give, after the same history, the same
answers to `Get` and the same set of destinations. -/
theorem hash_irrelevant (O : DestOps δ ρ) (h1 h2 : Pfx → Nat) (ops : List (Pfx × ρ)) :
    (∀ p, get h1 (run O h1 ops) p = get h2 (run O h2 ops) p) ∧
    (entries (run O h1 ops)).Perm (entries (run O h2 ops)) := by
  refine ⟨fun p => ?_, ?_⟩
  · rw [run_get, run_get]
  · apply entries_perm (run_wf O h1 ops) (run_wf O h2 ops)
    intro p
    rw [(table_refines_map O h1 ops).2, (table_refines_map O h2 ops).2]

/-- One step, pointwise: an update / withdrawal of `p` changes the content at `p` only — in
particular **the other members of `p`'s collision chain are untouched**, whether `p` is
created, changed, or deleted from the chain. -/
theorem update_touches_only_its_prefix (O : DestOps δ ρ) (h : Pfx → Nat) (t : Dests δ) (hw : WF h t)
    (p q : Pfx) (r : ρ) (hq : q ≠ p) :
    get h (update O h t p r) q = get h t q := by
  rw [get_update O hw p r q]
  simp [aupdate, hq]

/-- … and at `p` itself the destination is the stepped one, removed iff it became empty and the
localIdMap guard permits ("only deleted when no id other than 0 is allocated"). -/
theorem update_at_its_prefix (O : DestOps δ ρ) (h : Pfx → Nat) (t : Dests δ) (hw : WF h t)
    (p : Pfx) (r : ρ) :
    get h (update O h t p r) p =
      (let d' := O.step ((get h t p).getD (O.fresh p)) r
       if O.isEmpty d' && O.deletable d' then none else some d') := by
  rw [get_update O hw p r p]
  simp [aupdate]

/-- **Empty buckets are removed** (and the invariant survives every step, so it can be assumed
of any reachable table). -/
theorem no_empty_bucket (O : DestOps δ ρ) (h : Pfx → Nat) (ops : List (Pfx × ρ)) :
    ∀ kc ∈ run O h ops, kc.2 ≠ [] :=
  fun kc hk => ((run_wf O h ops).2 kc hk).1

theorem invariant_preserved (O : DestOps δ ρ) (h : Pfx → Nat) (t : Dests δ) (hw : WF h t)
    (p : Pfx) (r : ρ) : WF h (update O h t p r) :=
  wf_update O hw p r

/-- `setDestination` / `InsertUpdate` (result tables of `Select`, `NewTable(dsts...)`): map insert,
last one wins; the reported `collision` flag is exact. -/
theorem insertUpdate_is_map_insert (h : Pfx → Nat) (l : List (Pfx × δ)) (p : Pfx) :
    WF h (fromList h l) ∧ get h (fromList h l) p = afromList l p :=
  ⟨fromList_wf h l, fromList_get h l p⟩

theorem collision_flag_exact (h : Pfx → Nat) (t : Dests δ) (hw : WF h t) (e : Pfx × δ) :
    (insertUpdate h t e).2 = true ↔
      get h t e.1 = none ∧ ∃ q, h q = h e.1 ∧ (get h t q).isSome = true :=
  insertUpdate_collision hw e

/-! ### lookups: `Table.Select` -/

/-- **exact / longer / shorter / host-address lookups are the set-theoretic definitions on the
abstract map**, for any reachable table and any per-destination selection `sel`
(`destination.Select`: view, best, adj):

* exact `q`    : `{ q } ∩ dom`
* longer `q`   : `{ p ∈ dom | q covers p }`
* shorter `q`  : `{ p ∈ dom | p covers q }`  (every length from `q.len` down to 0, 0 included)
* host `a`     : the longest `p ∈ dom` covering `a` whose selection is not nil, and only that one

each restricted to the destinations whose selection is not nil, and each listed without
repetition. -/
theorem lookups_are_set_theoretic (O : DestOps δ ρ) (h : Pfx → Nat) (ops : List (Pfx × ρ))
    (sel : δ → Option δ) (q : Lookup × Pfx) (p : Pfx) (d' : δ) :
    (p, d') ∈ selQuery h (run O h ops) sel q ↔
      (match q.1 with
       | .exact => p = q.2 ∧ ∃ d, arun O ops p = some d ∧ sel d = some d'
       | .longer => q.2.covers p = true ∧ ∃ d, arun O ops p = some d ∧ sel d = some d'
       | .shorter => p.covers q.2 = true ∧ ∃ d, arun O ops p = some d ∧ sel d = some d'
       | .host => (p.covers q.2 = true ∧ ∃ d, arun O ops p = some d ∧ sel d = some d') ∧
           ∀ p' d'', p'.covers q.2 = true → (∃ d, arun O ops p' = some d ∧ sel d = some d'') →
             p'.len ≤ p.len) := by
  have hw := run_wf O h ops
  have ha := (table_refines_map O h ops).2
  rw [mem_selQuery hw]
  unfold QuerySpec Selected
  cases q.1 <;> simp only [ha]

theorem lookups_list_no_prefix_twice (O : DestOps δ ρ) (h : Pfx → Nat) (ops : List (Pfx × ρ))
    (sel : δ → Option δ) (q : Pfx) :
    ((selShorter h (run O h ops) sel q).map Prod.fst).Nodup ∧
    ((selLonger (run O h ops) sel q).map Prod.fst).Nodup :=
  ⟨selShorter_nodup h _ sel q, selLonger_nodup (run_wf O h ops) sel q⟩

/-- covering is `List.isPrefixOf` on the significant bits of the same family -/
theorem covers_is_bit_prefix (q p : Pfx) : q.covers p = true ↔ q.fam = p.fam ∧ q.bits <+: p.bits :=
  covers_iff q p

/-- **The table returned by `Select`** (built with `setDestination` under the same hash, so it can
itself contain collision chains) is well formed and holds exactly the union of what the lookup
prefixes select; with no lookup prefix, every destination with a non-nil selection. -/
theorem select_result_exact (O : DestOps δ ρ) (h : Pfx → Nat) (ops : List (Pfx × ρ))
    (sel : δ → Option δ) (qs : List (Lookup × Pfx)) (p : Pfx) (d' : δ) :
    WF h (select h (run O h ops) sel qs) ∧
    (alookup (select h (run O h ops) sel qs) p = some d' ↔
      if qs = [] then ∃ d, arun O ops p = some d ∧ sel d = some d'
      else ∃ q ∈ qs, QuerySpec (run O h ops) sel q p d') := by
  refine ⟨select_wf h _ sel qs, ?_⟩
  rw [select_spec (run_wf O h ops)]
  unfold Selected
  simp only [(table_refines_map O h ops).2]

/-! ### summary counters: `Table.Info` -/

/-- **The counters are the sizes of the abstract content**: for ANY duplicate-free enumeration
`l` of the abstract map, `NumDestination` = number of destinations with a non-empty (view-filtered)
path list, `NumPath` = the sum of those list lengths, and `NumCollision` = destinations − buckets,
where the buckets are exactly the hash values taken on the domain (so: 0 for an injective hash,
`|dom| − 1` for a constant one). -/
theorem counters_are_sizes (O : DestOps δ ρ) (h : Pfx → Nat) (ops : List (Pfx × ρ)) (n : δ → Nat)
    (l : List (Pfx × δ)) (hl : (l.map Prod.fst).Nodup)
    (hm : ∀ p d, (p, d) ∈ l ↔ arun O ops p = some d) :
    (info n (run O h ops)).numDestination = (l.filter (fun e => n e.2 ≠ 0)).length ∧
    (info n (run O h ops)).numPath = (l.map (fun e => n e.2)).sum ∧
    (info n (run O h ops)).numCollision + (run O h ops).length = l.length ∧
    ((run O h ops).map Prod.fst).Nodup ∧
    (∀ k, k ∈ (run O h ops).map Prod.fst ↔ ∃ p, h p = k ∧ (arun O ops p).isSome = true) := by
  have hw := run_wf O h ops
  have ha := (table_refines_map O h ops).2
  have hi := info_of_enumeration hw n l hl (fun p d => by rw [hm, ha])
  refine ⟨hi.1, hi.2.1, hi.2.2, hw.1, fun k => ?_⟩
  rw [mem_keys_iff hw]
  simp only [ha]

/-- **Chain order, bucket order and hash are irrelevant to every observation**: two well-formed
bucket structures (under possibly different hash functions, built in whatever order) with the
same abstract content answer alike — `Get`, the set of listed destinations, the counters of
`Info`, and the content of every `Select` result. -/
theorem observations_depend_on_content_only {h1 h2 : Pfx → Nat} {t1 t2 : Dests δ}
    (hw1 : WF h1 t1) (hw2 : WF h2 t2) (he : ∀ p, alookup t1 p = alookup t2 p) :
    (∀ p, get h1 t1 p = get h2 t2 p) ∧
    (entries t1).Perm (entries t2) ∧
    (∀ n : δ → Nat, (info n t1).numDestination = (info n t2).numDestination ∧
                    (info n t1).numPath = (info n t2).numPath) ∧
    (∀ (sel : δ → Option δ) (qs : List (Lookup × Pfx)) (p : Pfx),
        alookup (select h1 t1 sel qs) p = alookup (select h2 t2 sel qs) p) := by
  have hperm := entries_perm hw1 hw2 he
  refine ⟨fun p => ?_, hperm, fun n => ?_, fun sel qs p => ?_⟩
  · rw [get_eq_alookup hw1, get_eq_alookup hw2, he]
  · rw [info_numDestination, info_numDestination, info_numPath, info_numPath]
    exact ⟨(hperm.filter _).length_eq, (hperm.map _).sum_nat⟩
  · have hfun : alookup t1 = alookup t2 := funext he
    have hsel : ∀ p d', Selected t1 sel p d' ↔ Selected t2 sel p d' := by
      intro p d'; unfold Selected; rw [hfun]
    have hq : ∀ q p d', QuerySpec t1 sel q p d' ↔ QuerySpec t2 sel q p d' := by
      intro q p d'; unfold QuerySpec
      cases q.1 <;> simp only [hsel]
    apply Option.ext
    intro d'
    rw [select_spec hw1, select_spec hw2]
    by_cases hqs : qs = []
    · simp only [hqs, if_true]; exact hsel p d'
    · simp only [hqs, if_false, hq]

/-- **`Bests` and `GetKnownPathList`** (`TableManager.GetBestPathList` / `GetPathList`) list exactly the
best path, resp. every path, of every destination of the abstract map — whatever bucket or chain
position the destination sits in. -/
theorem path_listings_exact {π : Type} (O : DestOps δ ρ) (h : Pfx → Nat) (ops : List (Pfx × ρ))
    (best : δ → Option π) (paths : δ → List π) (p : Pfx) (x : π) :
    ((p, x) ∈ bests best (run O h ops) ↔ ∃ d, arun O ops p = some d ∧ best d = some x) ∧
    ((p, x) ∈ allPaths paths (run O h ops) ↔ ∃ d, arun O ops p = some d ∧ x ∈ paths d) := by
  have hw := run_wf O h ops
  have ha := (table_refines_map O h ops).2
  constructor
  · unfold bests
    rw [List.mem_filterMap]
    constructor
    · rintro ⟨⟨q, d⟩, hm, hb⟩
      cases hbd : best d with
      | none => simp [hbd] at hb
      | some y =>
        simp only [hbd, Option.some.injEq, Prod.mk.injEq] at hb
        obtain ⟨rfl, rfl⟩ := hb
        exact ⟨d, by rw [← ha, ← mem_entries_iff hw]; exact hm, hbd⟩
    · rintro ⟨d, hd, hb⟩
      refine ⟨(p, d), by rw [mem_entries_iff hw, ha]; exact hd, ?_⟩
      simp [hb]
  · unfold allPaths
    rw [List.mem_flatMap]
    constructor
    · rintro ⟨⟨q, d⟩, hm, hx⟩
      rw [List.mem_map] at hx
      obtain ⟨y, hy, he⟩ := hx
      simp only [Prod.mk.injEq] at he
      obtain ⟨rfl, rfl⟩ := he
      exact ⟨d, by rw [← ha, ← mem_entries_iff hw]; exact hm, hy⟩
    · rintro ⟨d, hd, hx⟩
      exact ⟨(p, d), by rw [mem_entries_iff hw, ha]; exact hd, List.mem_map.mpr ⟨x, hx, rfl⟩⟩

/-! ### the multipath notification stream (`Update.GetMultiBestPathDiff`, multipath × ADD-PATH receive) -/

/-- **The multipath diff is the set difference on (source, path-id) keys.**  For the path lists of a
destination before and after one `Calculate` (one path per source and path-id in each):
the `withdraw` list is exactly the old multipath members whose (source, path-id) is not in the new
multipath set, and the `update` list is exactly the new members whose (source, path-id) is not in
the old set or is there with other attributes.  Two equal-cost paths of ONE source (different path
ids) are two members. -/
theorem multipath_diff_is_set_difference (oldL newL : List TPath) (ho : KeysNodup oldL) :
    (mpDiff oldL newL).2 =
      (multiBest oldL).filter (fun o => !((multiBest newL).any (fun n => n.keyEq o))) ∧
    ∀ n, n ∈ (mpDiff oldL newL).1 ↔
      n ∈ multiBest newL ∧ ∀ o ∈ multiBest oldL, n.keyEq o = true → n.attrEq o = false :=
  ⟨mpWithdraw_is_set_difference _ _ (keysNodup_multiBest oldL ho),
   fun n => mem_mpUpdate _ _ (keysNodup_multiBest oldL ho) n⟩

/-- replaying the notifications of a sequence of destination states, in order, on a consumer -/
def mpReplay (prev : List TPath) (c : MpConsumer) : List (List TPath) → MpConsumer
  | [] => c
  | l :: r => mpReplay l (mpApply c (mpDiff prev l)) r

/-- the successive path lists of one destination under a history of `Calculate` steps -/
def destStates (d : TDest) : List TOp → List (List TPath)
  | [] => []
  | op :: r => (locCalc d op).paths :: destStates (locCalc d op) r

def destFinal (d : TDest) : List TOp → TDest
  | [] => d
  | op :: r => destFinal (locCalc d op) r

/-- one step: a consumer that mirrors the old multipath set mirrors the new one after applying the
notification -/
theorem multipath_stream_step (oldL newL : List TPath) (ho : KeysNodup oldL) (hn : KeysNodup newL) :
    mpApply (mpView (multiBest oldL)) (mpDiff oldL newL) = mpView (multiBest newL) :=
  mpApply_view _ _ (keysNodup_multiBest oldL ho) (keysNodup_multiBest newL hn)

/-- **The multipath notification stream replayed in order reproduces the multipath set**: for every
history of announcements / implicit replacements / withdrawals on a destination (any number of
sources, any number of path ids per source), a consumer that starts in step with the table and
applies every `GetMultiBestPathDiff` result in order holds, at the end (hence after every step),
exactly the table's multipath set keyed by (source, path-id). -/
theorem multipath_stream_replay (d : TDest) (hd : KeysNodup d.paths) (ops : List TOp) :
    mpReplay d.paths (mpView (multiBest d.paths)) (destStates d ops) =
      mpView (multiBest (destFinal d ops).paths) := by
  induction ops generalizing d with
  | nil => rfl
  | cons op r ih =>
    have hn := locCalc_keysNodup d op hd
    simp only [destStates, destFinal, mpReplay]
    rw [multipath_stream_step d.paths (locCalc d op).paths hd hn]
    exact ih (locCalc d op) hn

/-! ### the multipath report of `GetChanges` (the watcher's MultiPathList) -/

theorem mpChanged_iff (a b : List TPath) : mpChanged a b = false ↔ a.map TPath.sig = b.map TPath.sig := by
  induction a generalizing b with
  | nil => cases b <;> simp [mpChanged]
  | cons x r ih =>
    cases b with
    | nil => simp [mpChanged]
    | cons y r' =>
      simp only [mpChanged, Bool.or_eq_false_iff, List.map_cons, List.cons.injEq, ih r']
      constructor
      · rintro ⟨h1, h2⟩; exact ⟨by simpa using h1, h2⟩
      · rintro ⟨h1, h2⟩; exact ⟨by simpa using h1, h2⟩

/-- **`GetChanges` reports the multipath set exactly when it changed AS A LIST OF PATHS WITH THEIR
ATTRIBUTES** (source, LOCAL_PREF, community per position — what `Path.Equal` compares; the path id is
not part of it): the report is nil iff old and new set agree position by position, and otherwise it
is the new set.  So an attribute-only replacement of a member, at any position, is reported. -/
theorem multipath_report_exact (oldL newL : List TPath) :
    (multiReport oldL newL = none ↔ (multiBest oldL).map TPath.sig = (multiBest newL).map TPath.sig) ∧
    (∀ m, multiReport oldL newL = some m → m = multiBest newL) := by
  unfold multiReport
  cases h : mpChanged (multiBest oldL) (multiBest newL) with
  | false =>
    refine ⟨⟨fun _ => (mpChanged_iff _ _).mp h, fun _ => by simp⟩, fun m hm => by simp at hm⟩
  | true =>
    refine ⟨⟨fun hn => by simp at hn, fun he => ?_⟩, fun m hm => by simpa using hm.symm⟩
    have := (mpChanged_iff _ _).mpr he
    rw [h] at this
    cases this

/-- a watcher that replaces its copy by the report whenever there is one holds the table's current
multipath set, attributes included, after every step of every history -/
def watcherReplay (prev : List TPath) (c : List (Nat × Nat × Nat)) : List (List TPath) → List (Nat × Nat × Nat)
  | [] => c
  | l :: r =>
    watcherReplay l (match multiReport prev l with | some m => m.map TPath.sig | none => c) r

theorem multipath_report_replay (d : TDest) (ops : List TOp) :
    watcherReplay d.paths ((multiBest d.paths).map TPath.sig) (destStates d ops) =
      (multiBest (destFinal d ops).paths).map TPath.sig := by
  induction ops generalizing d with
  | nil => rfl
  | cons op r ih =>
    simp only [destStates, destFinal, watcherReplay]
    have hx := multipath_report_exact d.paths (locCalc d op).paths
    cases hr : multiReport d.paths (locCalc d op).paths with
    | none => simp only []; rw [hx.1.mp hr]; exact ih (locCalc d op)
    | some m => simp only []; rw [hx.2 m hr]; exact ih (locCalc d op)

/-! ### partial operations on a multi-family Adj-RIB-In (`AdjRib.Drop / StaleAll / DropStale (rfList)`) -/

/-- **Granularity**: an operation on a subset of the families leaves every OTHER family's table
and accepted counter exactly as they were. -/
theorem partial_adj_ops_leave_other_families (h : Pfx → Nat) (fams : List Nat) (a : AdjRibM) (f : Nat)
    (hf : f ∉ fams) :
    (adjRibDrop fams a).fam f = a.fam f ∧
    (adjRibStaleAll fams a).fam f = a.fam f ∧
    (adjRibDropStale h fams a).fam f = a.fam f :=
  ⟨adjOn_other fams _ a f hf, adjOn_other fams _ a f hf, adjOn_other fams _ a f hf⟩

/-- … and on a family that IS named: `Drop` starts over (empty table, counter 0); `StaleAll` keeps
the counter and every destination, each path marked stale; `DropStale` is a sequence of
`adj.Update` withdrawals (the bucket invariant survives; the counter moves by the deltas of those
withdrawals).  Which paths a destination loses in `DropStale` is decided inside the destination
(C02's Adj-RIB-In part) and sampled by the correspondence run. -/
theorem partial_adj_ops_on_named_families (h : Pfx → Nat) (fams : List Nat) (a : AdjRibM) (f : Nat)
    (hf : f ∈ fams) (t : Dests TDest) (acc : Int) (ha : a.fam f = some (t, acc)) (hw : WF h t) :
    (adjRibDrop fams a).fam f = some ([], 0) ∧
    (∃ t', (adjRibStaleAll fams a).fam f = some (t', acc) ∧ WF h t' ∧
      ∀ p, get h t' p =
        (get h t p).map (fun d => { d with paths := d.paths.map (fun x => { x with stale := true }) })) ∧
    (∃ t', (adjRibDropStale h fams a).fam f = some (t', acc + (adjDropStale h t).2) ∧ WF h t') := by
  refine ⟨?_, ⟨adjStaleAll t, ?_, mapDests_wf _ hw, fun p => mapDests_get _ h t p⟩,
    ⟨(adjDropStale h t).1, ?_, adjDropStale_wf hw⟩⟩
  · unfold adjRibDrop; rw [adjOn_named fams _ a f hf, ha]; rfl
  · unfold adjRibStaleAll; rw [adjOn_named fams _ a f hf, ha]; rfl
  · unfold adjRibDropStale; rw [adjOn_named fams _ a f hf, ha]; rfl

/-! ### non-vacuity: concrete colliding histories, evaluated by the kernel -/

section Examples

def p1 : Pfx := ⟨6, [true, false, true]⟩
def p2 : Pfx := ⟨6, [true, false, false]⟩
def p0 : Pfx := ⟨6, []⟩               -- ::/0
def p10 : Pfx := ⟨6, [true, false]⟩    -- covers p1 and p2
/-- everything collides -/
def hConst : Pfx → Nat := fun _ => 7
/-- nothing collides (on these prefixes) -/
def hLen : Pfx → Nat := fun p => p.bits.foldl (fun a b => 2 * a + (if b then 2 else 1)) 0

def ann (src rid rank tag : Nat) : TOp :=
  .ann { src := src, rid := rid, rank := rank, tag := tag, lid := 0, rej := false, addr := src }

/-- both prefixes announced: ONE bucket with a chain of two under the constant hash … -/
example : (run locOps hConst [(p1, ann 1 0 10 1), (p2, ann 2 0 20 2)]).map (fun kc => (kc.1, kc.2.length)) = [(7, 2)] := by
  decide
/-- … two buckets of one under the injective one; `Info` reports 1 resp. 0 collisions -/
example : (run locOps hLen [(p1, ann 1 0 10 1), (p2, ann 2 0 20 2)]).map (fun kc => kc.2.length) = [1, 1] := by
  decide
example : info (fun d => d.paths.length) (run locOps hConst [(p1, ann 1 0 10 1), (p2, ann 2 0 20 2)]) = ⟨2, 2, 1⟩ := by
  decide
example : info (fun d => d.paths.length) (run locOps hLen [(p1, ann 1 0 10 1), (p2, ann 2 0 20 2)]) = ⟨2, 2, 0⟩ := by
  decide

/-- first-inserted deleted first (dropped withdrawal frees the local id): the neighbour stays -/
example :
    let t := run locOps hConst [(p1, ann 1 0 10 1), (p2, ann 2 0 20 2), (p1, .wd 1 0 true)]
    get hConst t p1 = none ∧ (get hConst t p2).isSome = true ∧ t.map (fun kc => kc.2.length) = [1] := by
  decide
/-- second-inserted deleted first -/
example :
    let t := run locOps hConst [(p1, ann 1 0 10 1), (p2, ann 2 0 20 2), (p2, .wd 2 0 true)]
    (get hConst t p1).isSome = true ∧ get hConst t p2 = none ∧ t.map (fun kc => kc.2.length) = [1] := by
  decide
/-- both deleted: the bucket itself is gone -/
example : run locOps hConst [(p1, ann 1 0 10 1), (p2, ann 2 0 20 2), (p2, .wd 2 0 true), (p1, .wd 1 0 true)] = [] := by
  decide
/-- the localIdMap guard: a withdrawal that is NOT marked dropped leaves local id 1 flagged, so the
emptied destination stays in its chain (`some` with no paths) -/
example :
    (get hConst (run locOps hConst [(p1, ann 1 0 10 1), (p2, ann 2 0 20 2), (p1, .wd 1 0 false)]) p1).map (·.paths.length)
      = some 0 := by
  decide
/-- an Adj-RIB table (no bitmap) always deletes -/
example : run adjOps hConst [(p1, ann 1 0 10 1), (p1, .wd 1 0 false)] = [] := by
  decide

/-- lookups on a colliding table: shorter of p1 = {::/0, p10, p1}; longer of p10 = {p10, p1, p2};
the host lookup of p1 with p1 itself filtered out by the view falls back to p10 -/
def tEx : Dests TDest :=
  run locOps hConst [(p1, ann 1 0 10 1), (p2, ann 2 0 20 2), (p0, ann 2 0 30 3), (p10, ann 2 0 40 4)]

example : (selShorter hConst tEx (tsel ⟨0, false, false⟩) p1).map Prod.fst = [p1, p10, p0] := by decide
example : ((selLonger tEx (tsel ⟨0, false, false⟩) p10).map Prod.fst).length = 3 := by decide
example : (selHost hConst tEx (tsel ⟨0, false, false⟩) p1).map Prod.fst = [p1] := by decide
example : (selHost hConst tEx (tsel ⟨1, false, false⟩) p1).map Prod.fst = [p10] := by decide
/-- the result table of a whole-table `Select` is again one bucket of four under the constant hash -/
example : (select hConst tEx (tsel ⟨0, false, true⟩) []).map (fun kc => kc.2.length) = [4] := by decide
/-- hypotheses of `counters_are_sizes` are satisfiable: `entries` itself is such an enumeration -/
example (O : DestOps δ ρ) (h : Pfx → Nat) (ops : List (Pfx × ρ)) :
    ((entries (run O h ops)).map Prod.fst).Nodup ∧
    ∀ p d, (p, d) ∈ entries (run O h ops) ↔ arun O ops p = some d :=
  ⟨(iteration_exact O h ops).1, (iteration_exact O h ops).2.1⟩

/-- hypotheses of `observations_depend_on_content_only` are satisfiable: the same history under two hashes -/
example (O : DestOps δ ρ) (h1 h2 : Pfx → Nat) (ops : List (Pfx × ρ)) :
    WF h1 (run O h1 ops) ∧ WF h2 (run O h2 ops) ∧
    ∀ p, alookup (run O h1 ops) p = alookup (run O h2 ops) p :=
  ⟨run_wf O h1 ops, run_wf O h2 ops, fun p => by
    rw [(table_refines_map O h1 ops).2, (table_refines_map O h2 ops).2]⟩
/-- … and concretely: the colliding and the collision-free table of the same four announcements list
the same destinations although their bucket shapes differ -/
example :
    (entries tEx).length = 4 ∧ tEx.length = 1 ∧
    (run locOps hLen [(p1, ann 1 0 10 1), (p2, ann 2 0 20 2), (p0, ann 2 0 30 3), (p10, ann 2 0 40 4)]).length = 4 := by
  decide

/-- a three-family Adj-RIB-In; family 4 (two accepted paths) is marked stale and swept, family 6
is dropped, family 14 is not named: it keeps its table and its counter 1; family 4 ends at 0 -/
def aEx : AdjRibM :=
  [(4, (run adjOps hConst [(p1, ann 1 0 10 1), (p2, ann 1 1 20 2)], 2)),
   (6, (run adjOps hConst [(p1, ann 1 0 30 3)], 1)),
   (14, (run adjOps hConst [(p2, ann 1 0 40 4)], 1))]

example : (adjRibDropStale hConst [4] (adjRibDrop [6] (adjRibStaleAll [4] aEx))).fam 6 = some ([], 0) := by
  decide
example : (adjRibDropStale hConst [4] (adjRibDrop [6] (adjRibStaleAll [4] aEx))).fam 4 = some ([], 0) := by
  decide
example : (adjRibDropStale hConst [4] (adjRibDrop [6] (adjRibStaleAll [4] aEx))).fam 14 = aEx.fam 14 := by
  rw [(partial_adj_ops_leave_other_families hConst [4] _ 14 (by decide)).2.2,
      (partial_adj_ops_leave_other_families hConst [6] _ 14 (by decide)).1,
      (partial_adj_ops_leave_other_families hConst [4] _ 14 (by decide)).2.1]
/-- hypotheses of `partial_adj_ops_on_named_families` are satisfiable -/
example : aEx.fam 4 = some (run adjOps hConst [(p1, ann 1 0 10 1), (p2, ann 1 1 20 2)], 2) ∧
    WF hConst (run adjOps hConst [(p1, ann 1 0 10 1), (p2, ann 1 1 20 2)]) :=
  ⟨rfl, run_wf adjOps hConst _⟩
/-- a path announced again after `StaleAll` is fresh and survives the sweep -/
example :
    ((adjRibDropStale hConst [4]
        (adjOn [4] (fun x => (update adjOps hConst x.1 p1 (ann 1 0 50 5), x.2)) (adjRibStaleAll [4] aEx))).fam 4).map
      (fun x => ((entries x.1).map (fun e => e.2.paths.length), x.2)) = some ([1], 1) := by
  decide

/-- multipath × ADD-PATH: source 2 has two equal-cost paths (path ids 1 and 2, LOCAL_PREF 200 in the
upper half of the rank), source 5 a third; the member sorted FIRST is withdrawn: exactly that one is
withdrawn from the consumers, nothing is re-announced, and the sibling of the same source stays -/
def mpath (src rid lp age tag : Nat) : TPath :=
  { src := src, rid := rid, rank := lp * 4294967296 + age, tag := tag, lid := tag, rej := false }

example :
    mpDiff [mpath 2 1 200 9 1, mpath 2 2 200 8 2, mpath 5 0 200 7 3, mpath 6 0 100 6 4]
           [mpath 2 2 200 8 2, mpath 5 0 200 7 3, mpath 6 0 100 6 4]
      = ([], [mpath 2 1 200 9 1]) := by
  decide
/-- … a better path shrinks the set: every old member is withdrawn, the new one announced -/
example :
    mpDiff [mpath 2 1 200 9 1, mpath 2 2 200 8 2]
           [mpath 6 0 300 5 4, mpath 2 1 200 9 1, mpath 2 2 200 8 2]
      = ([mpath 6 0 300 5 4], [mpath 2 1 200 9 1, mpath 2 2 200 8 2]) := by
  decide
/-- hypotheses of `multipath_stream_replay` are satisfiable: the fresh destination, any history -/
example (p : Pfx) (ops : List TOp) :
    mpReplay [] (fun _ => none) (destStates (locOps.fresh p) ops) =
      mpView (multiBest (destFinal (locOps.fresh p) ops).paths) :=
  multipath_stream_replay (locOps.fresh p) (by simp [KeysNodup, locOps]) ops

/-- an attribute-only replacement (the community changes, LOCAL_PREF, age, source and path id stay) of
the SECOND member of a multipath set is reported, and announced to the (source, path-id) consumers -/
example :
    multiReport [mpath 2 1 200 9 1, mpath 2 2 200 8 2, mpath 5 0 200 7 3]
                [mpath 2 1 200 9 1, { mpath 2 2 200 8 4 with attr := 7 }, mpath 5 0 200 7 3]
      = some [mpath 2 1 200 9 1, { mpath 2 2 200 8 4 with attr := 7 }, mpath 5 0 200 7 3] ∧
    (mpDiff [mpath 2 1 200 9 1, mpath 2 2 200 8 2, mpath 5 0 200 7 3]
            [mpath 2 1 200 9 1, { mpath 2 2 200 8 4 with attr := 7 }, mpath 5 0 200 7 3]).1
      = [{ mpath 2 2 200 8 4 with attr := 7 }] := by
  decide
/-- … while swapping a member for an equal path of the same source under another path id is not -/
example :
    multiReport [mpath 2 1 200 9 1, mpath 5 0 200 7 3] [mpath 2 2 200 9 4, mpath 5 0 200 7 3] = none := by
  decide

end Examples

end C02T
