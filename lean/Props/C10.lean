import Model.Policy
import Model.PolicyHeap
import Lemmas.Policy
import Lemmas.PolicyHeap
/-!
  C10 — policy evaluation equals the documented model and never mutates shared routes.

  What is proved here is about `Model/Policy.lean` and `Model/PolicyHeap.lean` (hand-written mirrors
  of internal/pkg/table/policy.go and path.go after the three `fix:` commits on branch wt-C10).
  The tie between the model and the Go code is the correspondence run (sampled), not a proof.

  * `eval_eq_spec`          the Go control flow (`applyPolicy`) computes the documented model (`spec`) for
                            every well-formed program, every route and every option set.
  * `all_on_empty_set`      the one place where the faithful model departs from the documentation.
  * `first_decision_wins`, `mods_accumulate`, `default_applies`, `withdraw_passthrough`
                            the clauses of the documented model, stated directly on `applyPolicy`.
  * `policy_pure`           community-type actions, performed as the repaired code performs them (fresh
                            backing array per result), leave every slice that existed before readable with
                            the same content, and compute the list-level result of the interpreter.
  * `append_aliases`        Go's `append` does not have that property (the defect that was repaired),
    `append_pure_when_full` except when the slice has no spare capacity.
  The configuration read-back clause of the property is checked on the implementation only (oracle
  `config-roundtrip:*` of the harness); it has no theorem.
-/
namespace C10
open Policy

/-! ## conditions -/

theorem nat_beq_comm (a b : Nat) : (a == b) = (b == a) := BEq.comm

theorem prefix_any (r : Pfx) (es : List PfxEntry) :
    prefixLoop r (es.filter (fun e => e.p.covers r)) = es.any (specPrefixMember r) := by
  rw [prefixLoop_eq_any, List.any_filter]
  congr 1
  funext e
  unfold specPrefixMember
  by_cases hc : e.p.covers r = true
  · simp [hc, covers_contains _ _ hc]
  · simp only [Bool.not_eq_true] at hc
    simp [hc]

/-- every condition's Go loop decides what the documentation says, for conditions the
    configuration path can build (`Cond.wf`) -/
theorem evalCond_eq_spec (c : Cond) (hw : c.wf = true) (r : Route) (o : Opts) :
    evalCond c r o = specCond c r o := by
  cases c with
  | «prefix» fam es opt =>
    simp only [evalCond, evalPrefix, specCond, prefix_any]
    by_cases hf : fam = some r.v6
    · subst hf
      cases opt with
      | any => simp [specSet]
      | all => simp [Cond.wf] at hw
      | invert => simp [specSet]
    · have : (fam == some r.v6) = false := by simpa using hf
      simp [bne, this]
  | neighbor nets opt =>
    simp only [evalCond, evalNeighbor, specCond, netLoop_eq_any]
    by_cases he : nets.isEmpty = true
    · simp [he]
    · simp only [he]
      cases neighborAddr r o with
      | none => simp
      | some a =>
        cases opt with
        | any => simp [specSet]
        | all => simp [Cond.wf] at hw
        | invert => simp [specSet]
  | commCount op v => rfl
  | asPathLen op v => rfl
  | rpki st =>
    simp only [evalCond, specCond]
    cases o.rpki with
    | none => simp
    | some s => simpa using nat_beq_comm st s
  | routeType t =>
    simp only [evalCond, evalRouteType, specCond]
    by_cases h3 : t = 3
    · subst h3; simp
    · by_cases h1 : t = 1
      · subst h1; simp
      · by_cases h2 : t = 2
        · subst h2; simp
        · simp [h1, h2, h3]
  | origin v =>
    simp only [evalCond, specCond]
    cases r.origin with
    | none => simp
    | some s => simp
  | asPath ss res opt =>
    simp only [evalCond, evalAsPath, specCond]
    cases opt with
    | any =>
      rw [asSingleLoop_any, asReLoop_any]
      by_cases h1 : ss.any (fun m => m.matches (asSeqList r.asPath)) = true
      · simp [h1]
      · simp only [Bool.not_eq_true] at h1
        by_cases h2 : res.any (fun m => m.matches (renderAsPath r.asPath)) = true
        · simp [h1, h2]
        · simp only [Bool.not_eq_true] at h2
          simp [h1, h2]
    | all =>
      rw [asSingleLoop_all, asReLoop_all]
      by_cases h1 : ss.all (fun m => m.matches (asSeqList r.asPath)) = true
      · by_cases h2 : res.all (fun m => m.matches (renderAsPath r.asPath)) = true
        · simp [h1, h2]
        · simp only [Bool.not_eq_true] at h2
          simp [h1, h2]
      · simp only [Bool.not_eq_true] at h1
        simp [h1]
    | invert =>
      rw [asSingleLoop_invert, asReLoop_invert]
      by_cases h1 : ss.any (fun m => m.matches (asSeqList r.asPath)) = true
      · simp [h1]
      · simp only [Bool.not_eq_true] at h1
        by_cases h2 : res.any (fun m => m.matches (renderAsPath r.asPath)) = true
        · simp [h1, h2]
        · simp only [Bool.not_eq_true] at h2
          simp [h1, h2]
  | comm ps opt =>
    simp only [evalCond, evalComm, specCond]
    have hh : (fun p => r.comms.any (fun y => y == p)) = (fun p => r.comms.contains p) := by
      funext p; exact (contains_eq_any r.comms p).symm
    by_cases hfast : ((opt == .any || opt == .invert) && !ps.isEmpty) = true
    · simp only [hfast, if_true, commIndexAny_spec]
      cases opt with
      | any => simp [specSet]
      | all => simp at hfast
      | invert => simp [specSet]
    · simp only [hfast]
      rw [hh]
      apply generalLoop_spec
      rintro ⟨ho, hl⟩
      subst ho; subst hl
      simp [Cond.wf] at hw
  | ext ps opt =>
    simp only [evalCond, evalExt, specCond]
    by_cases hfast : ((opt == .any || opt == .invert) && !ps.isEmpty) = true
    · simp only [hfast, if_true, extIndexAny_eq]
      rw [any_swap]
      cases opt with
      | any => simp [specSet]
      | all => simp at hfast
      | invert => simp [specSet]
    · simp only [hfast]
      apply generalLoop_spec
      rintro ⟨ho, hl⟩
      subst ho; subst hl
      simp [Cond.wf] at hw
  | large ps opt =>
    simp only [evalCond, evalLarge, specCond]
    have hh : (fun p => r.larges.any (fun y => y == p)) = (fun p => r.larges.contains p) := by
      funext p; exact (contains_eq_any r.larges p).symm
    rw [hh]
    apply generalLoop_spec
    rintro ⟨ho, hl⟩
    subst ho; subst hl
    simp [Cond.wf] at hw
  | nextHop nets =>
    simp only [evalCond, evalNextHop, specCond, netLoop_eq_any]
    by_cases he : nets.isEmpty = true
    · simp [he]
    · simp only [he]
      cases conditionNextHop r o <;> simp
  | afiSafi fams => rfl
  | lpEq v => rfl
  | medEq v =>
    simp only [evalCond, specCond]
    cases r.med with
    | none => simp
    | some s => simpa using nat_beq_comm v s

theorem stmtEvaluate_eq_spec (conds : List Cond) (hw : conds.all Cond.wf = true) (r : Route) (o : Opts) :
    stmtEvaluate conds r o = conds.all (fun c => specCond c r o) := by
  induction conds with
  | nil => rfl
  | cons c rest ih =>
    simp only [List.all_cons, Bool.and_eq_true] at hw
    simp only [stmtEvaluate, List.all_cons, evalCond_eq_spec c hw.1, ih hw.2]
    cases specCond c r o <;> simp

/-! ## actions -/

theorem applyAct_eq_spec (a : Act) (r : Route) (o : Opts) : applyAct a r o = specAct a r o := by
  cases a with
  | comm op vals =>
    match op with
    | 0 => rfl
    | 1 => rfl
    | n + 2 => simp [applyAct, specAct]
  | ext op vals pats =>
    match op with
    | 0 =>
      simp only [applyAct, specAct]
      by_cases h : vals.isEmpty = true
      · have : vals = [] := by simpa using h
        subst this; simp
      · simp [h]
    | 1 => rfl
    | n + 2 => simp [applyAct, specAct]
  | large op vals =>
    match op with
    | 0 => rfl
    | 1 => rfl
    | n + 2 => simp [applyAct, specAct]
  | med replace v =>
    cases replace with
    | true => rfl
    | false =>
      simp only [applyAct, specAct]
      generalize Int.ofNat (r.med.getD 0) + v = nv
      by_cases h1 : nv < 0
      · have h3 : ¬ (0 ≤ nv ∧ nv ≤ 4294967295) := by omega
        simp [h1, h3]
      · by_cases h2 : nv > 4294967295
        · have h3 : ¬ (0 ≤ nv ∧ nv ≤ 4294967295) := by omega
          simp [h1, h2, h3]
        · have h3 : (0 ≤ nv ∧ nv ≤ 4294967295) := by omega
          simp [h1, h2, h3]
  | lp v => rfl
  | prepend useLast asn rep =>
    simp only [applyAct, specAct]
    cases useLast with
    | false => simp
    | true =>
      simp only [if_true]
      cases asSeqList r.asPath with
      | nil => simp
      | cons first rest =>
        by_cases h : first = 0 <;> simp [h]
  | nextHop kind addr =>
    simp only [applyAct, specAct]
    by_cases h1 : kind = 1
    · subst h1; cases o.infoLocal <;> simp
    · by_cases h2 : kind = 2
      · subst h2; cases o.infoAddr <;> simp
      · by_cases h3 : kind = 3
        · subst h3; cases o.oldNh <;> simp
        · simp [h1, h2, h3]
  | origin v => rfl

theorem applyMods_eq_spec (mods : List Act) (r : Route) (o : Opts) :
    applyMods mods r o = specMods mods r o := by
  induction mods generalizing r with
  | nil => rfl
  | cons a rest ih =>
    simp only [applyMods, specMods, List.foldl_cons, applyAct_eq_spec]
    exact ih _

/-! ## statements and policies -/

def toRT : Option Bool → RT
  | none => .none
  | some true => .accept
  | some false => .reject

theorem policyApply_eq_spec (ss : List Stmt) (hw : ss.all Stmt.wf = true) (r : Route) (o : Opts) :
    policyApply ss r o = (toRT (specRun ss r o).1, (specRun ss r o).2) := by
  induction ss generalizing r with
  | nil => rfl
  | cons s rest ih =>
    simp only [List.all_cons, Bool.and_eq_true] at hw
    have hs : stmtEvaluate s.conds r o = specMatches s r o := stmtEvaluate_eq_spec s.conds hw.1 r o
    have hm : (if s.mods.isEmpty then r else applyMods s.mods r o) = specMods s.mods r o := by
      by_cases he : s.mods.isEmpty = true
      · have : s.mods = [] := by simpa using he
        simp [this, specMods]
      · simp [he, applyMods_eq_spec]
    simp only [policyApply, stmtApply, specRun, hs, hm]
    by_cases hmatch : specMatches s r o = true
    · simp only [hmatch, if_true]
      cases hr : s.route with
      | none => simp [ih hw.2]
      | some d => cases d <;> simp [toRT]
    · simp only [Bool.not_eq_true] at hmatch
      simp [hmatch, ih hw.2]

theorem specRun_append (a b : List Stmt) (r : Route) (o : Opts) :
    specRun (a ++ b) r o =
      (match specRun a r o with
       | (some d, r') => (some d, r')
       | (none, r') => specRun b r' o) := by
  induction a generalizing r with
  | nil => rfl
  | cons s rest ih =>
    simp only [List.cons_append, specRun]
    by_cases hm : specMatches s r o = true
    · simp only [hm, if_true]
      cases s.route with
      | none => exact ih _
      | some d => rfl
    · simp only [Bool.not_eq_true] at hm
      simp only [hm]
      exact ih _

theorem policiesApply_eq_spec (ps : List Pol) (hw : ps.all Pol.wf = true) (r : Route) (o : Opts) :
    policiesApply ps r o =
      (toRT (specRun (ps.flatMap (·.stmts)) r o).1, (specRun (ps.flatMap (·.stmts)) r o).2) := by
  induction ps generalizing r with
  | nil => rfl
  | cons p rest ih =>
    simp only [List.all_cons, Bool.and_eq_true] at hw
    simp only [policiesApply, List.flatMap_cons, specRun_append, policyApply_eq_spec p.stmts hw.1]
    cases hrun : specRun p.stmts r o with
    | mk d r' =>
      cases d with
      | none => simp [toRT, ih hw.2]
      | some b => cases b <;> simp [toRT]

/-- **eval_eq_spec**: for every program the configuration path can build, every route and every
    option set, `RoutingPolicy.ApplyPolicy` (as modelled, loop for loop) returns what the plain
    interpreter of the documented model returns — verdict and resulting attributes. -/
theorem eval_eq_spec (pols : List Pol) (dflt : RT) (r : Route) (o : Opts)
    (hw : pols.all Pol.wf = true) :
    applyPolicy pols dflt r o = spec pols dflt r o := by
  unfold applyPolicy spec
  by_cases hwd : r.withdraw = true
  · simp [hwd]
  · simp only [hwd, policiesApply_eq_spec pols hw]
    cases hrun : specRun (pols.flatMap (·.stmts)) r o with
    | mk d r' =>
      cases d with
      | none => cases dflt <;> simp [toRT]
      | some b => cases b <;> simp [toRT]

/-- the hypothesis of `eval_eq_spec` is satisfiable by a program that uses every set condition -/
example : ([⟨[⟨[.prefix (some false) [⟨⟨false, 167772160, 8⟩, 8, 24⟩] .invert, .comm [1] .all,
                .ext [⟨2, 65000, 1⟩] .any, .large [] .invert, .neighbor [] .any],
              some true, [.comm 0 [7]]⟩]⟩] : List Pol).all Pol.wf = true := by decide

/-- the documentation says `all` = "matches all members of the defined set"; on an EMPTY community
    set the code (general loop, `result` initialised to false) answers false where the documented
    reading is vacuously true.  This is why `Cond.wf` asks `all` sets to be non-empty. -/
theorem all_on_empty_set :
    ∃ (r : Route) (o : Opts), evalCond (.comm [] .all) r o = false ∧ specCond (.comm [] .all) r o = true :=
  ⟨default, default, by decide, by decide⟩

/-! ## the clauses of the documented model, on the Go control flow -/

/-- **first_decision_wins** (inside a policy): once a statement decides, later statements are not looked at -/
theorem first_decision_in_policy (ss ts : List Stmt) (r : Route) (o : Opts)
    (h : (policyApply ss r o).1 ≠ .none) :
    policyApply (ss ++ ts) r o = policyApply ss r o := by
  induction ss generalizing r with
  | nil => simp [policyApply] at h
  | cons s rest ih =>
    simp only [List.cons_append, policyApply] at h ⊢
    by_cases hd : ((stmtApply s r o).1 != RT.none) = true
    · simp [hd]
    · simp only [hd] at h ⊢
      exact ih _ h

example : (policyApply [⟨[.origin 0], some true, [.lp 200]⟩] { (default : Route) with origin := some 0 } default).1 ≠ .none := by
  decide

/-- **first_decision_wins**: once a policy decides, later policies and the default are not looked at -/
theorem first_decision_wins (ps qs : List Pol) (d d' : RT) (r : Route) (o : Opts)
    (h : (policiesApply ps r o).1 ≠ .none) :
    applyPolicy (ps ++ qs) d r o = applyPolicy ps d' r o := by
  have key : policiesApply (ps ++ qs) r o = policiesApply ps r o := by
    induction ps generalizing r with
    | nil => simp [policiesApply] at h
    | cons p rest ih =>
      simp only [List.cons_append, policiesApply] at h ⊢
      by_cases hd : ((policyApply p.stmts r o).1 != RT.none) = true
      · simp [hd]
      · simp only [hd] at h ⊢
        exact ih _ h
  unfold applyPolicy
  rw [key]
  have hb : ((policiesApply ps r o).1 == RT.none) = false := by
    cases hx : (policiesApply ps r o).1 <;> simp_all
  simp [hb]

example : (policiesApply [⟨[⟨[], some false, []⟩]⟩] default default).1 ≠ .none := by decide

/-- **mods_accumulate**: a statement that applies without route-disposition hands the MODIFIED route
    to the rest of the policy — conditions and actions of later statements see the modifications —
    and a statement that does not apply hands over the route unchanged. -/
theorem mods_accumulate (s : Stmt) (rest : List Stmt) (r : Route) (o : Opts) :
    policyApply (s :: rest) r o =
      if stmtEvaluate s.conds r o then
        (match s.route with
         | none => policyApply rest (applyMods s.mods r o) o
         | some true => (.accept, applyMods s.mods r o)
         | some false => (.reject, applyMods s.mods r o))
      else policyApply rest r o := by
  have hm : (if s.mods.isEmpty then r else applyMods s.mods r o) = applyMods s.mods r o := by
    by_cases he : s.mods.isEmpty = true
    · have : s.mods = [] := by simpa using he
      simp [this, applyMods]
    · simp [he]
  simp only [policyApply, stmtApply, hm]
  by_cases he : stmtEvaluate s.conds r o = true
  · simp only [he, if_true]
    cases s.route with
    | none => simp
    | some d => cases d <;> simp
  · simp only [Bool.not_eq_true] at he
    simp [he]

/-- … and across policies: an undecided policy hands its (modified) route to the next policy -/
theorem mods_accumulate_policies (p : Pol) (ps : List Pol) (r : Route) (o : Opts)
    (h : (policyApply p.stmts r o).1 = .none) :
    policiesApply (p :: ps) r o = policiesApply ps (policyApply p.stmts r o).2 o := by
  simp [policiesApply, h]

example : (policyApply (Pol.mk [⟨[], none, [.med true 5]⟩]).stmts default default).1 = .none := by decide

/-- **default_applies**: when no statement of any attached policy decides, the assignment's default
    decides, and an accepted route carries the accumulated modifications -/
theorem default_applies (ps : List Pol) (d : RT) (r : Route) (o : Opts)
    (hw : r.withdraw = false) (h : (policiesApply ps r o).1 = .none) :
    applyPolicy ps d r o = if d = .accept then some (policiesApply ps r o).2 else none := by
  unfold applyPolicy
  simp only [hw, h]
  cases d <;> simp

example : (policiesApply [⟨[⟨[], none, [.lp 200]⟩]⟩] default default).1 = .none := by decide

/-- **withdraw_passthrough** -/
theorem withdraw_passthrough (ps : List Pol) (d : RT) (r : Route) (o : Opts) (h : r.withdraw = true) :
    applyPolicy ps d r o = some r := by
  simp [applyPolicy, h]


/-! ## conditions that depend on the route's source -/

/-- **route_type_documented**: the route-type condition classifies by the SESSION the route was learned
    on and by nothing else (a `Route` carries no confederation flag, so the classification cannot depend
    on one): local = originated here (no source address); internal = learned from a peer whose AS is the
    local AS of that session (iBGP, also inside a confederation member AS, RR clients); external = learned
    from a peer in another AS — a confederation eBGP session to another member AS and a route-server
    client included. -/
theorem route_type_documented (r : Route) :
    (evalRouteType 3 r = true ↔ r.srcAddr = none) ∧
    (evalRouteType 1 r = true ↔ r.srcAddr ≠ none ∧ r.srcAS = r.srcLocalAS ∧ r.srcAS ≠ 0) ∧
    (evalRouteType 2 r = true ↔ r.srcAddr ≠ none ∧ ¬ (r.srcAS = r.srcLocalAS ∧ r.srcAS ≠ 0)) := by
  unfold evalRouteType Route.isLocal Route.isIBGP
  cases r.srcAddr with
  | none => simp
  | some a =>
    simp
    by_cases h : r.srcAS = r.srcLocalAS <;> simp [h]

/-- every route has exactly one route type -/
theorem route_type_partition (r : Route) :
    (evalRouteType 3 r || evalRouteType 1 r || evalRouteType 2 r) = true ∧
    (evalRouteType 3 r && evalRouteType 1 r) = false ∧
    (evalRouteType 3 r && evalRouteType 2 r) = false ∧
    (evalRouteType 1 r && evalRouteType 2 r) = false := by
  unfold evalRouteType Route.isLocal Route.isIBGP
  cases r.srcAddr <;> cases h : (r.srcAS == r.srcLocalAS && r.srcAS != 0) <;> simp [h]

/-- a route learned over a confederation eBGP session (peer in member AS 65101, local member AS 65000) is external -/
example : evalRouteType 2 { (default : Route) with srcAddr := some ⟨false, 167772673⟩, srcAS := 65101, srcLocalAS := 65000 } = true ∧
    evalRouteType 1 { (default : Route) with srcAddr := some ⟨false, 167772673⟩, srcAS := 65101, srcLocalAS := 65000 } = false := by
  decide

/-! ## never mutates shared routes -/

open PolicyHeap in
/-- **policy_pure**: performing any sequence of community-type actions the way the repaired code does
    (every result in a fresh backing array) leaves every slice that was readable before — the stored
    path's attribute lists, the lists of every other clone — with exactly the same content; and what
    the acting clone reads after an action is the interpreter's list-level result. -/
theorem policy_pure (h : Heap) (r : HRoute) (acts : List HAct) :
    (∀ t : Slice, t.arr < h.length → read (hActs h r acts).1 t = read h t) ∧
    (∀ a : HAct, read (hAct h r a).1 ((hAct h r a).2.get a.which) =
        listAct a.op a.vals (read h (r.get a.which))) :=
  ⟨hActs_frame h r acts, hAct_refines h r⟩

open PolicyHeap in
example : ∃ (h : Heap) (t : Slice), t.arr < h.length ∧ read h t = [1] ∧
    read (hActs h ⟨t, t, t⟩ [⟨2, 0, [7]⟩, ⟨2, 0, [9]⟩]).1 t = [1] :=
  ⟨[[1, 0, 0, 0]], ⟨0, 1, 4⟩, by decide⟩

/-- the list-level meaning used by `policy_pure` is the interpreter's meaning of a community action -/
theorem listAct_is_comm_action (op : Nat) (vals : List Nat) (r : Route) (o : Opts) :
    (applyAct (.comm op vals) r o).comms = PolicyHeap.listAct op vals r.comms := by
  simp only [applyAct, PolicyHeap.listAct]
  by_cases h0 : op = 0
  · simp [h0]
  · by_cases h1 : op = 1 <;> simp [h0, h1]

open PolicyHeap in
/-- **append_aliases**: the same two additions done with Go's `append` on a slice with spare capacity
    (SetLargeCommunities before the repair): the first clone's list changes when the second clone adds
    its value — both end with 9 (the probe's "a: 9:9:9, b: 9:9:9"). -/
theorem append_aliases :
    ∃ (h : Heap) (s : Slice),
      let a := goAppend h s [7]
      let b := goAppend a.1 s [9]
      read a.1 a.2 = [1, 7] ∧ read b.1 a.2 = [1, 9] ∧ read b.1 b.2 = [1, 9] :=
  ⟨[[1, 0, 0, 0]], ⟨0, 1, 4⟩, by decide⟩

open PolicyHeap in
/-- … and `append` is harmless exactly in the case the existing tests exercise: no spare capacity -/
theorem append_pure_when_full (h : Heap) (s : Slice) (xs : List Nat) (hx : xs ≠ []) (hfull : s.len = s.cap)
    (t : Slice) (ht : t.arr < h.length) :
    read (goAppend h s xs).1 t = read h t :=
  goAppend_frame_full h s xs hx hfull t ht

open PolicyHeap in
example : ∃ (h : Heap) (s t : Slice) (xs : List Nat), xs ≠ [] ∧ s.len = s.cap ∧ t.arr < h.length ∧ read h t = [1, 2] :=
  ⟨[[1, 2]], ⟨0, 2, 2⟩, ⟨0, 2, 2⟩, [9], by decide, rfl, by decide, by decide⟩

end C10
