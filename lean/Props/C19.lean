import Model.Framing
import Lemmas.Framing
import Lemmas.FramingBodies
/-!
  C19 — MRT, BMP, RTR, Zebra and BFD codecs decode safely and round-trip.

  What is PROVED here is about `Model/Framing.lean` (hand-written mirror of the Go code, tied to it
  by the correspondence run on every check):
    * RTR  : every well-formed PDU serialises (no panic), to exactly `Len` octets, and ParseRTR
             returns the same PDU; the constructors only build well-formed PDUs.
    * BFD  : Marshal succeeds exactly on valid headers, gives 24 octets, Unmarshal inverts it.
    * MRT / BMP / ZAPI : header round-trips; the splitters never return a token longer than the
             data, never advance past it, the token is a prefix of the data, and they either make
             progress or ask for more (BMP: or fail); a serialised record is cut at its boundary;
             ParseBMPMessage accepts only what lies inside `len(data)`; ReceiveSingleMsg never
             consumes more than the announced length.
  "Decoders do not panic / loop / over-read" is, for the modelled functions, the fact that they
  are total Lean functions reading through guarded accessors; for the Go code itself, and for all
  message BODIES (MRT TABLE_DUMPv2/BGP4MP, BMP, ZAPI), it is SAMPLED by the harness oracles only.
-/
namespace C19
open Framing

/-! ## RTR -/

/-- the `Len` field of a PDU -/
def rtrLen : Rtr.Pdu → Nat
  | .common _ _ _ l _ => l | .reset _ _ l => l | .cacheResp _ _ _ l => l
  | .ipPrefix _ _ l _ _ _ _ _ => l | .errReport _ _ _ l _ _ _ _ => l

/-- well-formed PDU: every field fits its wire width, the type octet is one ParseRTR maps to this
    struct, `Len` covers the fixed part (the Error Report: exactly 16 + |PDU| + |text|). -/
def RtrWF : Rtr.Pdu → Prop
  | .common ver typ sess len serial =>
      ver < 256 ∧ (typ = 0 ∨ typ = 1 ∨ typ = 7) ∧ sess < 65536 ∧ 12 ≤ len ∧ len < 4294967296 ∧ serial < 4294967296
  | .reset ver typ len => ver < 256 ∧ (typ = 2 ∨ typ = 8) ∧ 8 ≤ len ∧ len < 4294967296
  | .cacheResp ver typ sess len => ver < 256 ∧ typ = 3 ∧ sess < 65536 ∧ 8 ≤ len ∧ len < 4294967296
  | .ipPrefix ver typ len flags plen mlen addr asn =>
      ver < 256 ∧ flags < 256 ∧ asn < 4294967296 ∧ len < 4294967296 ∧ plen ≤ mlen ∧
      ((typ = 4 ∧ addr.length = 4 ∧ mlen ≤ 32 ∧ 20 ≤ len) ∨ (typ = 6 ∧ addr.length = 16 ∧ mlen ≤ 128 ∧ 32 ≤ len))
  | .errReport ver typ code len pduLen pdu textLen text =>
      ver < 256 ∧ typ = 10 ∧ code < 65536 ∧ pduLen = pdu.length ∧ textLen = text.length ∧
      len = 16 + pduLen + textLen ∧ len < 4294967296

/-- Whatever the struct holds, `Serialize` either panics or returns exactly `Len` octets. -/
theorem rtr_serialize_length (p : Rtr.Pdu) (bs : Bytes) (h : Rtr.serialize p = some bs) :
    bs.length = rtrLen p := by
  cases p with
  | common ver typ sess len serial => exact Rtr.padTo_length _ _ _ h
  | reset ver typ len => exact Rtr.padTo_length _ _ _ h
  | cacheResp ver typ sess len => exact Rtr.padTo_length _ _ _ h
  | ipPrefix ver typ len flags plen mlen addr asn =>
    unfold Rtr.serialize at h
    simp only [] at h
    split at h <;> exact Rtr.padTo_length _ _ _ h
  | errReport ver typ code len pduLen pdu textLen text =>
    unfold Rtr.serialize at h
    simp only [] at h
    split at h
    · cases h
    · split at h
      · cases h
      · rename_i h1 h2
        cases h
        have hb1 : (enc8 ver ++ enc8 typ ++ enc16 code ++ enc32 len ++ enc32 pduLen ++ zeros (len - 12)).length = len := by
          simp [enc8, enc16, enc32]; omega
        have hb2 := Rtr.blit_length (enc8 ver ++ enc8 typ ++ enc16 code ++ enc32 len ++ enc32 pduLen ++ zeros (len - 12)) pdu 12 (by omega)
        have hb3 := Rtr.blit_length (blit (enc8 ver ++ enc8 typ ++ enc16 code ++ enc32 len ++ enc32 pduLen ++ zeros (len - 12)) 12 pdu)
          (enc32 textLen) ((12 + pduLen) % 4294967296) (by omega)
        rw [Rtr.blit_length _ _ _ (by omega)]
        show _ = len
        omega

/-- ROUND TRIP (full): a well-formed PDU serialises without panic, to `Len` octets, and ParseRTR
    gives back the same PDU. -/
theorem rtr_parse_serialize (p : Rtr.Pdu) (h : RtrWF p) :
    ∃ bs, Rtr.serialize p = some bs ∧ bs.length = rtrLen p ∧ Rtr.parse bs = .ok p := by
  cases p with
  | common ver typ sess len serial =>
    obtain ⟨hv, ht, hs, hl, hl2, hsn⟩ := h
    refine ⟨_, Rtr.padTo_ok _ _ (by simp [enc8, enc16, enc32]; omega), ?_, ?_⟩
    · simp [enc8, enc16, enc32, rtrLen]; omega
    · have htt : typ % 256 = typ := by omega
      simp only [enc8, enc16, enc32, List.cons_append, List.nil_append]
      rw [Rtr.parse_common_bytes _ _ _ _ _ _ _ _ _ _ _ _ _ (by omega)]
      simp [be16_enc _ hs, be32_enc _ hl2, be32_enc _ hsn, byte_id _ hv, htt]
  | reset ver typ len =>
    obtain ⟨hv, ht, hl, hl2⟩ := h
    refine ⟨_, Rtr.padTo_ok _ _ (by simp [enc8, enc32]; omega), ?_, ?_⟩
    · simp [enc8, enc32, rtrLen]; omega
    · have htt : typ % 256 = typ := by omega
      simp only [enc8, enc32, List.cons_append, List.nil_append]
      rw [Rtr.parse_reset_bytes _ _ _ _ _ _ _ _ _ (by omega)]
      simp [be32_enc _ hl2, byte_id _ hv, htt]
  | cacheResp ver typ sess len =>
    obtain ⟨hv, ht, hs, hl, hl2⟩ := h
    subst ht
    refine ⟨_, Rtr.padTo_ok _ _ (by simp [enc8, enc16, enc32]; omega), ?_, ?_⟩
    · simp [enc8, enc16, enc32, rtrLen]; omega
    · simp only [enc8, enc16, enc32, List.cons_append, List.nil_append]
      rw [show (3 : Nat) % 256 = 3 from rfl, Rtr.parse_cresp_bytes]
      simp [be16_enc _ hs, be32_enc _ hl2, byte_id _ hv]
  | ipPrefix ver typ len flags plen mlen addr asn =>
    obtain ⟨hv, hf, ha, hl2, hpm, hshape⟩ := h
    rcases hshape with ⟨ht, hal, hm, hl⟩ | ⟨ht, hal, hm, hl⟩
    · subst ht
      obtain ⟨a0, a1, a2, a3, rfl⟩ := len4 addr hal
      have hp : plen % 256 = plen := by omega
      have hmm : mlen % 256 = mlen := by omega
      refine ⟨_, Rtr.serialize_prefix4 ver len flags plen mlen a0 a1 a2 a3 asn hl, ?_, ?_⟩
      · simp [enc8, enc32, rtrLen]; omega
      · simp only [enc8, enc32, List.cons_append, List.nil_append]
        rw [show (4 : Nat) % 256 = 4 from rfl, hp, hmm, Rtr.parse_prefix4_bytes _ _ _ _ _ _ _ _ _ _ _ _ _ _ _ _ _ _ _ _ hm hpm]
        simp [be32_enc _ hl2, be32_enc _ ha, byte_id _ hv, byte_id _ hf]
    · subst ht
      obtain ⟨a0, a1, a2, a3, a4, a5, a6, a7, a8, a9, a10, a11, a12, a13, a14, a15, rfl⟩ := len16 addr hal
      have hp : plen % 256 = plen := by omega
      have hmm : mlen % 256 = mlen := by omega
      refine ⟨_, Rtr.serialize_prefix6 ver len flags plen mlen asn _ hal hl, ?_, ?_⟩
      · simp [enc8, enc32, rtrLen]; omega
      · simp only [enc8, enc32, List.cons_append, List.nil_append]
        rw [show (6 : Nat) % 256 = 6 from rfl, hp, hmm,
          Rtr.parse_prefix6_bytes _ _ _ _ _ _ _ _ _ _ _ _ _ _ _ _ _ _ _ _ _ _ _ _ _ _ _ _ _ _ _ _ hm hpm]
        simp [be32_enc _ hl2, be32_enc _ ha, byte_id _ hv, byte_id _ hf]
  | errReport ver typ code len pduLen pdu textLen text =>
    obtain ⟨hv, ht, hc, hp, htl, hl, hl2⟩ := h
    subst ht hp htl hl
    refine ⟨_, Rtr.serialize_errReport ver code pdu text hl2, ?_, ?_⟩
    · simp [enc8, enc16, enc32, rtrLen]; omega
    · simp only [enc8, enc16, enc32, List.cons_append, List.nil_append, List.append_assoc]
      rw [show (10 : Nat) % 256 = 10 from rfl]
      rw [Rtr.parse_errep_bytes _ _ _ _ _ _ _ _ _ _ _ _ _ _ _ pdu text
            (be32_enc _ hl2) (be32_enc _ (by omega)) (be32_enc _ (by omega))]
      simp [be16_enc _ hc, byte_id _ hv]

/-- Every PDU the package's constructors build is well-formed, hence round-trips
    (`rtr_parse_serialize`). Hypotheses are the Go parameter types (uint16 / uint32 / uint8) and
    that the lengths of the erroneous PDU and text fit the 32-bit Length. -/
theorem rtr_constructors_wf :
    (∀ typ id sn, (typ = 0 ∨ typ = 1 ∨ typ = 7) → id < 65536 → sn < 4294967296 → RtrWF (Rtr.mkCommon typ id sn)) ∧
    (∀ typ, (typ = 2 ∨ typ = 8) → RtrWF (Rtr.mkReset typ)) ∧
    (∀ id, id < 65536 → RtrWF (Rtr.mkCacheResp id)) ∧
    (∀ addr plen mlen asn flags p, asn < 4294967296 → flags < 256 →
        Rtr.mkPrefix addr plen mlen asn flags = some p → RtrWF p) ∧
    (∀ code pdu text p, code < 65536 → 16 + pdu.length + text.length < 4294967296 →
        Rtr.mkErrReport code pdu text = some p → RtrWF p) := by
  refine ⟨?_, ?_, ?_, ?_, ?_⟩
  · intro typ id sn ht hid hsn
    simp [Rtr.mkCommon, RtrWF]; omega
  · intro typ ht
    simp [Rtr.mkReset, RtrWF]; omega
  · intro id hid
    simp [Rtr.mkCacheResp, RtrWF]; omega
  · intro addr plen mlen asn flags p ha hf h
    unfold Rtr.mkPrefix at h
    split at h
    · cases h; simp [RtrWF]; omega
    · split at h
      · cases h; simp [RtrWF]; omega
      · cases h
  · intro code pdu text p hc hl h
    unfold Rtr.mkErrReport at h
    split at h
    · cases h
    · cases h; simp [RtrWF]; omega

example : Rtr.serialize (Rtr.mkReset 2) = some [0, 2, 0, 0, 0, 0, 0, 8] := by rfl
example : RtrWF (Rtr.mkCommon 7 4660 305419896) := by simp [Rtr.mkCommon, RtrWF]
example : RtrWF (.ipPrefix 0 6 32 1 48 64 (List.replicate 16 7) 65001) := by simp [RtrWF]
example : Rtr.mkPrefix [192, 168, 0, 0] 24 16 65001 1 = none := by decide
example : RtrWF (.errReport 0 10 2 26 8 [0, 2, 0, 0, 0, 0, 0, 8] 2 [97, 98]) := by simp [RtrWF]
example : Rtr.parse [0, 10, 0, 2, 0, 0, 0, 26, 0, 0, 0, 8, 0, 2, 0, 0, 0, 0, 0, 8, 0, 0, 0, 2, 97, 98] =
    .ok (.errReport 0 10 2 26 8 [0, 2, 0, 0, 0, 0, 0, 8] 2 [97, 98]) := by rfl
/-- Serialising a struct whose `Len` is shorter than its fixed part panics (as the Go code does:
    `make([]byte, m.Len)` followed by fixed indices) — e.g. what ParseRTR returns for a Serial
    Notify that announces Length 5. Not part of the property (decoders do not panic), recorded as
    behaviour of the model. -/
example : (Rtr.parse [0, 0, 0, 1, 0, 0, 0, 5, 0, 0, 0, 9]).toOption.bind Rtr.serialize = none := by decide

/-! ## BFD -/

/-- field ranges of the Go struct (uint8 / uint32); `validate` bounds version, diag, state -/
def BfdRanges (h : Bfd.Hdr) : Prop :=
  h.mult < 256 ∧ h.my < 4294967296 ∧ h.your < 4294967296 ∧ h.tx < 4294967296 ∧ h.rx < 4294967296

/-- ROUND TRIP (full): MarshalBinary succeeds on a valid header, yields 24 octets, and
    UnmarshalBinary returns the same header. -/
theorem bfd_unmarshal_marshal (h : Bfd.Hdr) (hv : Bfd.validate h = none) (hr : BfdRanges h) :
    ∃ bs, Bfd.marshal h = .ok bs ∧ bs.length = 24 ∧ Bfd.unmarshal bs = .ok h := by
  obtain ⟨hm, hmy, hyo, htx, hrx⟩ := hr
  have hver : h.ver ≤ 7 ∧ h.diag ≤ 31 ∧ h.state ≤ 3 := by
    unfold Bfd.validate at hv
    split at hv
    · cases hv
    · split at hv
      · cases hv
      · split at hv
        · cases hv
        · omega
  obtain ⟨h1, h2, h3⟩ := hver
  obtain ⟨ver, diag, state, poll, final, mult, my, your, tx, rx⟩ := h
  simp only [] at *
  have hm' : Bfd.marshal ⟨ver, diag, state, poll, final, mult, my, your, tx, rx⟩ =
      .ok ([ver * 32 % 256 + diag % 32, state * 64 % 256 + Bfd.b2n poll * 32 + Bfd.b2n final * 16, mult % 256, 24]
         ++ enc32 my ++ enc32 your ++ enc32 tx ++ enc32 rx ++ [0, 0, 0, 0]) := by
    simp [Bfd.marshal, hv]
  refine ⟨_, hm', by simp [enc32], ?_⟩
  simp only [enc32, List.cons_append, List.nil_append]
  unfold Bfd.unmarshal
  rw [if_neg (by simp), if_neg (by simp)]
  simp only [rd8_zero, rd8_succ, rd32_zero, rd32_succ]
  have e0 : (ver * 32 % 256 + diag % 32) / 32 = ver := by omega
  have e1 : (ver * 32 % 256 + diag % 32) % 32 = diag := by omega
  have e2 : (state * 64 % 256 + Bfd.b2n poll * 32 + Bfd.b2n final * 16) / 64 = state := by
    cases poll <;> cases final <;> simp [Bfd.b2n] <;> omega
  have e3 : ((state * 64 % 256 + Bfd.b2n poll * 32 + Bfd.b2n final * 16) / 32 % 2 != 0) = poll := by
    cases poll <;> cases final <;> simp [Bfd.b2n] <;> omega
  have e4 : ((state * 64 % 256 + Bfd.b2n poll * 32 + Bfd.b2n final * 16) / 16 % 2 != 0) = final := by
    cases poll <;> cases final <;> simp [Bfd.b2n] <;> omega
  rw [e0, e1, e2, e3, e4, be32_enc _ hmy, be32_enc _ hyo, be32_enc _ htx, be32_enc _ hrx, byte_id _ hm]

/-- MarshalBinary refuses exactly the headers Validate refuses. -/
theorem bfd_marshal_error_iff (h : Bfd.Hdr) :
    (∃ e, Bfd.marshal h = .error e) ↔ Bfd.validate h ≠ none := by
  unfold Bfd.marshal
  cases hv : Bfd.validate h <;> simp

/-- UnmarshalBinary accepts a packet only when its Length octet equals the number of octets
    received, which is at least 24: it never reads what it was not given. -/
theorem bfd_unmarshal_ok_length (d : Bytes) (h : Bfd.Hdr) (hd : Bfd.unmarshal d = .ok h) :
    24 ≤ d.length ∧ d.length = rd8 d 3 := by
  unfold Bfd.unmarshal at hd
  split at hd
  · cases hd
  · split at hd
    · cases hd
    · constructor <;> omega

example : Bfd.validate ⟨1, 0, 3, true, false, 3, 1, 2, 1000000, 1000000⟩ = none ∧
    BfdRanges ⟨1, 0, 3, true, false, 3, 1, 2, 1000000, 1000000⟩ := by
  constructor
  · decide
  · simp [BfdRanges]
example : Bfd.marshal ⟨8, 0, 3, true, false, 3, 1, 2, 3, 4⟩ = .error .version := by rfl
example : Bfd.unmarshal [32, 192, 3, 24, 0, 0, 0, 1, 0, 0, 0, 2, 0, 0, 0, 3, 0, 0, 0, 4, 0, 0, 0, 0] =
    .ok ⟨1, 0, 3, false, false, 3, 1, 2, 3, 4⟩ := by rfl

/-! ## MRT -/

/-- field widths of MRTHeader; the microsecond field only exists for the _ET types
    (NewMRTHeader leaves it 0 otherwise) -/
def MrtWF (h : Mrt.Hdr) : Prop :=
  h.ts < 4294967296 ∧ h.typ < 65536 ∧ h.sub < 65536 ∧ h.len < 4294967296 ∧ h.usec < 4294967296 ∧
  (Mrt.hasET h.typ = false → h.usec = 0)

/-- HEADER ROUND TRIP, extended-timestamp types included. -/
theorem mrt_header_roundtrip (h : Mrt.Hdr) (hw : MrtWF h) :
    Mrt.parseHeader (Mrt.serializeHeader h) = .ok h ∧
    (Mrt.serializeHeader h).length = (if Mrt.hasET h.typ then 16 else 12) := by
  obtain ⟨ts, typ, sub, len, usec⟩ := h
  obtain ⟨h1, h2, h3, h4, h5, h6⟩ := hw
  simp only [] at *
  cases het : Mrt.hasET typ
  · have hu := h6 het
    subst hu
    simp [Mrt.serializeHeader, Mrt.parseHeader, het, enc16, enc32, be16_enc _ h2, be16_enc _ h3,
      be32_enc _ h1, be32_enc _ h4]
  · simp [Mrt.serializeHeader, Mrt.parseHeader, het, enc16, enc32, be16_enc _ h2, be16_enc _ h3,
      be32_enc _ h1, be32_enc _ h4, be32_enc _ h5]

/-- SPLITTER SAFETY (for ALL byte strings): SplitMrt never fails, and when it returns a token the
    token is the first `adv` octets of the data, `adv` is at least a header and at most
    `len(data)` — it makes progress or asks for more. -/
theorem mrt_split_token_le (d : Bytes) (eof : Bool) :
    match Mrt.split d eof with
    | .more => True
    | .err => False
    | .tok adv t => 12 ≤ adv ∧ adv ≤ d.length ∧ t = d.take adv ∧ t.length = adv := by
  unfold Mrt.split
  by_cases h1 : (eof = true ∧ d.length = 0)
  · rw [if_pos h1]; trivial
  · by_cases h2 : d.length < 12
    · rw [if_neg h1, if_pos h2]; trivial
    · by_cases h3 : d.length < rd32 d 8 + 12
      · rw [if_neg h1, if_neg h2]; simp only []; rw [if_pos h3]; trivial
      · rw [if_neg h1, if_neg h2]; simp only []; rw [if_neg h3]
        exact ⟨by omega, by omega, rfl, by rw [List.length_take]; omega⟩

/-- FRAMING AGREES: a serialised record (non-ET header whose Length is the body length) followed
    by anything is cut exactly at the record boundary. -/
theorem mrt_split_frames_record (h : Mrt.Hdr) (body rest : Bytes) (eof : Bool) (hw : MrtWF h)
    (het : Mrt.hasET h.typ = false) (hl : h.len = body.length) :
    Mrt.split (Mrt.serializeHeader h ++ body ++ rest) eof =
      .tok (12 + body.length) (Mrt.serializeHeader h ++ body) := by
  obtain ⟨ts, typ, sub, len, usec⟩ := h
  obtain ⟨h1, h2, h3, h4, h5, h6⟩ := hw
  simp only [] at *
  subst hl
  have hlen : (Mrt.serializeHeader ⟨ts, typ, sub, body.length, usec⟩).length = 12 := by
    simp [Mrt.serializeHeader, het, enc16, enc32]
  have hrd : rd32 (Mrt.serializeHeader ⟨ts, typ, sub, body.length, usec⟩ ++ body ++ rest) 8 = body.length := by
    simp [Mrt.serializeHeader, het, enc16, enc32, be32_enc _ h4]
  have htake : List.take (12 + body.length) (Mrt.serializeHeader ⟨ts, typ, sub, body.length, usec⟩ ++ body ++ rest)
      = Mrt.serializeHeader ⟨ts, typ, sub, body.length, usec⟩ ++ body :=
    take_append_self _ _ _ (by simp [hlen])
  have hDlen : (Mrt.serializeHeader ⟨ts, typ, sub, body.length, usec⟩ ++ body ++ rest).length =
      12 + body.length + rest.length := by simp [hlen]; omega
  generalize Mrt.serializeHeader ⟨ts, typ, sub, body.length, usec⟩ ++ body ++ rest = D at hrd htake hDlen ⊢
  unfold Mrt.split
  rw [if_neg (by omega), if_neg (by omega)]
  simp only [hrd]
  rw [if_neg (by omega)]
  have : body.length + 12 = 12 + body.length := by omega
  rw [this, htake]

/-- THE DEFECT of the pinned commit (model `splitOld`, repaired by the fix commit): with fewer
    than 12 octets of data the header was completed from the spare capacity, so the result
    depended on octets beyond len(data); and a Length of 0xfffffff4 wrapped to a zero-length
    token with advance 0 (a bufio.Scanner then never makes progress); an _ET record was refused. -/
theorem mrt_splitOld_counterexample :
    Mrt.splitOld [0, 0, 0, 10, 0, 13, 0, 2] [255, 255, 255, 244] false = .tok 0 [] ∧
    Mrt.splitOld [0, 0, 0, 10, 0, 13, 0, 2] [0, 0, 0, 0] false = .more ∧
    Mrt.splitOld [0, 0, 0, 10, 0, 13, 0, 2, 255, 255, 255, 244] [] false = .tok 0 [] ∧
    Mrt.splitOld [0, 0, 0, 10, 0, 17, 0, 0, 0, 0, 0, 4, 0, 1, 226, 64, 1, 2, 3, 4] [] false = .err := by
  refine ⟨by rfl, by rfl, by rfl, by rfl⟩

example : MrtWF ⟨1234, 17, 4, 100, 999999⟩ := by simp [MrtWF, Mrt.hasET]
example : MrtWF ⟨1234, 13, 2, 100, 0⟩ := by simp [MrtWF]
example : MrtWF ⟨1234, 13, 2, 2, 0⟩ ∧ Mrt.hasET 13 = false ∧ (2 : Nat) = [1, 2].length := by
  refine ⟨by simp [MrtWF], by rfl, by rfl⟩
example : Mrt.split [0, 0, 0, 10, 0, 13, 0, 2, 0, 0, 0, 2, 1, 2, 9] false =
    .tok 14 [0, 0, 0, 10, 0, 13, 0, 2, 0, 0, 0, 2, 1, 2] := by rfl
example : Mrt.split [0, 0, 0, 10, 0, 13, 0, 2, 255, 255, 255, 244] false = .more := by rfl

/-! ## BMP -/

/-- COMMON HEADER ROUND TRIP (DecodeFromBytes only accepts version 3). -/
theorem bmp_header_roundtrip (h : Bmp.Hdr) (hv : h.ver = 3) (hl : h.len < 4294967296) (ht : h.typ < 256) :
    Bmp.decHdr (Bmp.serHdr h) = .ok h ∧ (Bmp.serHdr h).length = 6 := by
  obtain ⟨ver, len, typ⟩ := h
  simp only [] at *
  subst hv
  simp [Bmp.serHdr, Bmp.decHdr, enc8, enc32, be32_enc _ hl, byte_id _ ht]

/-- field widths of BMPPeerHeader and the address shape NewBMPPeerHeader / DecodeFromBytes
    produce: none for the Loc-RIB peer type, 16 octets with the V flag, 4 without. -/
def BmpPeerWF (h : Bmp.PeerHdr) : Prop :=
  h.ptype < 256 ∧ h.flags < 256 ∧ h.dist < 18446744073709551616 ∧ h.asn < 4294967296 ∧
  h.bgpid.length = 4 ∧ h.sec < 4294967296 ∧ h.usec < 4294967296 ∧
  ((h.ptype = 3 ∧ h.addr = []) ∨
   (h.ptype ≠ 3 ∧ Bmp.hasV h.ptype h.flags = true ∧ h.addr.length = 16) ∨
   (h.ptype ≠ 3 ∧ Bmp.hasV h.ptype h.flags = false ∧ h.addr.length = 4))

/-- PER-PEER HEADER ROUND TRIP for every peer type and flag set (the float64 timestamp is the
    pair (seconds, microseconds) here; its conversion is covered by the harness oracle only). -/
theorem bmp_peer_roundtrip (h : Bmp.PeerHdr) (hw : BmpPeerWF h) :
    Bmp.decPeer (Bmp.serPeer h) = .ok h ∧ (Bmp.serPeer h).length = 42 := by
  obtain ⟨ptype, flags, dist, addr, asn, bgpid, sec, usec⟩ := h
  obtain ⟨h1, h2, h3, h4, h5, h6, h7, hs⟩ := hw
  simp only [] at *
  obtain ⟨b0, b1, b2, b3, rfl⟩ := len4 bgpid h5
  have hd1 : dist / 4294967296 < 4294967296 := by omega
  have hd2 : dist % 4294967296 < 4294967296 := by omega
  have hd : dist / 4294967296 * 4294967296 + dist % 4294967296 = dist := by omega
  rcases hs with ⟨hp, ha⟩ | ⟨hp, hv, ha⟩ | ⟨hp, hv, ha⟩
  · subst hp ha
    simp [Bmp.serPeer, Bmp.decPeer, rd64, enc8, enc32, enc64, zeros, copyInto, List.replicate,
      be32_enc _ hd1, be32_enc _ hd2, hd, be32_enc _ h4, be32_enc _ h6, be32_enc _ h7, byte_id _ h2]
    omega
  · obtain ⟨a0, a1, a2, a3, a4, a5, a6, a7, a8, a9, a10, a11, a12, a13, a14, a15, rfl⟩ := len16 addr ha
    simp [Bmp.serPeer, Bmp.decPeer, rd64, enc8, enc32, enc64, zeros, copyInto, List.replicate, hp, hv,
      be32_enc _ hd1, be32_enc _ hd2, hd, be32_enc _ h4, be32_enc _ h6, be32_enc _ h7, byte_id _ h1, byte_id _ h2]
    omega
  · obtain ⟨a0, a1, a2, a3, rfl⟩ := len4 addr ha
    simp [Bmp.serPeer, Bmp.decPeer, rd64, enc8, enc32, enc64, zeros, copyInto, List.replicate, hp, hv,
      be32_enc _ hd1, be32_enc _ hd2, hd, be32_enc _ h4, be32_enc _ h6, be32_enc _ h7, byte_id _ h1, byte_id _ h2]
    omega

/-- SPLITTER SAFETY (for ALL byte strings): a token is the first `adv` octets of the data,
    `adv` is at least a header and at most `len(data)`; otherwise SplitBMP asks for more or
    fails — it never returns an empty token without progress. -/
theorem bmp_split_token_le (d : Bytes) (eof : Bool) :
    match Bmp.split d eof with
    | .more => True
    | .err => 6 ≤ d.length
    | .tok adv t => 6 ≤ adv ∧ adv ≤ d.length ∧ t = d.take adv ∧ t.length = adv := by
  unfold Bmp.split
  by_cases h1 : ((eof = true ∧ d.length = 0) ∨ d.length < 6)
  · rw [if_pos h1]; trivial
  · rw [if_neg h1]
    cases hh : Bmp.decHdr (d.take 6) with
    | error e => trivial
    | ok h =>
      simp only []
      by_cases h2 : h.len < 6
      · rw [if_pos h2]; show 6 ≤ d.length; omega
      · by_cases h3 : d.length < h.len
        · rw [if_neg h2, if_pos h3]; trivial
        · rw [if_neg h2, if_neg h3]
          exact ⟨by omega, by omega, rfl, by rw [List.length_take]; omega⟩

/-- THE DEFECT of the pinned commit: Length = 0 gave an empty token with advance 0. -/
theorem bmp_splitOld_counterexample : Bmp.splitOld [3, 0, 0, 0, 0, 4] false = .tok 0 [] := by rfl

example : Bmp.decHdr (Bmp.serHdr ⟨3, 48, 0⟩) = .ok ⟨3, 48, 0⟩ := by rfl
example : Bmp.parseMsg [3, 0, 0, 0, 12, 4, 0, 1, 0, 2, 97, 98] = .ok ⟨⟨3, 12, 4⟩, none, .info [(1, [97, 98])]⟩ := by rfl
example : Bmp.parseMsg [3, 0, 0, 0, 14, 4, 0, 1, 0, 2, 97, 98] = .error .length := by rfl
example : Bmp.split [3, 0, 0, 0, 0, 4] false = .err := by rfl
example : Bmp.split [3, 0, 0, 0, 6, 4, 3, 0] false = .tok 6 [3, 0, 0, 0, 6, 4] := by rfl
example : BmpPeerWF ⟨0, 192, 7, List.replicate 16 1, 65001, [10, 0, 0, 1], 1700000000, 3⟩ := by
  simp [BmpPeerWF, Bmp.hasV]
example : BmpPeerWF ⟨3, 128, 0, [], 65001, [10, 0, 0, 1], 1700000000, 0⟩ := by simp [BmpPeerWF]

/-- ParseBMPMessage (framing, after the fix): a message is accepted only if its header decodes
    and the announced Length is at least the header and at most `len(data)` — nothing is parsed
    from beyond the data handed in. (At the pinned commit the bound was cap(data).) -/
theorem bmp_parse_within_len (d : Bytes) (m : Bmp.Msg) (h : Bmp.parseMsg d = .ok m) :
    Bmp.decHdr d = .ok m.hdr ∧ 6 ≤ m.hdr.len ∧ m.hdr.len ≤ d.length := by
  unfold Bmp.parseMsg at h
  cases hd : Bmp.decHdr d with
  | error e => rw [hd] at h; cases h
  | ok hh =>
    rw [hd] at h
    simp only [] at h
    by_cases hl : hh.len < 6 ∨ hh.len > d.length
    · rw [if_pos hl] at h; cases h
    · rw [if_neg hl] at h
      have e : m.hdr = hh := by
        repeat' split at h
        all_goals first | (cases h; rfl) | cases h
      rw [e]
      exact ⟨rfl, by omega, by omega⟩

/-! ## Zebra API -/

/-- field widths per version: no VRF id in version 2, 16 bits in 3 and 4, 32 bits in 5 and 6;
    Len at least the header size (decodeFromBytes rejects less) -/
def ZapiWF (h : Zapi.Hdr) : Prop :=
  h.len < 65536 ∧ h.marker < 256 ∧ h.cmd < 65536 ∧ Zapi.headerSize h.ver ≤ h.len ∧
  ((h.ver = 2 ∧ h.vrf = 0) ∨ ((h.ver = 3 ∨ h.ver = 4) ∧ h.vrf < 65536) ∨
   ((h.ver = 5 ∨ h.ver = 6) ∧ h.vrf < 4294967296))

/-- HEADER ROUND TRIP for ZAPI versions 2 to 6. -/
theorem zapi_header_roundtrip (h : Zapi.Hdr) (hw : ZapiWF h) :
    ∃ bs, Zapi.serialize h = some bs ∧ bs.length = Zapi.headerSize h.ver ∧ Zapi.decode bs = .ok h := by
  obtain ⟨len, marker, ver, vrf, cmd⟩ := h
  obtain ⟨h1, h2, h3, h4, hv⟩ := hw
  simp only [] at *
  rcases hv with ⟨rfl, rfl⟩ | ⟨rfl | rfl, hvrf⟩ | ⟨rfl | rfl, hvrf⟩
  · refine ⟨enc16 len ++ enc8 marker ++ enc8 2 ++ enc16 cmd, by simp [Zapi.serialize],
      by simp [enc8, enc16, Zapi.headerSize], ?_⟩
    simp [Zapi.headerSize] at h4
    simp [Zapi.decode, Zapi.headerSize, enc8, enc16, be16_enc _ h1, be16_enc _ h3, byte_id _ h2]
    omega
  · refine ⟨enc16 len ++ enc8 marker ++ enc8 3 ++ enc16 vrf ++ enc16 cmd, by simp [Zapi.serialize],
      by simp [enc8, enc16, Zapi.headerSize], ?_⟩
    simp [Zapi.headerSize] at h4
    simp [Zapi.decode, Zapi.headerSize, enc8, enc16, be16_enc _ h1, be16_enc _ h3, be16_enc _ hvrf, byte_id _ h2]
    omega
  · refine ⟨enc16 len ++ enc8 marker ++ enc8 4 ++ enc16 vrf ++ enc16 cmd, by simp [Zapi.serialize],
      by simp [enc8, enc16, Zapi.headerSize], ?_⟩
    simp [Zapi.headerSize] at h4
    simp [Zapi.decode, Zapi.headerSize, enc8, enc16, be16_enc _ h1, be16_enc _ h3, be16_enc _ hvrf, byte_id _ h2]
    omega
  · refine ⟨enc16 len ++ enc8 marker ++ enc8 5 ++ enc32 vrf ++ enc16 cmd, by simp [Zapi.serialize],
      by simp [enc8, enc16, enc32, Zapi.headerSize], ?_⟩
    simp [Zapi.headerSize] at h4
    simp [Zapi.decode, Zapi.headerSize, enc8, enc16, enc32, be16_enc _ h1, be16_enc _ h3, be32_enc _ hvrf, byte_id _ h2]
    omega
  · refine ⟨enc16 len ++ enc8 marker ++ enc8 6 ++ enc32 vrf ++ enc16 cmd, by simp [Zapi.serialize],
      by simp [enc8, enc16, enc32, Zapi.headerSize], ?_⟩
    simp [Zapi.headerSize] at h4
    simp [Zapi.decode, Zapi.headerSize, enc8, enc16, enc32, be16_enc _ h1, be16_enc _ h3, be32_enc _ hvrf, byte_id _ h2]
    omega

example : ZapiWF ⟨10, 254, 6, 7, 23⟩ := by simp [ZapiWF, Zapi.headerSize]
example : ZapiWF ⟨6, 255, 2, 0, 1⟩ := by simp [ZapiWF, Zapi.headerSize]

/-- ReceiveSingleMsg, LENGTH HANDLING (for ALL byte streams and configured versions): it never
    consumes more than the stream holds; a message handed to the body parser has the configured
    version, consumed exactly its `Len` octets (header included, so `Len` ≥ header size) and its
    body is the `Len` − header octets that follow the header. -/
theorem zapi_recv_consumes_le (v : Nat) (s : Bytes) (hb : ∀ x ∈ s, x < 256) :
    match Zapi.recv v s with
    | .hdrRead c => c = s.length ∧ c < Zapi.headerSize v
    | .mismatch c => c = Zapi.headerSize v ∧ c ≤ s.length
    | .hdrErr c => c = Zapi.headerSize v ∧ c ≤ s.length
    | .bodyRead c => c = s.length
    | .framed c h body =>
        c ≤ s.length ∧ c = h.len ∧ h.ver = v ∧ Zapi.headerSize v ≤ c ∧
        body = (s.drop (Zapi.headerSize v)).take (c - Zapi.headerSize v) := by
  unfold Zapi.recv
  simp only []
  by_cases h1 : s.length < Zapi.headerSize v
  · rw [if_pos h1]; exact ⟨rfl, h1⟩
  · rw [if_neg h1]
    by_cases h2 : v ≠ rd8 (s.take (Zapi.headerSize v)) 3
    · rw [if_pos h2]; exact ⟨rfl, by omega⟩
    · rw [if_neg h2]
      cases hd : Zapi.decode (s.take (Zapi.headerSize v)) with
      | error e => exact ⟨rfl, by omega⟩
      | ok h =>
        simp only []
        obtain ⟨f1, f2, f3⟩ := Zapi.decode_ok_facts _ _ hd
        have hlt : h.len < 65536 := by
          rw [f1]; exact Zapi.rd16_lt _ (fun x hx => hb x (List.mem_of_mem_take hx))
        have hv : h.ver = v := by rw [f2]; omega
        rw [hv] at f3
        have hbl : (h.len + 65536 - Zapi.headerSize v) % 65536 = h.len - Zapi.headerSize v := by omega
        rw [hbl]
        by_cases h3 : (s.drop (Zapi.headerSize v)).length < h.len - Zapi.headerSize v
        · rw [if_pos h3]
        · rw [if_neg h3]
          rw [List.length_drop] at h3
          have e : Zapi.headerSize v + (h.len - Zapi.headerSize v) = h.len := by omega
          refine ⟨by omega, by omega, hv, by omega, ?_⟩
          rw [e]

example : Zapi.recv 6 [0, 12, 254, 6, 0, 0, 0, 0, 0, 23, 1, 2, 9, 9] =
    .framed 12 ⟨12, 254, 6, 0, 23⟩ [1, 2] := by rfl
example : Zapi.recv 2 [0, 5, 255, 2, 0, 1, 9, 9, 9] = .hdrErr 6 := by rfl
example : ∀ x ∈ [0, 12, 254, 6, 0, 0, 0, 0, 0, 23, 1, 2, 9, 9], x < 256 := by decide

/-! ## MRT TABLE_DUMPv2 bodies (what mrtWriter.dumpTable writes)

  Path attributes and the NLRIs of RIB_GENERIC families are opaque octet strings here. -/

/-- well-formed PEER_INDEX_TABLE: IPv4 collector id, view name and peer count fit 16 bits, every
    peer entry is what NewPeer builds (`Mrt.PeerWF`) -/
def PeerTableWF (t : Mrt.PeerTable) : Prop :=
  t.collector.length = 4 ∧ t.view.length < 65536 ∧ t.peers.length < 65536 ∧ ∀ p ∈ t.peers, Mrt.PeerWF p

/-- PEER_INDEX_TABLE ROUND TRIP: a well-formed table serialises (no AS error) and
    parsePeerIndexTable gives it back, leaving what follows untouched. -/
theorem mrt_peer_table_roundtrip (t : Mrt.PeerTable) (rest : Bytes) (h : PeerTableWF t) :
    ∃ bs, Mrt.serPeerTable t = some bs ∧ Mrt.parsePeerTable (bs ++ rest) = some (t, rest) := by
  obtain ⟨c, v, ps⟩ := t
  obtain ⟨h1, h2, h3, h4⟩ := h
  simp only [] at *
  obtain ⟨pb, hs, hp⟩ := Mrt.parsePeers_ser ps rest h4
  refine ⟨copyInto 4 c ++ enc16 v.length ++ v ++ enc16 ps.length ++ pb, by simp [Mrt.serPeerTable, hs], ?_⟩
  unfold Mrt.parsePeerTable
  rw [copyInto4 c h1]
  simp only [List.append_assoc]
  rw [getN_append c _ 4 h1]
  try simp only []
  rw [getU16_enc _ _ h2]
  try simp only []
  rw [getN_append v _ _ rfl]
  try simp only []
  rw [getU16_enc _ _ h3]
  try simp only []
  rw [hp]

/-- well-formed RIB record for the ADD-PATH flag `ap`; `glen` is the NLRI length the family's
    decoder reports for a RIB_GENERIC family. IP prefixes: bit length within the address width,
    ⌈bits/8⌉ octets, trailing bits already cleared. -/
def RibWF (ap : Bool) (glen : Nat) (r : Mrt.Rib) : Prop :=
  r.seq < 4294967296 ∧ r.afi < 65536 ∧ r.safi < 256 ∧ ¬ (r.afi = 0 ∧ r.safi = 0) ∧
  r.entries.length < 65536 ∧ (∀ e ∈ r.entries, Mrt.EntryWF ap e) ∧
  (if Mrt.isIPFamily r.afi r.safi then
     ∃ bits p, r.nlri = bits :: p ∧ bits ≤ (if r.afi = 2 then 128 else 32) ∧ p.length = (bits + 7) / 8 ∧
       (bits % 8 ≠ 0 → Mrt.maskLast (8 - bits % 8) p = p)
   else r.nlri.length = glen)

/-- RIB RECORD ROUND TRIP under the subtype dumpTable picks (RFC 6396 / RFC 8050): for every
    family and both ADD-PATH variants, `parseRib (subtypeOf family addPath)` reads back exactly
    the record `Rib.Serialize` wrote — in particular AFI/SAFI are written exactly for the
    subtypes under which they are expected (the C19-E class). -/
theorem mrt_rib_roundtrip (ap : Bool) (glen : Nat) (r : Mrt.Rib) (rest : Bytes) (h : RibWF ap glen r) :
    Mrt.parseRib (Mrt.subtypeOf r.afi r.safi ap) glen (Mrt.serRib ap r ++ rest) = some (r, rest) := by
  obtain ⟨seq, afi, safi, nlri, es⟩ := r
  obtain ⟨h1, h2, h3, h0, h4, h5, h6⟩ := h
  simp only [] at *
  have hes := Mrt.parseEntries_ser ap es rest h5
  by_cases hip : Mrt.isIPFamily afi safi = true
  · rw [if_pos hip] at h6
    obtain ⟨bits, p, rfl, hb, hl, hm⟩ := h6
    have hk : Mrt.ribKind (Mrt.subtypeOf afi safi ap) = some (afi, safi, ap) := by
      unfold Mrt.isIPFamily at hip
      simp at hip
      rcases hip with ⟨ha | ha, hs | hs⟩ <;> subst ha <;> subst hs <;> cases ap <;> rfl
    have hne : ¬ (afi = 0 ∧ safi = 0) := h0
    unfold Mrt.parseRib Mrt.serRib
    rw [hk]
    simp only [hip, if_true, List.append_nil, List.append_assoc]
    rw [getU32_enc seq _ h1]
    simp only [if_neg hne]
    have hpp : Mrt.parseIPPrefix afi (bits :: p ++ (enc16 es.length ++ (Mrt.serEntries ap es ++ rest))) =
        some (bits :: p, enc16 es.length ++ (Mrt.serEntries ap es ++ rest)) := by
      unfold Mrt.parseIPPrefix
      simp only [List.cons_append, getU8]
      rw [getN_append p _ _ hl]
      try simp only []
      rw [if_neg (by omega)]
      by_cases hr : bits % 8 = 0
      · rw [if_pos hr]
      · rw [if_neg hr, hm hr]
    rw [hpp, if_pos hip]
    try simp only []
    rw [getU16_enc _ _ h4]
    try simp only []
    rw [hes]
  · have hipf : Mrt.isIPFamily afi safi = false := by
      cases hh : Mrt.isIPFamily afi safi
      · rfl
      · exact absurd hh hip
    rw [hipf] at h6
    simp only [Bool.false_eq_true, if_false] at h6
    have hk : Mrt.ribKind (Mrt.subtypeOf afi safi ap) = some (0, 0, ap) := by
      have hn : ¬ (afi = 1 ∧ safi = 1) ∧ ¬ (afi = 1 ∧ safi = 2) ∧ ¬ (afi = 2 ∧ safi = 1) ∧ ¬ (afi = 2 ∧ safi = 2) := by
        unfold Mrt.isIPFamily at hipf
        simp at hipf
        omega
      obtain ⟨n1, n2, n3, n4⟩ := hn
      unfold Mrt.subtypeOf
      rw [if_neg n1, if_neg n2, if_neg n3, if_neg n4]
      cases ap <;> rfl
    unfold Mrt.parseRib Mrt.serRib
    rw [hk]
    simp only [hipf, Bool.false_eq_true, if_false, List.append_assoc]
    rw [getU32_enc seq _ h1]
    simp only [and_self, if_true]
    rw [getU16_enc afi _ h2]
    try simp only []
    rw [getU8_enc safi _ h3]
    try simp only []
    try rw [hipf]
    try simp only [Bool.false_eq_true, if_false]
    rw [getN_append nlri _ _ h6]
    try simp only []
    rw [getU16_enc _ _ h4]
    try simp only []
    rw [hes]

/-- SUBTYPE CONSISTENCY (RFC 6396 4.3.2, RFC 8050 4): the subtype dumpTable picks for a family
    makes the parser expect AFI/SAFI exactly when Rib.Serialize writes them, keeps the
    ADD-PATH flag, and for the four IP families implies that very family. -/
theorem mrt_subtype_consistent (afi safi : Nat) (ap : Bool) :
    Mrt.ribKind (Mrt.subtypeOf afi safi ap) =
      some (if Mrt.isIPFamily afi safi then (afi, safi, ap) else (0, 0, ap)) := by
  by_cases hip : Mrt.isIPFamily afi safi = true
  · rw [if_pos hip]
    unfold Mrt.isIPFamily at hip
    simp at hip
    rcases hip with ⟨ha | ha, hs | hs⟩ <;> subst ha <;> subst hs <;> cases ap <;> rfl
  · rw [if_neg hip]
    have hn : ¬ (afi = 1 ∧ safi = 1) ∧ ¬ (afi = 1 ∧ safi = 2) ∧ ¬ (afi = 2 ∧ safi = 1) ∧ ¬ (afi = 2 ∧ safi = 2) := by
      unfold Mrt.isIPFamily at hip
      simp at hip
      omega
    obtain ⟨n1, n2, n3, n4⟩ := hn
    unfold Mrt.subtypeOf
    rw [if_neg n1, if_neg n2, if_neg n3, if_neg n4]
    cases ap <;> rfl

/-- RECORD LENGTH: the Length field of the common header MRTMessage.Serialize writes is the
    body length, the record is header + body, and SplitMrt cuts it off exactly there. -/
theorem mrt_record_length (ts typ sub : Nat) (body rest : Bytes) (eof : Bool)
    (h1 : ts < 4294967296) (h2 : typ < 65536) (h3 : sub < 65536) (h4 : body.length < 4294967296)
    (het : Mrt.hasET typ = false) :
    (Mrt.serRecord ts typ sub body).length = 12 + body.length ∧
    Mrt.parseHeader (Mrt.serRecord ts typ sub body) = .ok ⟨ts, typ, sub, body.length, 0⟩ ∧
    Mrt.split (Mrt.serRecord ts typ sub body ++ rest) eof = .tok (12 + body.length) (Mrt.serRecord ts typ sub body) := by
  have hw : MrtWF ⟨ts, typ, sub, body.length, 0⟩ := ⟨h1, h2, h3, h4, (by show (0 : Nat) < 4294967296; decide), fun _ => rfl⟩
  have hlen : (Mrt.serializeHeader ⟨ts, typ, sub, body.length, 0⟩).length = 12 := by
    have := (mrt_header_roundtrip _ hw).2
    simpa [het] using this
  refine ⟨by simp [Mrt.serRecord, hlen], ?_, ?_⟩
  · unfold Mrt.serRecord
    simp [Mrt.serializeHeader, Mrt.parseHeader, het, enc16, enc32, be16_enc _ h2, be16_enc _ h3,
      be32_enc _ h1, be32_enc _ h4]
  · exact mrt_split_frames_record ⟨ts, typ, sub, body.length, 0⟩ body rest eof hw het rfl

/-- ATTRIBUTION (the C19-D class): after writing and reading back a peer table and a RIB
    record, entry `i` of the record is attributed to the very peer entry the daemon's table
    holds at that entry's peer index — address, BGP id, AS and type octet. -/
theorem mrt_attribution_roundtrip (t : Mrt.PeerTable) (r : Mrt.Rib) (ap : Bool) (glen : Nat) (i : Nat)
    (ht : PeerTableWF t) (hr : RibWF ap glen r) :
    ∃ tb, Mrt.serPeerTable t = some tb ∧
      ∃ t' r', Mrt.parsePeerTable tb = some (t', []) ∧
        Mrt.parseRib (Mrt.subtypeOf r.afi r.safi ap) glen (Mrt.serRib ap r) = some (r', []) ∧
        Mrt.entryPeer t' r' i = Mrt.entryPeer t r i := by
  obtain ⟨tb, hs, hp⟩ := mrt_peer_table_roundtrip t [] ht
  have hrr := mrt_rib_roundtrip ap glen r [] hr
  simp only [List.append_nil] at hp hrr
  exact ⟨tb, hs, t, r, hp, hrr, rfl⟩

example : PeerTableWF ⟨[1, 1, 1, 1], [], [Mrt.mkPeer [2, 2, 2, 2] [10, 0, 0, 2] 65002 true,
    Mrt.mkPeer [5, 5, 5, 5] (List.replicate 16 9) 65005 false]⟩ := by
  refine ⟨rfl, by simp, by simp, ?_⟩
  intro p hp
  simp at hp
  rcases hp with rfl | rfl <;> simp [Mrt.mkPeer, Mrt.PeerWF]
example : RibWF true 0 ⟨7, 1, 2, [20, 10, 84, 96], [⟨1, 1700000000, 21, [64, 1, 1, 0]⟩]⟩ := by
  refine ⟨by decide, by decide, by decide, by decide, by decide, ?_, ?_⟩
  · intro e he
    simp at he
    subst he
    simp [Mrt.EntryWF]
  · rw [if_pos (by rfl)]
    exact ⟨20, [10, 84, 96], rfl, by decide, rfl, fun _ => rfl⟩
example : RibWF false 12 ⟨7, 1, 128, List.replicate 12 3, []⟩ := by
  refine ⟨by decide, by decide, by decide, by decide, by decide, by simp, ?_⟩
  rw [if_neg (by decide)]
  rfl
example : Mrt.subtypeOf 1 2 true = 9 ∧ Mrt.subtypeOf 25 70 false = 6 := by decide

/-! ## MRT BGP4MP records (what the mrtWriter loop writes) -/

/-- BGP4MP STATE CHANGE ROUND TRIP (BGP4MP_STATE_CHANGE = 0 and _AS4 = 5). -/
theorem mrt_bgp4mp_state_roundtrip (as4 : Bool) (h : Mrt.Bgp4mpHdr) (o n : Nat)
    (hw : Mrt.Bgp4mpHdrWF as4 h) (ho : o < 65536) (hn : n < 65536) :
    ∃ bs, Mrt.serBgp4mp as4 (.state h o n) = some bs ∧
      Mrt.parseBgp4mp (if as4 then 5 else 0) bs = some (.state h o n) := by
  obtain ⟨hb, hs, hp⟩ := Mrt.parseBgp4mpHdr_ser as4 h (enc16 o ++ enc16 n) hw
  refine ⟨hb ++ enc16 o ++ enc16 n, by simp [Mrt.serBgp4mp, hs], ?_⟩
  have hk : Mrt.bgp4mpKind (if as4 then 5 else 0) = some (true, as4) := by cases as4 <;> rfl
  unfold Mrt.parseBgp4mp
  rw [hk]
  simp only [List.append_assoc]
  rw [hp]
  simp only [if_true]
  rw [getU16_enc o _ ho]
  try simp only []
  rw [getU16_enc_nil n hn]

/-- BGP4MP MESSAGE ROUND TRIP for every message subtype (_AS4, _LOCAL, _ADDPATH variants): peer
    AS width as the subtype says, and THE EMBEDDED BGP MESSAGE IS FRAMED BY ITS OWN HEADER
    LENGTH — the parser returns exactly the message octets. -/
theorem mrt_bgp4mp_message_roundtrip (sub : Nat) (as4 : Bool) (h : Mrt.Bgp4mpHdr) (body : Bytes)
    (hk : Mrt.bgp4mpKind sub = some (false, as4)) (hw : Mrt.Bgp4mpHdrWF as4 h)
    (h1 : 1 ≤ body.length) (h2 : 18 + body.length < 65536) :
    ∃ bs, Mrt.serBgp4mp as4 (.message h (mkBgpMsg body)) = some bs ∧
      Mrt.parseBgp4mp sub bs = some (.message h (mkBgpMsg body)) := by
  obtain ⟨hb, hs, hp⟩ := Mrt.parseBgp4mpHdr_ser as4 h (mkBgpMsg body) hw
  refine ⟨hb ++ mkBgpMsg body, by simp [Mrt.serBgp4mp, hs], ?_⟩
  unfold Mrt.parseBgp4mp
  rw [hk]
  simp only []
  rw [hp]
  simp only [Bool.false_eq_true, if_false]
  rw [bgpFrame_mk_nil body h1 h2]

/-- the subtype eventToMrtMsg picks selects the AS width it was given -/
theorem mrt_bgp4mp_subtype_kind (as4 ap : Bool) :
    Mrt.bgp4mpKind (Mrt.bgp4mpSubtype as4 ap) = some (false, as4) := by
  cases as4 <;> cases ap <;> rfl

example : Mrt.Bgp4mpHdrWF true ⟨4200000001, 65001, 0, 2, List.replicate 16 1, List.replicate 16 2⟩ := by
  refine ⟨by decide, by decide, by decide, Or.inr ⟨rfl, rfl, rfl⟩⟩
example : Mrt.bgp4mpKind 9 = some (false, true) := by rfl

/-! ## BMP bodies the daemon writes: Route Monitoring, Peer Up, Peer Down -/

/-- ROUTE MONITORING: the body is the embedded UPDATE, framed by its own header length. -/
theorem bmp_route_monitoring_roundtrip (body : Bytes) (h1 : 1 ≤ body.length) (h2 : 18 + body.length < 65536) :
    Bmp.parseBody2 0 (Bmp.serBody2 (.routeMon (mkBgpMsg body))) = some (.routeMon (mkBgpMsg body)) := by
  unfold Bmp.parseBody2
  simp only [Bmp.serBody2]
  simp only [if_true]
  rw [bgpFrame_mk_nil body h1 h2]

/-- PEER UP (without information TLVs, as bmpPeerUp sends it): local address, ports, and the two
    OPEN messages, each framed by its own header length — the second starts where the first ends. -/
theorem bmp_peer_up_roundtrip (la sent recv : Bytes) (lp rp : Nat)
    (hla : la.length = 16) (hlp : lp < 65536) (hrp : rp < 65536)
    (hs : 1 ≤ sent.length) (hr : 1 ≤ recv.length) (hlen : 36 + sent.length + recv.length < 65536) :
    Bmp.parseBody2 3 (Bmp.serBody2 (.peerUp la lp rp (mkBgpMsg sent) (mkBgpMsg recv) [])) =
      some (.peerUp la lp rp (mkBgpMsg sent) (mkBgpMsg recv) []) := by
  unfold Bmp.parseBody2
  simp only [Bmp.serBody2]
  rw [if_neg (by decide), if_pos trivial, copyInto_exact 16 la hla]
  simp only [Bmp.serTlvs, List.append_nil, List.append_assoc]
  rw [getN_append la _ 16 hla]
  try simp only []
  rw [getU16_enc lp _ hlp]
  try simp only []
  rw [getU16_enc rp _ hrp]
  try simp only []
  rw [bgpFrame_mk sent (mkBgpMsg recv) hs (by simp [mkBgpMsg, enc16]; omega)]
  try simp only []
  rw [bgpFrame_mk_nil recv hr (by omega)]
  simp

/-- PEER DOWN with a NOTIFICATION (reasons 1 and 3) and with opaque data (every other reason but
    6): the reason octet, then the message framed by its own length / the data as it is. -/
theorem bmp_peer_down_roundtrip (reason : Nat) (body data : Bytes) (hr : reason < 256)
    (h1 : 1 ≤ body.length) (h2 : 18 + body.length < 65536) :
    ((reason = 1 ∨ reason = 3) →
      Bmp.parseBody2 2 (Bmp.serBody2 (.peerDownMsg reason (mkBgpMsg body))) = some (.peerDownMsg reason (mkBgpMsg body))) ∧
    (reason ≠ 1 → reason ≠ 3 → reason ≠ 6 →
      Bmp.parseBody2 2 (Bmp.serBody2 (.peerDownData reason data)) = some (.peerDownData reason data)) := by
  constructor
  · intro hre
    unfold Bmp.parseBody2
    simp only [Bmp.serBody2]
    rw [if_neg (by decide), if_neg (by decide), if_pos trivial, getU8_enc reason _ hr]
    simp only [if_pos hre]
    rw [bgpFrame_mk_nil body h1 h2]
  · intro n1 n3 n6
    unfold Bmp.parseBody2
    simp only [Bmp.serBody2]
    rw [if_neg (by decide), if_neg (by decide), if_pos trivial, getU8_enc reason _ hr]
    try simp only []
    rw [if_neg (by omega), if_neg n6]

example : (mkBgpMsg [4]).length = 19 := by rfl
example : bgpFrame (mkBgpMsg [4] ++ [9, 9]) = some (mkBgpMsg [4], [9, 9]) := by rfl

/-! ## the other direction: what the parsers accept re-serialises to the very same octets -/

/-- PEER_INDEX_TABLE, serialize ∘ parse = id on the accepted set: whatever parsePeerIndexTable
    accepts (any octet string) serialises back to exactly the octets it consumed. -/
theorem mrt_peer_table_serialize_parse (d r : Bytes) (t : Mrt.PeerTable)
    (h : Mrt.parsePeerTable d = some (t, r)) (ho : Octets d) :
    ∃ bs, Mrt.serPeerTable t = some bs ∧ bs ++ r = d :=
  parsePeerTable_inv d r t h ho

/-- RIB ENTRIES (plain and ADD-PATH), serialize ∘ parse = id on the accepted set, and the parser
    returns exactly the announced number of entries. -/
theorem mrt_rib_entries_serialize_parse (ap : Bool) (n : Nat) (d r : Bytes) (es : List Mrt.Entry)
    (h : Mrt.parseEntries ap n d = some (es, r)) (ho : Octets d) :
    Mrt.serEntries ap es ++ r = d ∧ es.length = n :=
  parseEntries_inv ap n d r es h ho

example : Mrt.parsePeerTable [1, 1, 1, 1, 0, 0, 0, 1, 2, 2, 2, 2, 2, 10, 0, 0, 2, 0, 0, 253, 234, 7] =
    some (⟨[1, 1, 1, 1], [], [⟨2, [2, 2, 2, 2], [10, 0, 0, 2], 65002⟩]⟩, [7]) := by rfl
example : Mrt.parseEntries true 1 [0, 1, 0, 0, 0, 9, 0, 0, 0, 21, 0, 2, 64, 1] =
    some ([⟨1, 9, 21, [64, 1]⟩], []) := by rfl

end C19
